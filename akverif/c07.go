package main

import (
	"go/token"
	"go/types"
	"regexp"
	"sort"
	"strings"

	"golang.org/x/tools/go/ssa"
)

func init() { registry["C07"] = checkC07 }

// consensusEntryPoints: Msg servers, sdk.Msg methods, genesis/begin/end block functions, escrow hooks, query servers.
func (l *Loaded) consensusEntryPoints() []*ssa.Function {
	var out []*ssa.Function
	for _, fn := range l.prodFuncs() {
		if fn.Parent() != nil {
			continue
		}
		p := relPkg(fnPkgPath(fn))
		// upgrade handlers run inside a block on every node: the migration code they call is consensus code
		if p == "app/migrations" && fn.Object() != nil && fn.Object().Exported() {
			out = append(out, fn)
			continue
		}
		if !strings.HasPrefix(p, "x/") || strings.Contains(p, "/client") || strings.Contains(p, "/simulation") {
			continue
		}
		recv := ""
		if fn.Signature.Recv() != nil {
			recv = fn.Signature.Recv().Type().String()
		}
		n := fn.Name()
		switch {
		case strings.HasSuffix(recv, "msgServer"):
			out = append(out, fn)
		case strings.HasSuffix(recv, "querier") || strings.HasSuffix(recv, "Querier"):
			out = append(out, fn)
		case recv != "" && strings.Contains(recv, ".Msg") && (n == "ValidateBasic" || n == "GetSigners" || n == "GetSignBytes"):
			out = append(out, fn)
		case n == "InitGenesis" || n == "ExportGenesis" || n == "ValidateGenesis" || n == "BeginBlock" || n == "EndBlock" || n == "BeginBlocker" || n == "EndBlocker":
			out = append(out, fn)
		case strings.HasSuffix(recv, "hooks") && strings.HasPrefix(n, "OnEscrow"):
			out = append(out, fn)
		case p == "x/escrow/keeper" && recv != "" && fn.Object() != nil && fn.Object().Exported():
			out = append(out, fn)
		}
	}
	return out
}

func (l *Loaded) consensusScope() map[*ssa.Function][]*ssa.Function {
	return l.reachable(l.consensusEntryPoints(), func(f *ssa.Function) bool {
		p := fnPkgPath(f)
		if !strings.HasPrefix(p, akash) || nonProdPkg(p) {
			return false
		}
		r := relPkg(p)
		// client-side and provider daemon code is not part of the replicated state machine
		if strings.Contains(r, "/client") || strings.HasPrefix(r, "provider") || strings.HasPrefix(r, "cmd") || strings.HasPrefix(r, "client") {
			return false
		}
		return !strings.HasSuffix(l.Fset.Position(f.Pos()).Filename, ".pb.go") && !strings.HasSuffix(l.Fset.Position(f.Pos()).Filename, ".pb.gw.go")
	})
}

var forbiddenCalls = []string{"time.Now", "time.Since", "time.Until", "math/rand.", "crypto/rand.", "os.Getenv", "os.Hostname", "os.Getpid", "runtime.NumGoroutine", "runtime.NumCPU", "runtime.GOMAXPROCS", "runtime.Stack", "runtime.Caller", "(reflect.Value).MapKeys", "(reflect.Value).MapRange", "os.ReadFile", "os.Open", "net/http."}

// loopBody: blocks of the loop with the given header (header included).
func loopBlocks(h *ssa.BasicBlock) map[*ssa.BasicBlock]bool {
	body := map[*ssa.BasicBlock]bool{h: true}
	var stack []*ssa.BasicBlock
	for _, p := range h.Preds {
		if h.Dominates(p) {
			stack = append(stack, p)
		}
	}
	for len(stack) > 0 {
		b := stack[len(stack)-1]
		stack = stack[:len(stack)-1]
		if body[b] {
			continue
		}
		body[b] = true
		stack = append(stack, b.Preds...)
	}
	return body
}

func checkC07(c *Check) {
	c.Explanation = "Decided for every function of akash packages reachable (VTA call graph) from the consensus entry points (Msg servers, sdk.Msg methods, genesis/begin/end-block functions, escrow keeper API and hooks, gRPC query servers, the migration functions run by upgrade handlers): (R1) every range over a map is order-insensitive — its body performs no calls with effects (store reads/writes cost gas, events), has no early exit, writes only into maps / integer accumulators, or appends to a slice that is sorted by the field filled from the range key before any other use on all paths; (R2) no reachable call to wall-clock, random, environment, runtime-introspection or reflection map-order sources, no goroutine, select or channel operation, no floating-point arithmetic, no printf verb that bypasses String()/Error() on a value holding a pointer (it prints heap addresses); (R3) no write to package-level variables or to memory held behind a keeper's pointer fields (process-local caches make replicas diverge across restarts)."
	c.NotDecided = "determinism of the Cosmos SDK, Tendermint and the Go runtime themselves"
	l := c.L
	scope := l.consensusScope()
	var fns []*ssa.Function
	for f := range scope {
		fns = append(fns, f)
	}
	sort.Slice(fns, func(i, j int) bool { return fnName(fns[i]) < fnName(fns[j]) })
	if len(fns) < 150 {
		c.Fail("C07: consensus scope too small: %d functions", len(fns))
	}
	c.Extra["scope_functions"] = len(fns)
	c.Extra["entry_points"] = len(l.consensusEntryPoints())
	nrange := 0
	nglobArg := 0
	for _, fn := range fns {
		c.Analysed(fnName(fn))
		where := pathString(scope[fn], fn)
		eachInstr(fn, func(i ssa.Instruction) {
			c.CallSites++
			switch x := i.(type) {
			case *ssa.Range:
				if _, isMap := x.X.Type().Underlying().(*types.Map); isMap {
					nrange++
					ok, why := c.mapRangeInsensitive(fn, x)
					c.Ob("R1", "map range in "+fnName(fn)+" over "+short(Sym(x.X)), x.Pos(), ok, why+" [reachable: "+where+"]")
				}
			case *ssa.Go:
				c.Ob("R2", "goroutine started in "+fnName(fn), x.Pos(), false, "concurrency in consensus code: "+where)
			case *ssa.Select:
				c.Ob("R2", "select in "+fnName(fn), x.Pos(), false, "scheduling-dependent choice in consensus code: "+where)
			case *ssa.Send:
				c.Ob("R2", "channel send in "+fnName(fn), x.Pos(), false, where)
			case *ssa.UnOp:
				if x.Op == token.ARROW {
					c.Ob("R2", "channel receive in "+fnName(fn), x.Pos(), false, where)
				}
			case *ssa.BinOp:
				if b, ok := x.X.Type().Underlying().(*types.Basic); ok && b.Info()&types.IsFloat != 0 {
					c.Ob("R2", "floating-point arithmetic in "+fnName(fn), x.Pos(), false, "float arithmetic may differ across platforms: "+where)
				}
			case ssa.CallInstruction:
				full := calleeFull(x)
				for _, f := range forbiddenCalls {
					if strings.HasPrefix(full, f) || full == f {
						c.Ob("R2", "call to "+full+" in "+fnName(fn), x.Pos(), false, "non-deterministic source reachable from consensus entry point: "+where)
					}
				}
				// text that ends up in the transaction result: a verb that bypasses String()/Error() (%d, %p, ...) applied to a
				// value holding pointers prints heap addresses, which differ from run to run and node to node
				if bad := addressPrintingVerb(x); bad != "" {
					c.Ob("R2", "formatted text in "+fnName(fn)+" prints no addresses", x.Pos(), false, bad+": the text (an error or log that is part of the result) differs between executions of the same transaction: "+where)
				}
				// R3: the address of an akash package variable handed to a call (pointer-receiver method or pointer
				// argument) lets the callee mutate process-global state
				for _, a := range allArgs(x) {
					if g, isG := a.(*ssa.Global); isG && g.Pkg != nil && strings.HasPrefix(g.Pkg.Pkg.Path(), akash) {
						nglobArg++
						if !readOnlyGlobalUse(x, g) {
							c.Ob("R3", "address of package variable "+g.Name()+" passed to "+full+" in "+fnName(fn), x.Pos(), false, "package-level state can be mutated from consensus code (shared across transactions, queries and goroutines): "+where)
						}
					}
				}
			case *ssa.MapUpdate:
				// R3 process-local state: a map held by a keeper (or a package variable) that is filled while handling
				// consensus input lives outside the branched, revertible store
				var v ssa.Value = x.Map
				for d := 0; d < 6; d++ {
					switch y := v.(type) {
					case *ssa.UnOp:
						v = y.X
						continue
					case *ssa.FieldAddr:
						v = y.X
						continue
					case *ssa.Field:
						v = y.X
						continue
					}
					break
				}
				if al, isA := v.(*ssa.Alloc); isA {
					if pp := paramOfAlloc(al); pp != nil {
						v = pp // a receiver / parameter spilled to a local
					}
				}
				switch root := v.(type) {
				case *ssa.Global:
					c.Ob("R3", "write to package-level map "+root.Name()+" in "+fnName(fn), x.Pos(), false, "package-level state mutated from consensus code: "+where)
				case *ssa.Parameter:
					if fn.Signature.Recv() != nil && len(fn.Params) > 0 && root == fn.Params[0] && strings.Contains(fnPkgPath(fn), "/keeper") {
						c.Ob("R3", "write to a map held by the keeper in "+fnName(fn), x.Pos(), false, "the keeper memorises decoded state in process memory: a failed transaction is rolled back in the store but not there, CheckTx and DeliverTx share it, a restarted node starts without it: "+where)
					}
				}
			case *ssa.Store:
				// R3 process-local state
				root, viaKeeper := storeRoot(x.Addr, fn)
				if g, ok := root.(*ssa.Global); ok {
					c.Ob("R3", "write to package variable "+g.Name()+" in "+fnName(fn), x.Pos(), false, "package-level state mutated from consensus code: "+where)
				} else if viaKeeper != "" {
					c.Ob("R3", "write through keeper-held pointer "+viaKeeper+" in "+fnName(fn), x.Pos(), false, "process-local state behind a keeper field is mutated while handling consensus input (diverges across restarts): "+where)
				}
			}
		})
	}
	if nrange < 2 {
		c.Fail("C07-R1 lost instances: %d map ranges", nrange)
	}
	c.Ob("R2", "no forbidden source in "+itoa(len(fns))+" consensus-reachable functions (see violations otherwise)", token.NoPos, true, "")
	c.Ob("R3", "no process-local state written in consensus-reachable functions (see violations otherwise)", token.NoPos, true, "")
	// positive controls for the zero-expected rules: the matchers must fire on known provider-side code
	ctrlGo, ctrlTime := 0, 0
	for _, fn := range l.pkgFuncs("provider/bidengine") {
		eachInstr(fn, func(i ssa.Instruction) {
			if _, ok := i.(*ssa.Select); ok {
				ctrlGo++
			}
		})
	}
	for _, fn := range l.pkgFuncs("x/cert/utils") {
		for _, call := range callsIn(fn, true) {
			if calleeFull(call) == "time.Now" {
				ctrlTime++
			}
		}
	}
	if ctrlGo == 0 || ctrlTime == 0 {
		c.Fail("C07-R2 positive controls failed (select=%d time.Now=%d)", ctrlGo, ctrlTime)
	}
	c.Extra["positive_controls"] = map[string]int{"select_in_provider_bidengine": ctrlGo, "time_now_in_x_cert_utils": ctrlTime}
}

// storeRoot walks an address back to its root; reports a keeper field if the path goes through a pointer loaded
// from a field of a keeper-typed receiver/parameter.
func storeRoot(addr ssa.Value, fn *ssa.Function) (ssa.Value, string) {
	via := ""
	for i := 0; i < 20; i++ {
		switch x := addr.(type) {
		case *ssa.FieldAddr:
			addr = x.X
		case *ssa.IndexAddr:
			addr = x.X
		case *ssa.UnOp:
			if x.Op != token.MUL {
				return addr, via
			}
			// load of a pointer: where does the pointer live?
			if fa, ok := x.X.(*ssa.FieldAddr); ok {
				t := fa.X.Type()
				if p, ok := t.Underlying().(*types.Pointer); ok {
					t = p.Elem()
				}
				if nt, ok := t.(*types.Named); ok && (strings.HasSuffix(nt.Obj().Name(), "eeper")) && !strings.Contains(nt.String(), "bytes.") {
					via = nt.Obj().Name() + "." + fieldName(fa.X.Type(), fa.Field)
				}
			}
			addr = x.X
		case *ssa.Field:
			t := x.X.Type()
			if nt, ok := t.(*types.Named); ok && strings.HasSuffix(nt.Obj().Name(), "eeper") {
				if _, isPtr := x.Type().Underlying().(*types.Pointer); isPtr {
					via = nt.Obj().Name() + "." + fieldName(x.X.Type(), x.Field)
				}
			}
			return x.X, via
		default:
			return addr, via
		}
	}
	return addr, via
}

// mapRangeInsensitive classifies one range-over-map loop.
func (c *Check) mapRangeInsensitive(fn *ssa.Function, rng *ssa.Range) (bool, string) {
	// the loop header is the block containing the Next on this range
	var next *ssa.Next
	for _, r := range *rng.Referrers() {
		if n, ok := r.(*ssa.Next); ok {
			next = n
		}
	}
	if next == nil {
		return false, "range without iteration"
	}
	h := next.Block()
	body := loopBlocks(h)
	var keyVal ssa.Value
	for _, r := range *next.Referrers() {
		if ex, ok := r.(*ssa.Extract); ok && ex.Index == 1 {
			keyVal = ex
		}
	}
	type appendSite struct {
		slot ssa.Value // the variable (alloc) or phi that accumulates
		call *ssa.Call
	}
	var appends []appendSite
	for b := range body {
		for _, in := range b.Instrs {
			switch x := in.(type) {
			case *ssa.Return:
				return false, "the loop body can return: which element triggers it depends on map order"
			case *ssa.Panic:
				// a panic aborts the transaction; order may change the message only
			case *ssa.Call:
				full := calleeFull(x)
				switch {
				case full == "builtin.append":
					appends = append(appends, appendSite{call: x})
				case full == "builtin.len" || full == "builtin.delete" || full == "builtin.cap":
				case strings.HasPrefix(full, "(github.com/cosmos/cosmos-sdk/types.Int)") || strings.HasPrefix(full, "(github.com/cosmos/cosmos-sdk/types.Coin)"):
				default:
					return false, "the loop body calls " + full + ": effects (gas, store access, events, errors) happen in map order"
				}
			case *ssa.Store:
				root, _ := storeRoot(x.Addr, fn)
				if _, isAlloc := root.(*ssa.Alloc); !isAlloc {
					return false, "the loop body stores through " + short(Sym(x.Addr)) + " in map order"
				}
			case *ssa.Send, *ssa.Go, *ssa.Defer:
				return false, "concurrency inside a map range"
			case *ssa.If:
				// exits other than the loop condition
				if b != h {
					for _, s := range b.Succs {
						if !body[s] {
							return false, "the loop can be left early from inside its body: the elements processed depend on map order"
						}
					}
				}
			case *ssa.Jump:
				if b != h && !body[b.Succs[0]] {
					return false, "the loop can be left early (break) from inside its body"
				}
			}
		}
	}
	if len(appends) == 0 {
		return true, ""
	}
	// appended slices must be sorted by the key-derived field before any other use after the loop
	exit := h.Succs[1]
	for _, ap := range appends {
		// appended element must carry the range key in a field; find that field name
		keyField := ""
		if sl, ok := ap.call.Call.Args[1].(*ssa.Slice); ok {
			if arr, ok := sl.X.(*ssa.Alloc); ok {
				for _, r := range *arr.Referrers() {
					if ia, ok := r.(*ssa.IndexAddr); ok {
						for _, rr := range *ia.Referrers() {
							// element built in a temporary composite literal and copied into the slot
							if st, ok := rr.(*ssa.Store); ok && st.Addr == ssa.Value(ia) {
								if ld, ok := st.Val.(*ssa.UnOp); ok {
									if lit, ok := ld.X.(*ssa.Alloc); ok {
										for _, lr := range *lit.Referrers() {
											if fa, ok := lr.(*ssa.FieldAddr); ok {
												for _, r3 := range *fa.Referrers() {
													if s3, ok := r3.(*ssa.Store); ok && s3.Val == keyVal {
														keyField = fieldName(fa.X.Type(), fa.Field)
													}
												}
											}
										}
									}
								}
							}
							if fa, ok := rr.(*ssa.FieldAddr); ok {
								for _, r3 := range *fa.Referrers() {
									if st, ok := r3.(*ssa.Store); ok && st.Val == keyVal {
										keyField = fieldName(fa.X.Type(), fa.Field)
									}
								}
							}
						}
					}
				}
			}
		}
		if keyField == "" {
			return false, "elements appended in map order do not carry the (unique) map key to sort by"
		}
		if ok, why := c.sortedBeforeUse(fn, ap.call, exit.Instrs[0], body, keyField, 0); !ok {
			return false, why
		}
	}
	return true, ""
}

// sortedBeforeUse: every use of the data derived from src that comes after `first` in fn passes a sort.Slice whose
// comparator orders by keyField. When fn is a transparent helper (see transparent.go) that returns the data, the
// obligation continues at its call site.
func (c *Check) sortedBeforeUse(fn *ssa.Function, src ssa.Value, first ssa.Instruction, body map[*ssa.BasicBlock]bool, keyField string, depth int) (bool, string) {
	exit := first.Block()
	var sorts []ssa.Instruction
	for _, call := range callsIn(fn, false) {
		if call.Parent() != fn {
			continue
		}
		full := calleeFull(call)
		if !(full == "sort.Slice" || full == "sort.SliceStable") || !(exit == call.Block() || blockReaches(exit, call.Block())) {
			continue
		}
		if cmp := callbackFunc(call.Common().Args[1]); cmp != nil {
			// a closure, or a method value (the method behind the bound wrapper)
			okCmp := false
			eachInstr(cmp, func(i ssa.Instruction) {
				if b, ok := i.(*ssa.BinOp); ok && (b.Op == token.LSS || b.Op == token.GTR) && strings.HasSuffix(Sym(b.X), "."+keyField) && strings.HasSuffix(Sym(b.Y), "."+keyField) {
					okCmp = true
				}
			})
			if okCmp {
				sorts = append(sorts, call)
			}
		}
	}
	isSort := func(in ssa.Instruction) bool {
		for _, s := range sorts {
			if s == in {
				return true
			}
		}
		return false
	}
	site := transparentSite(fn)
	uses := taintedUses(fn, src)
	if len(sorts) == 0 {
		// nothing sorts the data here: acceptable only if a transparent helper hands it back and its caller sorts it
		handsBack := false
		for _, u := range uses {
			if _, isRet := u.(*ssa.Return); isRet && site != nil {
				handsBack = true
			}
		}
		if !handsBack {
			return false, "slice filled in map order is never sorted by " + keyField + " afterwards"
		}
	}
	for _, use := range uses {
		if body[use.Block()] || isSort(use) {
			continue
		}
		if !(use.Block() == exit || blockReaches(exit, use.Block())) {
			continue
		}
		if use == first || isSort(first) || mustPassFrom(fn, first, use, isSort) {
			continue
		}
		// handed back unsorted by a transparent helper: the caller must sort it before use
		if ret, isRet := use.(*ssa.Return); isRet && site != nil && depth < 3 {
			sc := site.(*ssa.Call)
			okAll := true
			why := ""
			for k, r := range ret.Results {
				if _, isSl := r.Type().Underlying().(*types.Slice); !isSl {
					continue
				}
				var srcs []ssa.Value
				if len(ret.Results) == 1 {
					srcs = append(srcs, sc)
				} else {
					for _, rr := range *sc.Referrers() {
						if ex, isEx := rr.(*ssa.Extract); isEx && ex.Index == k {
							srcs = append(srcs, ex)
						}
					}
				}
				for _, sv := range srcs {
					// first instruction after the call
					var after ssa.Instruction
					blk := sc.Block()
					for idx, in := range blk.Instrs {
						if in == ssa.Instruction(sc) && idx+1 < len(blk.Instrs) {
							after = blk.Instrs[idx+1]
						}
					}
					if after == nil {
						okAll, why = false, "call site of "+fn.Name()+" not understood"
						continue
					}
					if ok2, why2 := c.sortedBeforeUse(sc.Parent(), sv, after, map[*ssa.BasicBlock]bool{}, keyField, depth+1); !ok2 {
						okAll, why = false, why2
					}
				}
			}
			if okAll {
				continue
			}
			return false, why
		}
		if len(sorts) == 0 {
			return false, "slice filled in map order is never sorted by " + keyField + " afterwards"
		}
		return false, "data collected in map order reaches " + c.L.Pos(use.Pos()) + " without being sorted on some path"
	}
	return true, ""
}

// taintedUses: instructions (calls other than len/append/sort, returns) that consume data derived from the
// value src within fn (through phis, local variables, fields of local structs, slices and conversions).
func taintedUses(fn *ssa.Function, src ssa.Value) []ssa.Instruction {
	tv := map[ssa.Value]bool{src: true}
	ta := map[*ssa.Alloc]bool{}
	var uses []ssa.Instruction
	seenUse := map[ssa.Instruction]bool{}
	addUse := func(i ssa.Instruction) {
		if !seenUse[i] {
			seenUse[i] = true
			uses = append(uses, i)
		}
	}
	rootAlloc := func(addr ssa.Value) *ssa.Alloc {
		for {
			switch x := addr.(type) {
			case *ssa.FieldAddr:
				addr = x.X
			case *ssa.IndexAddr:
				addr = x.X
			case *ssa.Alloc:
				return x
			default:
				return nil
			}
		}
	}
	changed := true
	for changed {
		changed = false
		eachInstr(fn, func(i ssa.Instruction) {
			switch x := i.(type) {
			case *ssa.Store:
				if tv[x.Val] {
					if a := rootAlloc(x.Addr); a != nil {
						if !ta[a] {
							ta[a] = true
							changed = true
						}
					} else {
						addUse(x) // stored through a pointer that is not a local: the data leaves the function
					}
				}
			case *ssa.UnOp:
				if x.Op == token.MUL {
					if a := rootAlloc(x.X); a != nil && ta[a] && !tv[x] {
						tv[x] = true
						changed = true
					}
				}
			case *ssa.Phi:
				for _, e := range x.Edges {
					if tv[e] && !tv[x] {
						tv[x] = true
						changed = true
					}
				}
			case *ssa.Slice:
				if tv[x.X] && !tv[x] {
					tv[x] = true
					changed = true
				}
			case *ssa.MakeInterface:
				if tv[x.X] && !tv[x] {
					tv[x] = true
					changed = true
				}
			case *ssa.ChangeType:
				if tv[x.X] && !tv[x] {
					tv[x] = true
					changed = true
				}
			case *ssa.Call:
				full := calleeFull(x)
				hit := false
				for _, a := range allArgs(x) {
					if tv[a] {
						hit = true
					}
					if al := rootAlloc(a); al != nil && ta[al] {
						hit = true
					}
				}
				if !hit {
					return
				}
				if full == "builtin.append" {
					if !tv[x] {
						tv[x] = true
						changed = true
					}
					return
				}
				if full == "builtin.len" || full == "builtin.cap" {
					return
				}
				// results of calls on the data carry it on (e.g. MustMarshal -> Set)
				if !tv[x] {
					tv[x] = true
					changed = true
				}
				addUse(x)
			case *ssa.Return:
				for _, r := range x.Results {
					if tv[r] {
						addUse(x)
					}
				}
			}
		})
	}
	return uses
}

// readOnlyGlobalUse: the call only reads the package variable whose address it receives (value-receiver methods get a
// copy; a frozen list of read-only pointer-receiver methods).
func readOnlyGlobalUse(call ssa.CallInstruction, g *ssa.Global) bool {
	cc := call.Common()
	callee := cc.StaticCallee()
	if callee == nil {
		return false
	}
	if recv := callee.Signature.Recv(); recv != nil {
		if _, isPtr := recv.Type().(*types.Pointer); !isPtr {
			return true
		}
	}
	switch calleeFull(call) {
	case "(*github.com/cosmos/cosmos-sdk/types/errors.Error).Error", "(*github.com/cosmos/cosmos-sdk/types/errors.Error).Is",
		"(*github.com/cosmos/cosmos-sdk/types/errors.Error).ABCICode", "(*github.com/cosmos/cosmos-sdk/types/errors.Error).Codespace":
		return true
	}
	return false
}

var fmtVerbRE = regexp.MustCompile(`%[-+# 0]*[0-9*]*(?:\.[0-9*]+)?([a-zA-Z%])`)

// addressPrintingVerb: for a printf-style call with a constant format, the first argument whose verb does not go
// through String()/Error() (anything but v, s, q, x, X) while its type holds a pointer and has no Format method.
func addressPrintingVerb(call ssa.CallInstruction) string {
	args := call.Common().Args
	if len(args) < 2 {
		return ""
	}
	fi := len(args) - 2
	f, ok := strConst(args[fi])
	if !ok {
		return ""
	}
	sl, isSl := args[fi+1].(*ssa.Slice)
	if !isSl {
		return ""
	}
	arr, isArr := sl.X.(*ssa.Alloc)
	if !isArr {
		return ""
	}
	vals := arrayStores(arr)
	k := 0
	for _, m := range fmtVerbRE.FindAllStringSubmatch(f, -1) {
		verb := m[1]
		if verb == "%" {
			continue
		}
		if k >= len(vals) {
			break
		}
		v := vals[k]
		k++
		mi, isMI := v.(*ssa.MakeInterface)
		if !isMI {
			continue
		}
		t := mi.X.Type()
		if verb == "p" {
			return "%p prints an address"
		}
		if !strings.ContainsAny(verb, "dboOcUeEfFgGt") {
			continue // v, s, q, x, X, w go through String()/Error(); anything else is not a value verb
		}
		if hasMethod(t, "Format") {
			continue
		}
		if holdsPointer(t, 0) {
			return "%" + verb + " of a " + types.TypeString(t, shortQual) + " (which holds a pointer) does not use its String method and prints the pointer's address"
		}
	}
	return ""
}

func hasMethod(t types.Type, name string) bool {
	for _, tt := range []types.Type{t, types.NewPointer(t)} {
		ms := types.NewMethodSet(tt)
		for i := 0; i < ms.Len(); i++ {
			if ms.At(i).Obj().Name() == name {
				return true
			}
		}
	}
	return false
}

func holdsPointer(t types.Type, d int) bool {
	if d > 4 {
		return false
	}
	switch u := t.Underlying().(type) {
	case *types.Pointer, *types.Chan, *types.Signature, *types.Map:
		return true
	case *types.Basic:
		return u.Kind() == types.UnsafePointer
	case *types.Struct:
		for i := 0; i < u.NumFields(); i++ {
			if holdsPointer(u.Field(i).Type(), d+1) {
				return true
			}
		}
	case *types.Array:
		return holdsPointer(u.Elem(), d+1)
	case *types.Slice:
		return holdsPointer(u.Elem(), d+1)
	}
	return false
}
