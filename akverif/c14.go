package main

import (
	"go/token"
	"go/types"
	"strings"

	"golang.org/x/tools/go/ssa"
)

func init() { registry["C14"] = checkC14 }

func checkC14(c *Check) {
	c.Explanation = "Decided by path-sensitive abstract interpretation of the deployment manager's loop function over its SSA (domain: the manager's state field as one of its six constants, the operation channel and the hostname-reservation channel as nil / pending / drained one-shot tokens, flags for teardown requested, teardown started, shutdown requested, hostname failure; start helpers are summarised from their bodies: state := constant, returns a fresh pending operation): (R1) no cluster operation is started while another is pending; (R2) no deploy is started in a state where teardown was requested; (R3) every exit state in which teardown was requested has started the teardown unless shutdown was requested or the hostname reservation failed; the two INVALID STATE panics are unreachable; (R4) each update stores the manifest before any deploy starts and the deploy reads the stored manifest; (R5) the state field is written only by the loop, its two start helpers and the constructor; (R6) the service routes lease-closed to the manager's teardown or releases the reservation of an unmanaged order, releases the reservation and forgets the manager when it is done, creates a manager only on a map miss, and reserved hostnames are released on exit and are the ones reserved; (R7) the hostname service's reserve / can-reserve / release entry points all send the loop a fresh slice of strings.ToLower(name) and the loop keys its map by the received names unchanged. The key a lease's manager is filed under names all five id fields."
	c.NotDecided = "that Deploy/Teardown of the cluster client terminate; retries inside the teardown"
	l := c.L
	run := l.Func("provider/cluster", "deploymentManager", "run")
	c.Analysed(fnName(run))
	stateCell := "p:dm.state"

	// summaries of the start helpers
	type sum struct {
		state string
		kind  string
	}
	sums := map[*ssa.Function]sum{}
	for _, fn := range l.pkgFuncs("provider/cluster") {
		if fn.Signature.Recv() == nil || !strings.HasSuffix(fn.Signature.Recv().Type().String(), "deploymentManager") || fn == run || isNewFunc(fn) {
			continue // new helpers of the loop are interpreted in place by the abstract interpreter
		}
		var sv string
		eachInstr(fn, func(i ssa.Instruction) {
			if st, ok := i.(*ssa.Store); ok && strings.ReplaceAll(Sym(st.Addr), "*", "") == "&"+stateCell {
				if k, ok := strConst(st.Val); ok {
					sv = k
				} else {
					sv = "?"
				}
			}
		})
		if sv == "" {
			continue
		}
		kind := ""
		for _, call := range callsIn(fn, false) {
			if calleeMethod(call) == "do" {
				s := Sym(call.Common().Args[len(call.Common().Args)-1])
				switch {
				case strings.Contains(s, "doDeploy"):
					kind = "deploy"
				case strings.Contains(s, "doTeardown"):
					kind = "teardown"
				}
			}
		}
		if kind == "" {
			continue // writes the state without starting an operation: not a start helper, R5 reports the write
		}
		sums[fn] = sum{sv, kind}
	}
	if len(sums) != 2 {
		c.Fail("C14: expected two start helpers, found %d", len(sums))
	}
	for fn, s := range sums {
		c.Analysed(fnName(fn))
		okShape := (s.kind == "deploy" && s.state == "deploy-active") || (s.kind == "teardown" && s.state == "teardown-active")
		c.Ob("R1", fn.Name()+" marks the matching active state and starts exactly that operation", fn.Pos(), okShape, "helper sets state "+s.state+" and starts "+s.kind)
	}

	viols := map[string][2]string{}
	vpos := map[string]ssa.Instruction{}
	add := func(key, detail string, pos ssa.Instruction) {
		if _, ok := viols[key]; !ok {
			viols[key] = [2]string{key, detail}
			vpos[key] = pos
		}
	}
	teardownStates := map[string]bool{"s:teardown-active": true, "s:teardown-pending": true, "s:teardown-complete": true}
	exits := 0
	ai := &AI{fn: run}
	ai.trackMem = func(cell string) bool { return cell == stateCell }
	ai.oneShot = func(tok string) bool { return true }
	ai.onCall = func(st *aiState, call ssa.CallInstruction) (string, bool) {
		if g := call.Common().StaticCallee(); g != nil {
			if s, ok := sums[g]; ok {
				// assertions at the start site
				if st.tok["deploy"] == "pending" || st.tok["teardown"] == "pending" {
					add("R1|single", "a "+s.kind+" is started while another cluster operation for the same lease is still running (state "+st.mem[stateCell]+")", call)
				}
				if s.kind == "deploy" && (teardownStates[st.mem[stateCell]] || st.flag["tdreq"]) {
					add("R2|nodeploy", "a deploy is started after teardown was requested (state "+st.mem[stateCell]+"): the workload of a closed lease is deployed and the recorded teardown request is overwritten", call)
				}
				if s.kind == "teardown" {
					st.flag["tdstarted"] = true
				}
				st.mem[stateCell] = "s:" + s.state
				st.tok[s.kind] = "pending"
				return "tok:" + s.kind, true
			}
		}
		if calleeMethod(call) == "ReserveHostnames" {
			st.tok["hostnames"] = "pending"
			return "tok:hostnames", true
		}
		return "", false
	}
	ai.onSelect = func(st *aiState, sel *ssa.Select, i int) {
		if i < 0 {
			return
		}
		cs := strings.ReplaceAll(Sym(sel.States[i].Chan), "*", "")
		switch {
		case strings.HasSuffix(cs, "dm.teardownch"):
			st.flag["tdreq"] = true
		case strings.Contains(cs, "ShutdownRequest("):
			st.flag["shutdown"] = true
		}
	}
	ai.onBranch = func(st *aiState, ifi *ssa.If, idx int) {
		// error from the hostname reservation: the value received from the reservation channel compared with nil
		bo, ok := ifi.Cond.(*ssa.BinOp)
		if !ok || (bo.Op != token.NEQ && bo.Op != token.EQL) || !isNilConst(bo.Y) {
			return
		}
		// (in a new helper that is handed the received value: the caller's argument)
		ex, ok := stripConv(callerValue(bo.X)).(*ssa.Extract)
		if !ok {
			return
		}
		sel, ok := ex.Tuple.(*ssa.Select)
		if !ok || ex.Index < 2 {
			return
		}
		r := ex.Index - 2
		for _, s := range sel.States {
			if s.Dir != types.RecvOnly {
				continue
			}
			if r == 0 {
				if strings.Contains(Sym(s.Chan), "ReserveHostnames(") {
					if (bo.Op == token.NEQ) == (idx == 0) {
						st.flag["hnfail"] = true
					}
				}
				return
			}
			r--
		}
	}
	ai.onRecv = func(st *aiState, tok string, in ssa.Instruction, bare bool) {
		if tok == "hostnames" {
			st.flag["hnrecv"] = true
		}
	}
	ai.onReturn = func(st *aiState, in ssa.Instruction) {
		if _, isPanic := in.(*ssa.Panic); isPanic && !st.flag["stuck"] {
			add("R3|panic", "an INVALID STATE panic is reachable (state "+st.mem[stateCell]+")", in)
			return
		}
		if st.flag["stuck"] {
			return
		}
		exits++
		if st.flag["tdreq"] && !st.flag["tdstarted"] && !st.flag["shutdown"] {
			// leaving without teardown is acceptable only when nothing was ever deployed because the hostnames failed
			if !(st.flag["hnfail"] && st.cnt["deploys"] == 0 && st.tok["deploy"] == "") {
				add("R3|honoured", "the manager can terminate after a teardown request without ever starting the teardown (state "+st.mem[stateCell]+")", in)
			}
		}
	}
	init := newAIState()
	init.mem[stateCell] = "s:deploy-active" // constructor literal, checked below
	ai.Run(init)
	if ai.Aborted || ai.States < 30 || exits == 0 {
		c.Fail("C14: abstract interpretation did not cover the loop (states=%d exits=%d aborted=%v)", ai.States, exits, ai.Aborted)
	}
	c.Extra["states"] = ai.States
	c.Extra["transitions"] = ai.Transitions
	c.Extra["exit_states"] = exits
	for _, r := range [][3]string{
		{"R1", "R1|single", "at most one cluster operation per lease is in flight"},
		{"R2", "R2|nodeploy", "no deploy starts after teardown was requested"},
		{"R3", "R3|honoured", "a requested teardown is started before the manager terminates (except on shutdown / hostname failure before any deploy)"},
		{"R3", "R3|panic", "the INVALID STATE panics are unreachable"},
	} {
		if v, bad := viols[r[1]]; bad {
			c.Ob(r[0], r[2], vpos[r[1]].Pos(), false, v[1])
		} else {
			c.Ob(r[0], r[2]+" ("+itoa(ai.States)+" abstract states explored)", run.Pos(), true, "")
		}
	}
	// constructor state
	ctor := l.Func("provider/cluster", "", "newDeploymentManager")
	{
		ok := false
		eachInstr(ctor, func(i ssa.Instruction) {
			if st, isSt := i.(*ssa.Store); isSt && strings.HasSuffix(Sym(st.Addr), ".state") {
				if k, isK := strConst(st.Val); isK && k == "deploy-active" {
					ok = true
				}
			}
		})
		c.Ob("R1", "a new manager starts in the deploy-active state (initial state of the analysis)", ctor.Pos(), ok, "")
	}

	// ---- R4 latest manifest
	{
		// in run: every startDeploy call reachable from an updatech receive is preceded by the store of the received group
		dd := l.Func("provider/cluster", "deploymentManager", "doDeploy")
		ok := false
		for _, call := range callsIn(dd, false) {
			if calleeMethod(call) == "Deploy" {
				a := call.Common().Args
				if strings.ReplaceAll(Sym(a[len(a)-1]), "*", "") == "p:dm.mgroup" {
					ok = true
				}
			}
		}
		c.Ob("R4", "the deploy operation reads the manager's current manifest", dd.Pos(), ok, "deploy uses a captured copy instead of the latest stored manifest")
		// update case: store to dm.mgroup of the select-received value exists and dominates every start in that case
		var stores []*ssa.Store
		eachInstr(run, func(i ssa.Instruction) {
			if st, isSt := i.(*ssa.Store); isSt && strings.ReplaceAll(Sym(st.Addr), "*", "") == "&p:dm.mgroup" {
				stores = append(stores, st)
			}
		})
		first := (*ssa.Store)(nil)
		for _, s := range stores {
			if first == nil || instrDominates(s, first) {
				first = s
			}
		}
		okUpd := first != nil
		if okUpd {
			for _, s := range stores {
				if s != first && !instrDominates(first, s) {
					okUpd = false
				}
			}
			// any deploy start that is reachable from the update store without passing the select again is dominated by it
			for _, call := range callsIn(run, false) {
				if g := call.Common().StaticCallee(); g != nil && sums[g].kind == "deploy" && reachableFromNoSelect(first, call) && !instrDominates(first, call) {
					okUpd = false
				}
			}
		}
		c.Ob("R4", "an update stores the received manifest before any deploy it triggers", run.Pos(), okUpd, "a deploy triggered by an update can run with the previous manifest")
	}

	// ---- R5 who writes the state
	for _, fn := range l.pkgFuncs("provider/cluster") {
		eachInstr(fn, func(i ssa.Instruction) {
			if st, ok := i.(*ssa.Store); ok {
				if fa, ok := st.Addr.(*ssa.FieldAddr); ok {
					tn, f := structFieldOf(fa)
					if strings.HasSuffix(tn, "cluster.deploymentManager") && f == "state" {
						root := fn
						for root.Parent() != nil {
							root = root.Parent()
						}
						_, isHelper := sums[root]
						c.Ob("R5", "manager state written in "+fnName(fn), st.Pos(), inCodeOf(run, root) || isHelper || root == ctor, "the state machine's variable is modified outside the loop and its helpers")
					}
				}
			}
		})
	}

	// ---- R6 service routing
	srv := l.Func("provider/cluster", "service", "run")
	tl := l.Func("provider/cluster", "service", "teardownLease")
	c.Analysed(fnName(srv))
	c.Analysed(fnName(tl))
	{
		routed := false
		for _, call := range callsIn(srv, false) {
			if call.Common().StaticCallee() == tl && strings.Contains(Sym(call.Common().Args[1]), "EventLeaseClosed") {
				routed = true
			}
		}
		c.Ob("R6", "lease-closed events are routed to teardownLease", srv.Pos(), routed, "")
		var td, unres ssa.CallInstruction
		for _, call := range callsIn(tl, false) {
			switch calleeMethod(call) {
			case "teardown":
				td = call
			case "unreserve":
				unres = call
			}
		}
		okTd := td != nil
		if okTd {
			okTd = false
			for _, a := range factsAt(td.Block()) {
				if a.Op == "neq" && isNilConst(a.Y) && strings.Contains(Sym(a.X), "s.managers[") {
					okTd = true
				}
			}
		}
		c.Ob("R6", "a known manager is asked to tear down when its lease closes", tl.Pos(), okTd, "")
		okUn := unres != nil
		if okUn {
			okUn = false
			for _, a := range factsAt(unres.Block()) {
				if a.Op == "eq" && isNilConst(a.Y) && strings.Contains(Sym(a.X), "s.managers[") {
					okUn = true
				}
			}
			okUn = okUn && strings.Contains(Sym(unres.Common().Args[len(unres.Common().Args)-1]), "OrderID(p:lid)")
		}
		c.Ob("R6", "the reservation of an unmanaged closed lease is released", tl.Pos(), okUn, "")
		// manager done: unreserve + delete
		un2, del := false, false
		for _, call := range callsIn(srv, false) {
			if calleeMethod(call) == "unreserve" && strings.Contains(Sym(call.Common().Args[len(call.Common().Args)-1]), ".lease") {
				un2 = true
			}
			if calleeFull(call) == "builtin.delete" && strings.Contains(Sym(call.Common().Args[0]), "s.managers") {
				del = true
			}
		}
		c.Ob("R6", "when a manager is done its reservation is released and the manager is forgotten", srv.Pos(), un2 && del, "")
		// creation only on a map miss
		n := 0
		for _, call := range callsIn(srv, false) {
			if call.Common().StaticCallee() != ctor {
				continue
			}
			n++
			if loopHeaderOf(call.Block()) != nil && strings.Contains(Sym(call.Common().Args[1]), "Deployment.LeaseID(") {
				c.Ob("R6", "managers for already-deployed leases are created once at start-up", call.Pos(), true, "")
				continue
			}
			miss := false
			for _, a := range factsAt(call.Block()) {
				if a.Op == "eq" && isNilConst(a.Y) && strings.Contains(Sym(a.X), "s.managers[") {
					miss = true
				}
			}
			c.Ob("R6", "a manager is created for a lease only when none is registered for it", call.Pos(), miss, "a second manager is created for a lease that still has one: the old manager's completion later unregisters the new one and the lease is never torn down")
		}
		if n < 2 {
			c.Fail("C14-R6 lost instances")
		}
		// hostnames released on exit
		rel := false
		eachInstr(run, func(i ssa.Instruction) {
			if d, ok := i.(*ssa.Defer); ok && calleeMethod(d) == "ReleaseHostnames" {
				rel = true
			}
		})
		c.Ob("R6", "successfully reserved hostnames are released when the manager exits", run.Pos(), rel, "")
		// ... and the release names exactly what the reservation named
		var resArg, relArg string
		eachInstr(run, func(i ssa.Instruction) {
			if ci, ok := i.(ssa.CallInstruction); ok {
				switch calleeMethod(ci) {
				case "ReserveHostnames":
					resArg = Sym(userArgs(ci)[0])
				case "ReleaseHostnames":
					relArg = Sym(userArgs(ci)[0])
				}
			}
		})
		c.Ob("R6", "the hostnames released are the hostnames reserved", run.Pos(), resArg != "" && resArg == relArg, "reserved "+short(resArg)+" but released "+short(relArg))
	}
	c.hostnameNormalisation()
	c.serviceClientSends("R7")
	// the manifest the manager receives is the newest one the manifest manager accepted (shared with C20-R4), and the
	// group a manager is created with is its own (no pointer to a per-loop variable handed to several managers)
	c.announcesLatestManifest("R4")
	c.exactGroupNames("R4")
	c.loopVarAddressEscapes("R4", []string{"provider/cluster", "provider/event"})
	c.leaseKeyCoversID("R6")
	c.inventoryClientRules("R6")
	c.cancelBeforeDrain("R3", l.Func("provider/cluster", "deploymentMonitor", "run"))
	// the manager's exit waits for the withdrawal worker: a withdrawal that waits for an in-flight broadcast before
	// cancelling its context never lets the manager release hostnames and reservation
	c.cancelBeforeDrain("R3", l.Func("provider/cluster", "deploymentWithdrawal", "run"))
	// subscribe-then-snapshot: a lease-closed event published while the start-up snapshot of deployed leases is being
	// taken must already be buffered by the subscription, or the manager created from the snapshot is never told
	{
		ns := l.Func("provider/cluster", "", "NewService")
		c.Analysed(fnName(ns))
		var sub, snap ssa.CallInstruction
		for _, call := range callsIn(ns, false) {
			if calleeMethod(call) == "Subscribe" {
				sub = call
			}
			if g := call.Common().StaticCallee(); g != nil && g.Name() == "findDeployments" {
				snap = call
			}
		}
		ok := sub != nil && snap != nil && instrDominates(sub.(ssa.Instruction), snap.(ssa.Instruction))
		pos := ns.Pos()
		if snap != nil {
			pos = snap.Pos()
		}
		c.Ob("R6", "the service subscribes to the event bus before it snapshots the deployed leases", pos, ok, "leases are listed before the bus subscription exists: a lease-closed event published in between is lost, the lease gets a manager and is never torn down")
	}
}

// hostnameNormalisation (R7): the hostname service's three entry points hand the service loop the same normal form
// of the names (a fresh slice filled with strings.ToLower of each given name), and the loop uses the received names
// as map keys unchanged. Reserve and release then address the same keys whatever the spelling in the manifest.
func (c *Check) hostnameNormalisation() {
	l := c.L
	n := 0
	// lowerCopy: v is a fresh slice, as long as a parameter slice of the function that makes it, every element of
	// which is strings.ToLower of the corresponding element of that parameter; or the result of a function of the
	// package whose every returned value is such a copy
	var lowerCopy func(v ssa.Value, depth int) bool
	lowerCopy = func(v ssa.Value, depth int) bool {
		if depth > 3 {
			return false
		}
		switch x := v.(type) {
		case *ssa.MakeSlice:
			ln, _ := callOf(x.Len)
			if ln == nil || calleeFull(ln) != "builtin.len" {
				return false
			}
			src, isP := ln.Call.Args[0].(*ssa.Parameter)
			if !isP {
				return false
			}
			stores, lower := 0, 0
			for _, r := range *x.Referrers() {
				ia, isIA := r.(*ssa.IndexAddr)
				if !isIA {
					continue
				}
				for _, rr := range *ia.Referrers() {
					if st, isSt := rr.(*ssa.Store); isSt && st.Addr == ssa.Value(ia) {
						stores++
						if cv, _ := callOf(st.Val); cv != nil && calleeFull(cv) == "strings.ToLower" {
							if ld, isLd := cv.Call.Args[0].(*ssa.UnOp); isLd {
								if sa, isSA := ld.X.(*ssa.IndexAddr); isSA && sa.X == ssa.Value(src) && sa.Index == ia.Index {
									lower++
								}
							}
						}
					}
				}
			}
			return stores > 0 && stores == lower
		case *ssa.Call:
			g := x.Call.StaticCallee()
			if g == nil || g.Blocks == nil || fnPkgPath(g) != akash+"/provider/cluster" || g.Signature.Results().Len() != 1 {
				return false
			}
			rets := helperReturns(g, 0)
			if len(rets) == 0 {
				return false
			}
			for _, rv := range rets {
				if !lowerCopy(rv, depth+1) {
					return false
				}
			}
			return true
		case *ssa.Phi:
			for _, e := range x.Edges {
				if !lowerCopy(e, depth+1) {
					return false
				}
			}
			return len(x.Edges) > 0
		}
		return false
	}
	for _, name := range []string{"ReserveHostnames", "CanReserveHostnames", "ReleaseHostnames"} {
		fn := l.Func("provider/cluster", "hostnameService", name)
		c.Analysed(fnName(fn))
		var sent ssa.Value
		eachInstrDeep(fn, func(i ssa.Instruction) {
			var v ssa.Value
			switch x := i.(type) {
			case *ssa.Select:
				for _, st := range x.States {
					if st.Send != nil {
						v = st.Send
					}
				}
			case *ssa.Send:
				v = x.X
			}
			if v == nil {
				return
			}
			// a request struct: take its hostnames field (the struct may reach the send through a new helper's parameter
			// and be built by another new helper)
			if _, isStruct := v.Type().Underlying().(*types.Struct); isStruct {
				owner := i.Parent()
				for d := 0; d < 6; d++ {
					if ld, isLd := v.(*ssa.UnOp); isLd {
						if a, isA := ld.X.(*ssa.Alloc); isA {
							if pp := paramOfAlloc(a); pp != nil {
								v = pp
								continue
							}
							found := false
							for _, st := range fieldStores(owner, func(fa *ssa.FieldAddr) bool {
								return fa.X == ssa.Value(a) && fieldName(fa.X.Type(), fa.Field) == "hostnames"
							}) {
								v = st.Val
								found = true
							}
							if found {
								break
							}
						}
					}
					if pp, isP := v.(*ssa.Parameter); isP {
						// a helper shared by several entry points: the argument at its call inside this entry point
						var siteArg ssa.Value
						eachInstrDeep(fn, func(j ssa.Instruction) {
							if cj, isCJ := j.(ssa.CallInstruction); isCJ && cj.Common().StaticCallee() == pp.Parent() {
								if k := paramIdx(pp); k >= 0 && k < len(cj.Common().Args) {
									siteArg = cj.Common().Args[k]
									owner = j.Parent()
								}
							}
						})
						if siteArg != nil {
							v = siteArg
							continue
						}
						if cv := callerValue(pp); cv != ssa.Value(pp) {
							v = cv
							if in, isIn := cv.(ssa.Instruction); isIn {
								owner = in.Parent()
							}
							continue
						}
					}
					if cl, isC := v.(*ssa.Call); isC {
						if g := newHelperCallee(cl); g != nil {
							if rs := helperReturns(g, 0); len(rs) == 1 {
								v = rs[0]
								owner = g
								continue
							}
						}
					}
					break
				}
			}
			if _, isSlice := v.Type().Underlying().(*types.Slice); isSlice {
				sent = v
			}
		})
		n++
		ok := false
		why := "no hostname list is sent to the service loop"
		if sent != nil {
			ok = lowerCopy(sent, 0)
			why = "the list sent to the service loop is " + short(Sym(sent)) + ", not a copy filled with strings.ToLower of every given name: names are reserved under one spelling and released/checked under another"
		}
		c.Ob("R7", name+" hands the service loop the lower-cased names", fn.Pos(), ok, why)
	}
	// the loop side: map keys are the received names
	for _, name := range []string{"doRequest", "doRelease"} {
		fn := l.Func("provider/cluster", "hostnameService", name)
		c.Analysed(fnName(fn))
		ok, seen := true, 0
		detail := ""
		eachInstrDeep(fn, func(i ssa.Instruction) {
			var key ssa.Value
			switch x := i.(type) {
			case *ssa.MapUpdate:
				key = x.Key
			case *ssa.Lookup:
				if _, isMap := x.X.Type().Underlying().(*types.Map); isMap {
					key = x.Index
				}
			case ssa.CallInstruction:
				if calleeFull(x) == "builtin.delete" {
					key = x.Common().Args[1]
				}
			}
			if key == nil {
				return
			}
			seen++
			ks := strings.Replace(symInCaller(key), "**p:", "*p:", 1)
			if !(strings.HasPrefix(ks, "*p:hostnames[") || strings.HasPrefix(ks, "*p:rr.hostnames[")) {
				ok = false
				detail = "in-use map addressed by " + short(ks)
			}
		})
		n++
		c.Ob("R7", name+" addresses the in-use map by the received names unchanged", fn.Pos(), ok && seen > 0, detail)
	}
	// all-or-nothing: once a name of the request has been recorded, the request cannot be refused any more (a manager
	// whose reservation is refused never releases anything)
	{
		fn := l.Func("provider/cluster", "hostnameService", "doRequest")
		var updates []ssa.Instruction
		var refusals []ssa.Instruction
		eachInstrDeep(fn, func(i ssa.Instruction) {
			switch x := i.(type) {
			case *ssa.MapUpdate:
				updates = append(updates, x)
			case *ssa.Send:
				if !isNilConst(x.X) {
					refusals = append(refusals, x)
				}
			}
		})
		// (a store or a reply that now sits in a new helper stands at the helper's call in doRequest)
		lift := func(in ssa.Instruction) ssa.Instruction {
			if li := liftTo(fn, in); li != nil {
				return li
			}
			return in
		}
		ok := len(updates) > 0 && len(refusals) > 0
		why := "doRequest has no recording store or no refusing reply"
		for _, u := range updates {
			for _, r := range refusals {
				// the value sent is known to be nil wherever the recording store executes: not a refusal
				knownNil := false
				sv := r.(*ssa.Send).X
				for _, a := range append(factsAt(u.Block()), factsAt(lift(u).Block())...) {
					if a.Op == "eq" && a.Y != nil && isNilConst(a.Y) && (a.X == sv || Sym(a.X) == Sym(sv)) {
						knownNil = true
					}
				}
				if knownNil {
					continue
				}
				if lu, lr := lift(u), lift(r); lu.Parent() == lr.Parent() && lu != lr && reachableFrom(lu, lr) || (lu == lr && reachableFrom(u, r)) {
					ok = false
					why = "a refusal at " + l.Pos(r.Pos()) + " can follow the recording of an earlier name of the same request: those names stay taken although the request failed and nobody will release them"
				}
			}
		}
		n++
		c.Ob("R7", "doRequest records names only after the whole request was admitted", fn.Pos(), ok, why)
	}
	if n != 6 {
		c.Fail("C14-R7 lost instances")
	}
}

// reachableFromNoSelect: `to` is reachable from `from` without passing a select instruction.
func reachableFromNoSelect(from, to ssa.Instruction) bool {
	fn := from.Parent()
	return !mustPassFrom(fn, from, to, func(i ssa.Instruction) bool { _, ok := i.(*ssa.Select); return ok }) && reachableFrom(from, to)
}

// serviceClientSends: a method that hands a request to a service loop over a channel does so in a select that also
// watches the service's shutdown: once the loop has exited nobody receives, and a bare send blocks its caller for
// ever (the manifest manager validating a submission, the deployment manager on its way out). Applied to the
// hostname service's entry points; shared by C14-R7 and C20-R2.
func (c *Check) serviceClientSends(rule string) {
	l := c.L
	n := 0
	for _, fn := range l.pkgFuncs("provider/cluster") {
		if fn.Signature.Recv() == nil || !strings.HasSuffix(fn.Signature.Recv().Type().String(), "hostnameService") || fn.Name() == "run" {
			continue
		}
		for _, g := range fnAndClosuresDeep(fn) {
			eachInstr(g, func(i ssa.Instruction) {
				switch x := i.(type) {
				case *ssa.Send:
					cs := Sym(x.Chan)
					if strings.HasSuffix(cs, "hs.requests") || strings.HasSuffix(cs, "hs.releases") {
						n++
						c.Ob(rule, "hostname service: "+fn.Name()+" hands its request to the loop in a select with the shutdown signal", x.Pos(), false, "bare send on "+short(cs)+": after the hostname service stopped the caller blocks for ever")
					}
				case *ssa.Select:
					hasSend, hasDown := false, false
					for _, st := range x.States {
						cs := Sym(st.Chan)
						if st.Dir == types.SendOnly && (strings.HasSuffix(cs, "hs.requests") || strings.HasSuffix(cs, "hs.releases")) {
							hasSend = true
						}
						if st.Dir == types.RecvOnly && strings.Contains(cs, "ShuttingDown(") {
							hasDown = true
						}
					}
					if hasSend {
						n++
						c.Ob(rule, "hostname service: "+fn.Name()+" hands its request to the loop in a select with the shutdown signal", x.Pos(), hasDown && x.Blocking, "the select that sends the request has no shutdown case")
					}
				}
			})
		}
	}
	if n < 3 {
		c.Info(rule, "hostname service: fewer request hand-overs than on the pinned tree, not decided", token.NoPos, itoa(n)+" found")
	}
}

// leaseKeyCoversID: the cluster service files each lease's deployment manager under query.LeasePath(lease id) and
// routes manifests, updates and lease-closed events by that key. The key must name all five fields of the lease id:
// with one left out, the manifest of a new lease of the same group is handed to the (tearing down) manager of the
// previous one and never deployed, and closing one lease tears down the other.
func (c *Check) leaseKeyCoversID(rule string) {
	l := c.L
	fn := l.Func("x/market/query", "", "LeasePath")
	c.Analysed(fnName(fn))
	tpl, ok := canonString(fn, 0)
	if !ok {
		c.Info(rule, "query.LeasePath: form not recognised, field coverage of the manager key not decided", fn.Pos(), "")
		return
	}
	miss := ""
	for _, f := range []string{"Owner", "DSeq", "GSeq", "OSeq", "Provider"} {
		if strings.Count(tpl, "<"+f+">") != 1 {
			miss += f + " "
		}
	}
	c.Ob(rule, "the key a lease's manager is filed under names owner, dseq, gseq, oseq and provider", fn.Pos(), miss == "", "query.LeasePath renders "+tpl+" (problem with: "+miss+"): leases that differ only there share one deployment manager")
}
