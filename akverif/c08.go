package main

import (
	"go/token"
	"go/types"
	"strconv"
	"strings"

	"golang.org/x/tools/go/ssa"
)

func init() { registry["C08"] = checkC08 }

// retLeaves expands a returned value into (block, constant/value) leaves through phis.
type retLeaf struct {
	blk *ssa.BasicBlock
	val ssa.Value
}

func retLeaves(v ssa.Value, blk *ssa.BasicBlock, seen map[ssa.Value]bool) []retLeaf {
	if ph, ok := v.(*ssa.Phi); ok && !seen[v] {
		seen[v] = true
		var out []retLeaf
		for i, e := range ph.Edges {
			out = append(out, retLeaves(e, ph.Block().Preds[i], seen)...)
		}
		return out
	}
	return []retLeaf{{blk, v}}
}

func isConstBool(v ssa.Value, want bool) bool {
	k, ok := v.(*ssa.Const)
	if !ok || k.Value == nil {
		return false
	}
	s := k.Value.ExactString()
	return (want && s == "true") || (!want && s == "false")
}

func checkC08(c *Check) {
	c.Explanation = "Decided on all paths of the bid admission and provider update code: (R1) the bid record and its deposit account are created only on paths dominated by every admission guard (deposit denomination and amount, order found and open, valid price not above the order maximum, provider address valid and registered, requirements matched); ValidateBasic rejects provider==tenant and zero price; (R2) the attribute sets handed to the matcher are the bidder's own provider record followed only by the audited attributes of the same address; in the matcher a positive answer under signed-by requirements is returned only after the all-of loop ran to completion and, when an any-of list exists, only from an any-of match; (R3) a provider record is updated only if a scan over all leases, which for every active lease of this provider requires its order to match the new attributes, reported no mismatch, and the scan callback stops only after recording an error."
	c.NotDecided = "the truth table of attribute/auditor matching as a set-valued function (AttributesSubsetOf semantics)"
	l := c.L

	// ---- R1
	h := l.msgServerMethod("x/market/handler", "CreateBid")
	c.Analysed(fnName(h))
	type guard struct {
		name string
		ok   func(f []Atom) bool
	}
	callFact := func(f []Atom, truth bool, m string, argPred func(args []string) bool) bool {
		want := "true"
		if !truth {
			want = "false"
		}
		for _, a := range f {
			if a.Op != want {
				continue
			}
			if cv, _ := callOf(a.X); cv != nil && calleeMethod(cv) == m {
				var as []string
				for _, x := range allArgs(cv) {
					as = append(as, Sym(x))
				}
				if argPred == nil || argPred(as) {
					return true
				}
			}
		}
		return false
	}
	foundFact := func(f []Atom, m string, argSub string) bool {
		for _, a := range f {
			if a.Op == "true" {
				if cv, idx := callOf(a.X); cv != nil && idx == 1 && calleeMethod(cv) == m && strings.Contains(Sym(cv), argSub) {
					return true
				}
			}
		}
		return false
	}
	kinds := l.recordKinds()
	guards := []guard{
		{"deposit denomination equals the minimum deposit's", func(f []Atom) bool {
			for _, a := range f {
				if a.Op == "eq" && ((Sym(a.X) == "*p:msg.Deposit.Denom" && onChainMin(Sym(a.Y), "Denom")) || (Sym(a.Y) == "*p:msg.Deposit.Denom" && onChainMin(Sym(a.X), "Denom"))) {
					return true
				}
			}
			return false
		}},
		{"deposit amount at least the minimum", func(f []Atom) bool {
			return callFact(f, false, "GT", func(a []string) bool {
				return onChainMin(a[0], "Amount") && a[1] == "*p:msg.Deposit.Amount"
			}) || callFact(f, false, "LT", func(a []string) bool {
				return onChainMin(a[1], "Amount") && a[0] == "*p:msg.Deposit.Amount"
			})
		}},
		{"order exists", func(f []Atom) bool { return foundFact(f, "GetOrder", "*p:msg.Order)") }},
		{"order is open", func(f []Atom) bool {
			for _, a := range f {
				if a.Op == "eq" && isNilConst(a.Y) {
					if cv, _ := callOf(a.X); cv != nil && calleeMethod(cv) == "ValidateCanBid" && strings.Contains(Sym(cv), "GetOrder(") {
						g := cv.Call.StaticCallee()
						rk := kinds[akash+"/x/market/types.Order"]
						ns := l.validatorNilStates(kinds, rk, g)
						return len(ns) == 1 && ns[rk.byName["OrderOpen"]]
					}
				}
			}
			return false
		}},
		{"price is valid", func(f []Atom) bool {
			return callFact(f, true, "IsValid", func(a []string) bool { return a[0] == "*p:msg.Price" })
		}},
		{"price not above the order's maximum", func(f []Atom) bool {
			return callFact(f, false, "IsLT", func(a []string) bool {
				return strings.Contains(a[0], "Order.Price(") && strings.Contains(a[0], "GetOrder(") && a[1] == "*p:msg.Price"
			})
		}},
		{"provider address parses", func(f []Atom) bool {
			for _, a := range f {
				if a.Op == "eq" && isNilConst(a.Y) && Sym(a.X) == "types.AccAddressFromBech32(*p:msg.Provider)#1" {
					return true
				}
			}
			return false
		}},
		{"provider is registered", func(f []Atom) bool {
			return foundFact(f, "Get", "types.AccAddressFromBech32(*p:msg.Provider)#0)")
		}},
		{"provider attributes match the order's requirements", func(f []Atom) bool {
			return callFact(f, true, "MatchRequirements", func(a []string) bool { return strings.Contains(a[0], "GetOrder(") })
		}},
	}
	nw := 0
	for _, call := range callsIn(h, false) {
		if !(callIs(call, "CreateBid", "IKeeper") || callIs(call, "AccountCreate", "EscrowKeeper")) {
			continue
		}
		nw++
		f := factsAt(call.Block())
		for _, g := range guards {
			c.Ob("R1", calleeMethod(call)+" dominated by: "+g.name, call.Pos(), g.ok(f), "a bid can be stored although '"+g.name+"' does not hold")
		}
	}
	if nw != 2 {
		c.Fail("C08-R1: expected 2 writes in CreateBid, found %d", nw)
	}
	vb := l.Func("x/market/types", "MsgCreateBid", "ValidateBasic")
	c.Analysed(fnName(vb))
	okSelf, okZero, okOrder := true, true, true
	for _, r := range successReturns(vb) {
		f := factsAt(r.Block())
		if !callFact(f, false, "Equals", func(a []string) bool {
			s := a[0] + "|" + a[1]
			return strings.Contains(s, "AccAddressFromBech32(p:msg.Provider)#0") && strings.Contains(s, "AccAddressFromBech32(p:msg.Order.Owner)#0")
		}) {
			okSelf = false
		}
		if !callFact(f, false, "IsZero", func(a []string) bool { return a[0] == "p:msg.Price" }) {
			okZero = false
		}
		ov := false
		for _, a := range f {
			if a.Op == "eq" && isNilConst(a.Y) && Sym(a.X) == "types.OrderID.Validate(p:msg.Order)" {
				ov = true
			}
		}
		if !ov {
			okOrder = false
		}
	}
	c.Ob("R1", "MsgCreateBid.ValidateBasic rejects provider == tenant", vb.Pos(), okSelf, "a tenant can bid on its own order")
	c.Ob("R1", "MsgCreateBid.ValidateBasic rejects a zero price", vb.Pos(), okZero, "")
	c.Ob("R1", "MsgCreateBid.ValidateBasic validates the order id", vb.Pos(), okOrder, "")
	c.orderMaximumShape("R1")
	c.providerUpdatePersists("R3")

	// ---- R2 what is matched
	for _, call := range callsIn(h, false) {
		if calleeMethod(call) != "MatchRequirements" {
			continue
		}
		s := Sym(call.Common().Args[1])
		prov := "types.AccAddressFromBech32(*p:msg.Provider)#0"
		own := strings.Contains(s, "Attributes: handler.ProviderKeeper.Get(p:ms.keepers.Provider, types.UnwrapSDKContext(p:goCtx), "+prov+")#0.Attributes") && strings.Contains(s, "Owner: *p:msg.Provider")
		aud := strings.Contains(s, "handler.AuditKeeper.GetProviderAttributes(p:ms.keepers.Audit, types.UnwrapSDKContext(p:goCtx), "+prov+")#0")
		shape := strings.HasPrefix(s, "builtin.append([types.Provider{") && strings.Count(s, "types.Provider{") == 1
		if !strings.HasPrefix(s, "builtin.append(") {
			// the list is not the append form: read its content from how it is filled (make + indexed stores)
			parts, known := sliceParts(call.Common().Args[1])
			if !known {
				c.Info("R2", "matcher input: construction of the provider list not recognised, content not decided", call.Pos(), "the list handed to MatchRequirements is built as "+short(s))
				continue
			}
			own = len(parts) > 0 && strings.Contains(parts[0], "Attributes: handler.ProviderKeeper.Get(p:ms.keepers.Provider, types.UnwrapSDKContext(p:goCtx), "+prov+")#0.Attributes") && strings.Contains(parts[0], "Owner: *p:msg.Provider")
			aud = len(parts) == 2 && parts[1] == "rest:handler.AuditKeeper.GetProviderAttributes(p:ms.keepers.Audit, types.UnwrapSDKContext(p:goCtx), "+prov+")#0"
			shape = true
			s = strings.Join(parts, " ++ ")
		}
		c.Ob("R2", "matcher input starts with the bidder's own provider record", call.Pos(), own && shape, short(s))
		c.Ob("R2", "matcher input continues only with the audited attributes of the same address", call.Pos(), aud && shape, short(s))
	}
	mr := l.Func("x/deployment/types", "GroupSpec", "MatchRequirements")
	c.Analysed(fnName(mr))
	c.matcherShape(mr)
	c.subsetShape()
	// the audited attributes looked up for a bidder are that bidder's: the owner-scoped listing iterates exactly the
	// keys under the owner's prefix (key layout + bounded iterators, shared with C06-R5)
	c.keyLayoutsRule("R2", []string{"x/audit/keeper"}, 1, 0)
	// an auditor's attestation is merged only with that auditor's own earlier attestation: what
	// CreateOrUpdateProviderAttributes reads is the record under the very key it writes (owner AND auditor), never an
	// owner-wide listing (whose first element belongs to whichever auditor sorts first)
	{
		fn := l.Func("x/audit/keeper", "Keeper", "CreateOrUpdateProviderAttributes")
		c.Analysed(fnName(fn))
		setKey := ""
		var gets []string
		wide := ""
		for _, call := range callsIn(fn, false) {
			m := calleeMethod(call)
			full := calleeFull(call)
			switch {
			case m == "Set" && strings.Contains(full, "KVStore"):
				setKey = Sym(call.Common().Args[0])
			case m == "Get" && strings.Contains(full, "KVStore"):
				gets = append(gets, Sym(call.Common().Args[0]))
			default:
				if g := call.Common().StaticCallee(); g != nil && fnPkgPath(g) == akash+"/x/audit/keeper" && g.Signature.Results().Len() > 0 && strings.HasSuffix(g.Signature.Results().At(0).Type().String(), "audit/types.Providers") {
					wide = fnName(g)
				}
			}
		}
		okKey := setKey != "" && len(gets) > 0
		for _, gk := range gets {
			if gk != setKey {
				okKey = false
			}
		}
		c.Ob("R2", "audit keeper: an attestation is merged with the record stored under the same (owner, auditor) key", fn.Pos(), okKey && wide == "", "the earlier attestation is read through "+map[bool]string{true: "a different key than the one written", false: wide + " (all auditors of the owner)"}[wide == ""]+": one auditor's record inherits attributes another auditor signed")
	}
	// a revocation takes effect: the audited attributes handed to the matcher are what the audit store holds, so a
	// successful delete request must have rewritten or removed the record
	for _, name := range []string{"DeleteProviderAttributes", "CreateOrUpdateProviderAttributes"} {
		fn := l.Func("x/audit/keeper", "Keeper", name)
		c.Analysed(fnName(fn))
		c.requireOnPaths("R2", "audit keeper "+name+": every successful request rewrites or removes the stored attestation", fn, successReturns(fn), func(x ssa.CallInstruction) bool {
			m := calleeMethod(x)
			return (m == "Set" || m == "Delete") && strings.Contains(calleeFull(x), "KVStore")
		}, "the request is acknowledged but the stored attestation is left as it was: revoked attributes keep admitting bids")
	}
	c.Floor("R2", 4)

	// ---- R3 update guard
	up := l.msgServerMethod("x/provider/handler", "UpdateProvider")
	c.Analysed(fnName(up))
	var scan ssa.CallInstruction
	var cb *ssa.Function
	for _, call := range callsIn(up, false) {
		if callIs(call, "WithLeases", "") {
			scan = call
			if mc, ok := call.Common().Args[len(call.Common().Args)-1].(*ssa.MakeClosure); ok {
				cb = mc.Fn.(*ssa.Function)
			}
		}
	}
	c.Ob("R3", "UpdateProvider scans all leases", up.Pos(), scan != nil && cb != nil, "no scan over leases before the update")
	recognised := false
	if scan != nil && cb != nil {
		for _, call := range callsIn(cb, false) {
			if calleeMethod(call) == "MatchAttributes" {
				recognised = true
			}
		}
		if !recognised {
			// the attribute check is not inside the scan callback: decided only as far as "there still is one"
			total := 0
			for _, g := range fnAndClosuresDeep(up) {
				for _, call := range callsInOwn(g) {
					if calleeMethod(call) == "MatchAttributes" {
						total++
					}
				}
			}
			if total == 0 {
				c.Ob("R3", "scan callback checks order attributes", cb.Pos(), false, "UpdateProvider no longer checks the orders of active leases against the new attributes")
			} else {
				c.Info("R3", "UpdateProvider: attribute check not inside the lease-scan callback, coverage of every active lease not decided", up.Pos(), "the orders are matched outside the callback (collected first, checked later): the per-lease conditions of this rule are written for the callback form")
			}
		}
	}
	if scan != nil && cb != nil && recognised {
		for _, call := range callsIn(up, false) {
			if !callIs(call, "Update", "IKeeper") {
				continue
			}
			// dominated by err == nil on a load of the captured err that happens after the scan
			ok := false
			for _, a := range factsAt(call.Block()) {
				if a.Op == "eq" && isNilConst(a.Y) {
					if ld, isLd := a.X.(*ssa.UnOp); isLd {
						if al, isA := ld.X.(*ssa.Alloc); isA && allocPinnedName(al) == "err" && instrDominates(scan, ld) {
							// captured by the callback
							for _, b := range scan.Common().Args[len(scan.Common().Args)-1].(*ssa.MakeClosure).Bindings {
								if b == ssa.Value(al) {
									ok = true
								}
							}
						}
					}
				}
			}
			okDom := ok && instrDominates(scan, call)
			if !okDom && scan.Parent() != call.Parent() && scan.Parent().Parent() == nil && isNewFunc(scan.Parent()) {
				// the scan lives in a new helper that hands back the callback's error: the update (wherever it now
				// sits) must be on the nil edge of that helper's call
				h := scan.Parent()
				handsBack := len(h.Blocks) > 0
				capt := map[ssa.Value]bool{}
				if mc, isMC := scan.Common().Args[len(scan.Common().Args)-1].(*ssa.MakeClosure); isMC {
					for _, b := range mc.Bindings {
						capt[b] = true
					}
				}
				for _, b := range h.Blocks {
					if r, isR := b.Instrs[len(b.Instrs)-1].(*ssa.Return); isR && reachableFrom(scan, r) {
						res := r.Results[len(r.Results)-1]
						ld, isLd := res.(*ssa.UnOp)
						if !isLd || !capt[ld.X] || !instrDominates(scan, ld) {
							handsBack = false
						}
					}
				}
				hc, _ := liftTo(up, scan).(*ssa.Call)
				lu := liftTo(up, call)
				if handsBack && hc != nil && lu != nil && okEdgeAt(lu.Block(), hc) {
					okDom = true
				}
			}
			c.Ob("R3", "provider record updated only if the lease scan reported no error", call.Pos(), okDom, "update is not dominated by the scan's err == nil")
			c.Ob("R3", "provider record updated with the message's content", call.Pos(), strings.HasSuffix(Sym(userArgs(call)[0]), "*p:msg") || strings.Contains(Sym(userArgs(call)[0]), "p:msg"), Sym(userArgs(call)[0]))
		}
		c.Analysed(fnName(cb))
		// callback: returns true only after storing a non-nil error; MatchAttributes on every active lease of this provider
		okRet := true
		for _, b := range cb.Blocks {
			r, isR := b.Instrs[len(b.Instrs)-1].(*ssa.Return)
			if !isR {
				continue
			}
			for _, lf := range retLeaves(r.Results[0], b, map[ssa.Value]bool{}) {
				if isConstBool(lf.val, false) {
					continue
				}
				if !isConstBool(lf.val, true) {
					// "return err != nil" on the captured error: true only with an error recorded
					if bo, isBO := lf.val.(*ssa.BinOp); isBO && bo.Op == token.NEQ && isNilConst(bo.Y) && Sym(bo.X) == "fv:err" {
						continue
					}
					okRet = false
					continue
				}
				stored := false
				for d := lf.blk; d != nil; d = d.Idom() {
					for _, in := range d.Instrs {
						if st, isSt := in.(*ssa.Store); isSt && Sym(st.Addr) == "fv:err" && definitelyNonNilErr(st.Val, d, map[ssa.Value]bool{}) {
							stored = true
						}
					}
					if stored || d == cb.Blocks[0] {
						break
					}
					// only look within the straight-line region of the leaf
					if len(d.Preds) != 1 {
						break
					}
				}
				if !stored {
					okRet = false
				}
			}
		}
		c.Ob("R3", "lease scan callback stops only after recording an error", cb.Pos(), okRet, "the scan can stop early without an error: later active leases are not checked against the new attributes")
		nm := 0
		for _, call := range callsIn(cb, false) {
			if calleeMethod(call) != "MatchAttributes" {
				continue
			}
			nm++
			a := allArgs(call)
			c.Ob("R3", "each order is matched against the message's new attributes", call.Pos(), (Sym(a[1]) == "*fv:msg.Attributes" || Sym(a[1]) == "*p:msg.Attributes") && strings.Contains(Sym(a[0]), "GetOrder(") && strings.Contains(Sym(a[0]), "OrderID(types.Lease.ID(p:lease))"), short(Sym(a[0]))+" vs "+Sym(a[1]))
			// guards: exactly provider equality, active state, order found
			extra := 0
			extraWhy := ""
			need := map[string]bool{"prov": false, "active": false}
			active := l.constVal("x/market/types", "LeaseActive").ExactString()
			for _, f := range factsAt(call.Block()) {
				x, y := Sym(f.X), ""
				if f.Y != nil {
					y = Sym(f.Y)
				}
				switch {
				case f.Op == "eq" && ((isProvOwner(x) && y == "types.Lease.ID(p:lease).Provider") || (isProvOwner(y) && x == "types.Lease.ID(p:lease).Provider")):
					need["prov"] = true
				case f.Op == "eq" && x == "p:lease.State" && y == active:
					need["active"] = true
				case strings.Contains(x, "found") || strings.Contains(x, "GetOrder("):
				default:
					extra++
					extraWhy += " [" + f.Op + " " + short(x) + " | " + short(y) + "]"
				}
			}
			c.Ob("R3", "attribute check applies to every active lease of this provider (no narrower condition)", call.Pos(), need["prov"] && need["active"] && extra == 0, "the check is skipped for some active leases of the provider"+extraWhy)
			// mismatch records an error
			mism := false
			for _, rr := range *call.(*ssa.Call).Referrers() {
				if ifi, isIf := rr.(*ssa.If); isIf {
					no := ifi.Block().Succs[1]
					for _, in := range no.Instrs {
						if st, isSt := in.(*ssa.Store); isSt && Sym(st.Addr) == "fv:err" && definitelyNonNilErr(st.Val, no, map[ssa.Value]bool{}) {
							mism = true
						}
						// inside a transparent helper: the mismatch edge returns a non-nil error which the call site
						// stores into the captured error
						if ret, isRet := in.(*ssa.Return); isRet && len(ret.Results) == 1 && definitelyNonNilErr(ret.Results[0], no, map[ssa.Value]bool{}) {
							if site := transparentSite(call.Parent()); site != nil {
								for _, sr := range *site.(*ssa.Call).Referrers() {
									if st, isSt := sr.(*ssa.Store); isSt && Sym(st.Addr) == "fv:err" {
										mism = true
									}
								}
							}
						}
					}
				}
			}
			c.Ob("R3", "an order not covered by the new attributes records an error", call.Pos(), mism, "")
		}
		c.Ob("R3", "scan callback checks order attributes", cb.Pos(), nm == 1, "")
	}
	// the guard's own predicate: GroupSpec.MatchAttributes answers with "required attributes are a subset of the given
	// ones" on every path (no shortcut that answers true)
	{
		ma := l.Func("x/deployment/types", "GroupSpec", "MatchAttributes")
		c.Analysed(fnName(ma))
		okLeaves, n := true, 0
		bad := ""
		for _, b := range ma.Blocks {
			r, isR := b.Instrs[len(b.Instrs)-1].(*ssa.Return)
			if !isR {
				continue
			}
			for _, lf := range retLeaves(r.Results[0], b, map[ssa.Value]bool{}) {
				n++
				if isConstBool(lf.val, false) {
					continue
				}
				s := Sym(lf.val)
				if strings.HasPrefix(s, "types.AttributesSubsetOf(p:g.Requirements.Attributes, ") || strings.HasPrefix(s, "types.Attributes.SubsetOf(p:g.Requirements.Attributes, ") {
					continue
				}
				okLeaves = false
				bad = short(s)
			}
		}
		c.Ob("R3", "order attribute guard: MatchAttributes is positive only if the required attributes are a subset of the offered ones", ma.Pos(), okLeaves && n > 0, "MatchAttributes can answer "+bad+" without the subset test: a provider may drop attributes its active leases were matched on")
	}
	// the wrappers the market module calls: Order.MatchAttributes / Order.MatchRequirements answer what the group spec's
	// predicate answers for the order's spec and the given list (or false), on every path
	for _, wn := range []string{"MatchAttributes", "MatchRequirements"} {
		wf := l.Func("x/market/types", "Order", wn)
		c.Analysed(fnName(wf))
		okW, nW, badW := true, 0, ""
		for _, b := range wf.Blocks {
			r, isR := b.Instrs[len(b.Instrs)-1].(*ssa.Return)
			if !isR {
				continue
			}
			for _, lf := range retLeaves(r.Results[0], b, map[ssa.Value]bool{}) {
				nW++
				if isConstBool(lf.val, false) {
					continue
				}
				s := Sym(lf.val)
				if s == "types.GroupSpec."+wn+"(p:o.Spec, p:"+paramName(wf.Params[1])+")" {
					continue
				}
				okW = false
				badW = short(s)
			}
		}
		c.Ob("R3", "Order."+wn+" answers what the group spec's "+wn+" answers for the order's spec", wf.Pos(), okW && nW > 0, "Order."+wn+" can answer "+badW+" without consulting the order's requirements")
	}
	if recognised {
		c.Floor("R3", 6)
	}
}

// matcherShape: structural conditions on GroupSpec.MatchRequirements.
func (c *Check) matcherShape(mr *ssa.Function) {
	// locate the loops over AllOf and AnyOf: loop headers whose condition compares with len(...AllOf/AnyOf)
	hdr := map[string]*ssa.BasicBlock{}
	for _, b := range mr.Blocks {
		if ifi, ok := b.Instrs[len(b.Instrs)-1].(*ssa.If); ok {
			s := Sym(ifi.Cond)
			for _, k := range []string{"AllOf", "AnyOf"} {
				if strings.Contains(s, "< builtin.len(p:g.Requirements.SignedBy."+k+")") {
					hdr[k] = b
				}
			}
		}
	}
	if hdr["AllOf"] == nil || hdr["AnyOf"] == nil {
		c.Info("R2", "matcher: loop structure not recognised, all-of / any-of shape not decided", mr.Pos(), "MatchRequirements does not contain the loops over SignedBy.AllOf and SignedBy.AnyOf itself (moved into helpers or rewritten)")
		return
	}
	c.Ob("R2", "matcher iterates the all-of and the any-of auditor lists", mr.Pos(), true, "")
	lenFact := func(f []Atom, k string, op string) bool {
		for _, a := range f {
			if a.Op == op && Sym(a.X) == "builtin.len(p:g.Requirements.SignedBy."+k+")" && Sym(a.Y) == "0" {
				return true
			}
		}
		return false
	}
	okAny, okAll, okUnsigned := true, true, true
	detail := ""
	for _, b := range mr.Blocks {
		r, isR := b.Instrs[len(b.Instrs)-1].(*ssa.Return)
		if !isR {
			continue
		}
		for _, lf := range retLeaves(r.Results[0], b, map[ssa.Value]bool{}) {
			f := factsAt(lf.blk)
			signed := !(lenFact(f, "AnyOf", "eq") && lenFact(f, "AllOf", "eq"))
			if isConstBool(lf.val, false) {
				continue
			}
			if !signed {
				// unsigned path: answer is AttributesSubsetOf(required, own attributes)
				if cv, _ := callOf(lf.val); cv == nil || !strings.HasSuffix(calleeFull(cv), "AttributesSubsetOf") || !strings.Contains(Sym(cv.Call.Args[1]), "p:provider[0") {
					okUnsigned = false
				}
				continue
			}
			if !isConstBool(lf.val, true) {
				if cv, _ := callOf(lf.val); cv != nil && strings.HasSuffix(calleeFull(cv), "AttributesSubsetOf") && strings.Contains(Sym(cv.Call.Args[1]), "p:provider[0") {
					// the unsigned answer reached through a merged return: must be on the unsigned path
					if signed && !(lenFact(f, "AnyOf", "eq") && lenFact(f, "AllOf", "eq")) {
						// leaf block facts may not carry both equalities when conditions are short-circuited; accept if
						// the leaf is not dominated by the signed branch
						if lenFact(f, "AnyOf", "neq") || lenFact(f, "AllOf", "neq") {
							okUnsigned = false
						}
					}
					continue
				}
				okAny = false
				detail = "a positive answer is computed as " + short(Sym(lf.val)) + " rather than returned from an any-of match / completed all-of loop"
				continue
			}
			// positive constant under signed requirements
			// (a) all-of: either the list is empty or the loop ran to completion (leaf is after the loop header's exit)
			if !lenFact(f, "AllOf", "eq") {
				h := hdr["AllOf"]
				exit := h.Succs[1]
				if !(exit == lf.blk || exit.Dominates(lf.blk)) {
					okAll = false
					detail = "positive answer reachable without completing the all-of loop"
				}
			}
			// (b) any-of: either the list is empty or the leaf is inside the any-of loop under a subset match
			if !lenFact(f, "AnyOf", "eq") {
				h := hdr["AnyOf"]
				body := h.Succs[0]
				inLoop := body == lf.blk || body.Dominates(lf.blk)
				match := false
				for _, a := range f {
					if a.Op == "true" {
						if cv, _ := callOf(a.X); cv != nil && strings.HasSuffix(calleeFull(cv), "AttributesSubsetOf") {
							match = true
						}
					}
				}
				if !inLoop || !match {
					okAny = false
					detail = "positive answer with a non-empty any-of list that does not come from an any-of auditor's matching attributes"
				}
			}
		}
	}
	c.Ob("R2", "signed requirements: positive only after the all-of loop completed", mr.Pos(), okAll, detail)
	c.Ob("R2", "signed requirements: with an any-of list, positive only from an any-of match", mr.Pos(), okAny, detail)
	c.Ob("R2", "unsigned requirements: answer is required-subset-of the provider's own attributes", mr.Pos(), okUnsigned, "")
	// all-of loop rejects on a missing or non-covering auditor
	rej := false
	h := hdr["AllOf"]
	for _, b := range mr.Blocks {
		if !(h.Succs[0] == b || h.Succs[0].Dominates(b)) {
			continue
		}
		if r, isR := b.Instrs[len(b.Instrs)-1].(*ssa.Return); isR && isConstBool(r.Results[0], false) {
			rej = true
		}
	}
	c.Ob("R2", "all-of loop rejects when an auditor is missing or does not cover the requirements", mr.Pos(), rej, "")
}

// subsetShape: structural conditions on types.AttributesSubsetOf ("every required attribute is matched by some
// offered attribute") and Attribute.SubsetOf (same key and same value). Decides the quantifier structure, not
// the truth table: one verdict per required attribute, independent of the verdicts of earlier ones.
func (c *Check) subsetShape() {
	l := c.L
	fn := l.Func("types", "", "AttributesSubsetOf")
	c.Analysed(fnName(fn))
	var outer, inner *ssa.BasicBlock
	for _, b := range fn.Blocks {
		if ifi, ok := b.Instrs[len(b.Instrs)-1].(*ssa.If); ok {
			s := Sym(ifi.Cond)
			if strings.Contains(s, "< builtin.len(p:a)") {
				outer = b
			}
			if strings.Contains(s, "< builtin.len(p:b)") {
				inner = b
			}
		}
	}
	if outer == nil || inner == nil || outer == inner || !outer.Dominates(inner) {
		// the function is written in a form this rule does not model (explicit-break loops, helpers, ...): its
		// quantifier shape is then NOT decided — reported as information, never as a violation (DESIGN.md section 3)
		c.Info("R2", "attribute subset: loop structure not recognised, quantifier shape not decided", fn.Pos(), "AttributesSubsetOf is not written as a loop over the required list containing a loop over the offered list (range / index form)")
		c.elementRelation()
		return
	}
	c.Ob("R2", "attribute subset: iterates the required list and, inside it, the offered list", fn.Pos(), true, "")
	// no state is carried from one required attribute to the next: the only loop-carried values are the indices
	carried := ""
	for _, h := range []*ssa.BasicBlock{outer} {
		for _, in := range h.Instrs {
			if ph, ok := in.(*ssa.Phi); ok {
				if bt, isB := ph.Type().Underlying().(*types.Basic); !isB || bt.Info()&types.IsInteger == 0 {
					carried += ph.Comment + " "
				}
			}
		}
	}
	c.Ob("R2", "attribute subset: verdict for one required attribute does not depend on earlier ones", outer.Instrs[0].Pos(), carried == "", "loop-carried state "+carried+"survives from one required attribute to the next: a match found for an earlier attribute can stand in for a later one")
	okTrue, okFalse, okCont := true, true, true
	nret := 0
	subsetFact := func(fs []Atom) bool {
		for _, a := range fs {
			if a.Op == "true" {
				if cv, _ := callOf(a.X); cv != nil && calleeFull(cv) == "("+akash+"/types.Attribute).SubsetOf" {
					as := cv.Call.Args
					if strings.HasPrefix(Sym(as[0]), "*p:a[") && strings.HasPrefix(Sym(as[1]), "*p:b[") {
						return true
					}
				}
			}
		}
		return false
	}
	edgeFacts := func(p, to *ssa.BasicBlock) []Atom {
		fs := factsAt(p)
		if ifi, isIf := p.Instrs[len(p.Instrs)-1].(*ssa.If); isIf && p.Succs[0] == to && p.Succs[1] != to {
			fs = append(fs, Atom{Op: "true", X: ifi.Cond, If: ifi})
		}
		return fs
	}
	// per-iteration "found" flag: false when the scan of the offered list starts (set inside the outer loop),
	// true only under a match
	var flagOK func(v ssa.Value, seen map[ssa.Value]bool) bool
	flagOK = func(v ssa.Value, seen map[ssa.Value]bool) bool {
		ph, ok := v.(*ssa.Phi)
		if !ok || seen[v] {
			return ok
		}
		seen[v] = true
		if ph.Block() == outer {
			return false
		}
		for i, e := range ph.Edges {
			pred := ph.Block().Preds[i]
			switch {
			case isConstBool(e, false):
				if !outer.Dominates(pred) || pred == outer && false {
					return false
				}
			case isConstBool(e, true):
				if !subsetFact(edgeFacts(pred, ph.Block())) {
					return false
				}
			default:
				if !flagOK(e, seen) {
					return false
				}
			}
		}
		return true
	}
	for _, b := range fn.Blocks {
		r, isR := b.Instrs[len(b.Instrs)-1].(*ssa.Return)
		if !isR {
			continue
		}
		for _, lf := range retLeaves(r.Results[0], b, map[ssa.Value]bool{}) {
			nret++
			switch {
			case isConstBool(lf.val, true):
				ex := outer.Succs[1]
				if !(lf.blk == ex || ex.Dominates(lf.blk)) {
					okTrue = false
				}
			case isConstBool(lf.val, false):
				ex := inner.Succs[1]
				if !(lf.blk == ex || ex.Dominates(lf.blk)) {
					okFalse = false
				}
				// and nothing but the exhausted inner loop decides it
				for _, a := range factsAt(lf.blk) {
					if a.If != nil && a.If.Block() != outer && a.If.Block() != inner {
						if a.Op == "false" && flagOK(a.X, map[ssa.Value]bool{}) {
							continue
						}
						okFalse = false
					}
				}
			default:
				okTrue, okFalse = false, false
			}
		}
	}
	c.Ob("R2", "attribute subset: positive only after every required attribute was matched", fn.Pos(), okTrue && nret > 0, "true is returned before the loop over the required attributes completed")
	c.Ob("R2", "attribute subset: negative exactly when the offered list is exhausted without a match", fn.Pos(), okFalse && nret > 0, "false is not decided by the exhausted scan of the offered attributes alone")
	// moving on to the next required attribute happens only under req.SubsetOf(attr)
	nback := 0
	for _, p := range outer.Preds {
		if !outer.Dominates(p) {
			continue
		}
		nback++
		fs := edgeFacts(p, outer)
		m := subsetFact(fs)
		for _, a := range fs {
			if a.Op == "true" && flagOK(a.X, map[ssa.Value]bool{}) {
				m = true
			}
		}
		if !m {
			okCont = false
		}
	}
	c.Ob("R2", "attribute subset: next required attribute only after required[i].SubsetOf(offered[j]) held", fn.Pos(), okCont && nback > 0, "the scan advances to the next required attribute without a match of the current one against an offered one")

	c.elementRelation()
}

// onChainMin: s is field f of the minimum bid deposit read from the market module's on-chain parameters (not a
// compile-time default, which governance cannot change).
func onChainMin(s, f string) bool {
	return strings.HasSuffix(s, "BidMinDeposit."+f) && strings.Contains(s, "GetParams(")
}

// elementRelation: Attribute.SubsetOf answers true only for equal key and equal value.
func (c *Check) elementRelation() {
	l := c.L
	// element relation: same key and same value
	ef := l.Func("types", "Attribute", "SubsetOf")
	c.Analysed(fnName(ef))
	okEl := true
	nt := 0
	hasEq := func(f []Atom, field string) bool {
		for _, a := range f {
			if a.Op == "eq" && ((Sym(a.X) == "p:m."+field && Sym(a.Y) == "p:rhs."+field) || (Sym(a.Y) == "p:m."+field && Sym(a.X) == "p:rhs."+field)) {
				return true
			}
		}
		return false
	}
	for _, b := range ef.Blocks {
		r, isR := b.Instrs[len(b.Instrs)-1].(*ssa.Return)
		if !isR {
			continue
		}
		for _, lf := range retLeaves(r.Results[0], b, map[ssa.Value]bool{}) {
			if isConstBool(lf.val, false) {
				continue
			}
			nt++
			f := factsAt(lf.blk)
			if isConstBool(lf.val, true) {
				if !hasEq(f, "Key") || !hasEq(f, "Value") {
					okEl = false
				}
				continue
			}
			// value comparison returned directly under the key equality
			if bo, ok := lf.val.(*ssa.BinOp); ok && bo.Op == token.EQL && hasEq(f, "Key") && strings.HasSuffix(Sym(bo.X), ".Value") && strings.HasSuffix(Sym(bo.Y), ".Value") {
				continue
			}
			okEl = false
		}
	}
	c.Ob("R2", "attribute match: positive only for equal key and equal value", ef.Pos(), okEl && nt > 0, "Attribute.SubsetOf answers true without key and value both being equal")
}

// sliceParts: the content of a slice built with make and filled by index, as a list of element expressions followed by
// "rest:<slice>" for a loop that copies another slice behind them. ok only if every store into the slice is understood
// and the length is len(rest)+number of leading elements.
func sliceParts(v ssa.Value) ([]string, bool) {
	mk, ok := v.(*ssa.MakeSlice)
	if !ok {
		return nil, false
	}
	elems := map[int]string{}
	rest := ""
	for _, r := range *mk.Referrers() {
		ia, ok := r.(*ssa.IndexAddr)
		if !ok {
			continue
		}
		for _, rr := range *ia.Referrers() {
			st, ok := rr.(*ssa.Store)
			if !ok || st.Addr != ssa.Value(ia) {
				return nil, false // element address escapes
			}
			if k, isC := ia.Index.(*ssa.Const); isC {
				if _, dup := elems[int(k.Int64())]; dup {
					return nil, false
				}
				elems[int(k.Int64())] = Sym(st.Val)
				continue
			}
			// copy loop: dst[i+k] = src[i]
			ld, ok := st.Val.(*ssa.UnOp)
			if !ok {
				return nil, false
			}
			src, ok := ld.X.(*ssa.IndexAddr)
			if !ok || loopHeaderOf(st.Block()) == nil {
				return nil, false
			}
			if rest != "" && rest != Sym(src.X) {
				return nil, false
			}
			rest = Sym(src.X)
		}
	}
	var parts []string
	for k := 0; k < len(elems); k++ {
		e, ok := elems[k]
		if !ok {
			return nil, false
		}
		parts = append(parts, e)
	}
	want := strconv.Itoa(len(elems))
	if rest != "" {
		want = "(builtin.len(" + rest + ") + " + want + ")"
		parts = append(parts, "rest:"+rest)
	}
	if Sym(mk.Len) != want {
		return nil, false
	}
	return parts, true
}

// isProvOwner: the owner of the provider record the handler fetched for the message's owner (seen as the captured
// variable, or - through a new helper's parameter - as the keeper call that fetched it).
func isProvOwner(s string) bool {
	return s == "fv:prov.Owner" || s == "p:prov.Owner" || (strings.HasSuffix(s, ")#0.Owner") && strings.Contains(s, "IKeeper.Get(p:ms.provider, ") && strings.Contains(s, "p:msg.Owner"))
}

// orderMaximumShape: the ceiling a bid is held against is GroupSpec.Price(), the sum over the group's resource entries
// of unit price x count. Shape conditions: a multiplication by an entry's Count has that entry's unit price as its
// other operand (never the running total), and the running total grows by addition only. A product whose receiver
// derives from the loop-carried total is a violation; anything else unrecognised is not decided.
func (c *Check) orderMaximumShape(rule string) {
	l := c.L
	pf := l.Func("x/deployment/types", "GroupSpec", "Price")
	fp := l.Func("x/deployment/types", "Resource", "FullPrice")
	c.Analysed(fnName(pf))
	fns := fnAndClosuresDeep(pf)
	if fp != nil {
		c.Analysed(fnName(fp))
		fns = append(fns, fp)
	}
	carried := func(v ssa.Value) bool {
		seen := map[ssa.Value]bool{}
		var walk func(v ssa.Value, d int) bool
		walk = func(v ssa.Value, d int) bool {
			if v == nil || seen[v] || d > 12 {
				return false
			}
			seen[v] = true
			switch x := v.(type) {
			case *ssa.Phi:
				if loopHeaderOf(x.Block()) == x.Block() || len(x.Block().Preds) > 1 && loopHeaderOf(x.Block()) != nil {
					return true
				}
				for _, e := range x.Edges {
					if walk(e, d+1) {
						return true
					}
				}
			case *ssa.Call:
				if len(x.Call.Args) > 0 && !x.Call.IsInvoke() {
					return walk(x.Call.Args[0], d+1)
				}
			case *ssa.Extract:
				return walk(x.Tuple, d+1)
			case *ssa.UnOp:
				return walk(x.X, d+1)
			case *ssa.Field:
				return walk(x.X, d+1)
			case *ssa.FieldAddr:
				return walk(x.X, d+1)
			}
			return false
		}
		return walk(v, 0)
	}
	// a loop that walks the entries indexes the very slice whose length bounds it (ranging over a sub-slice while
	// indexing the whole one counts some entries twice and drops others)
	for _, g := range fnAndClosuresDeep(pf) {
		for _, b := range g.Blocks {
			ifi, isIf := b.Instrs[len(b.Instrs)-1].(*ssa.If)
			if !isIf {
				continue
			}
			bo, isBO := ifi.Cond.(*ssa.BinOp)
			if !isBO || bo.Op != token.LSS {
				continue
			}
			ln, _ := callOf(bo.Y)
			if ln == nil || calleeFull(ln) != "builtin.len" {
				continue
			}
			bound := Sym(ln.Call.Args[0])
			if sl, isSl := ln.Call.Args[0].(*ssa.Slice); isSl && sl.High == nil && sl.Max == nil {
				if k, isK := constInt(sl.Low); sl.Low == nil || (isK && k == 0) {
					bound = Sym(sl.X) // xs[:] is xs
				} else {
					bound = Sym(sl.X) + "[" + Sym(sl.Low) + ":]"
				}
			}
			eachInstr(g, func(i ssa.Instruction) {
				ia, isIA := i.(*ssa.IndexAddr)
				if !isIA || ia.Index != bo.X || !loopBlocks(b)[ia.Block()] {
					return
				}
				c.Ob(rule, "order maximum: the loop over resource entries indexes the slice it is bounded by", ia.Pos(), Sym(ia.X) == bound, "the loop runs over "+short(bound)+" but reads "+short(Sym(ia.X))+" at the same index: an entry is counted twice and another left out")
			})
		}
	}
	nmul, good := 0, 0
	for _, g := range fns {
		for _, call := range callsInOwn(g) {
			m := calleeMethod(call)
			if (m != "MulRaw" && m != "Mul" && m != "MulInt64") || !strings.Contains(calleeFull(call), "cosmos-sdk/types.Int") {
				continue
			}
			a := call.Common().Args
			if len(a) != 2 || !strings.Contains(Sym(a[1]), ".Count") {
				continue
			}
			nmul++
			if carried(a[0]) {
				c.Ob(rule, "order maximum: the count of a resource entry multiplies that entry's unit price", call.Pos(), false, "the product's other operand is the running total ("+short(Sym(a[0]))+"): entries after the first inflate the maximum a bid is held against")
				continue
			}
			if strings.HasSuffix(Sym(a[0]), ".Price.Amount") {
				good++
			}
		}
	}
	switch {
	case nmul == 0 || good == 0:
		c.Info(rule, "order maximum: form of unit price x count not recognised, not decided", pf.Pos(), "")
	default:
		c.Ob(rule, "order maximum: the count of a resource entry multiplies that entry's unit price", pf.Pos(), true, "")
	}
}

// providerUpdatePersists: a provider update that reports success has written the given record: every nil-error return
// of the provider keeper's Update passes the store write of that record. A path that answers "ok" without writing (a
// no-op shortcut) leaves the old attributes in force while the provider and the tenants believe the new ones are.
func (c *Check) providerUpdatePersists(rule string) {
	l := c.L
	fn := l.Func("x/provider/keeper", "Keeper", "Update")
	c.Analysed(fnName(fn))
	ok, n := true, 0
	for _, r := range successReturns(fn) {
		n++
		if !mustPassFrom(fn, nil, r, func(in ssa.Instruction) bool {
			call, isC := in.(ssa.CallInstruction)
			if !isC || !isStoreSet(call) {
				return false
			}
			o := marshalledObj(call)
			return o != nil && strings.Contains(Sym(o), "provider")
		}) {
			ok = false
		}
	}
	c.Ob(rule, "a provider update that reports success has stored the given record", fn.Pos(), ok && n > 0, "Update can return nil without writing the record it was given: the attributes bids are admitted against are not the ones the provider last declared")
}
