package main

import (
	"go/types"
	"sort"
	"strings"

	"golang.org/x/tools/go/ssa"
)

func init() { registry["C19"] = checkC19 }

// errReturnBlock: block b returns with a definitely non-nil error.
func errReturnBlock(b *ssa.BasicBlock) bool { return errReturnVia(nil, b) }

// errReturnVia: entering b from block `from`, control reaches a return of a definitely non-nil error: along
// straight-line successors (calls building the error message), and through a condition that was computed into a
// boolean first (`bad := a || b; if bad {...}`): a branch on a phi whose value on the edge taken is a constant.
func errReturnVia(from, b *ssa.BasicBlock) bool {
	seen := map[*ssa.BasicBlock]bool{}
	for b != nil && !seen[b] {
		seen[b] = true
		last := b.Instrs[len(b.Instrs)-1]
		switch x := last.(type) {
		case *ssa.Return:
			ei := errResultIndex(b.Parent())
			return ei >= 0 && definitelyNonNilErr(x.Results[ei], b, map[ssa.Value]bool{})
		case *ssa.Jump:
			from, b = b, b.Succs[0]
		case *ssa.If:
			ph, isPhi := x.Cond.(*ssa.Phi)
			if !isPhi || ph.Block() != b || from == nil {
				return false
			}
			taken := -1
			for i, p := range b.Preds {
				if p == from && i < len(ph.Edges) {
					if isConstBool(ph.Edges[i], true) {
						taken = 0
					} else if isConstBool(ph.Edges[i], false) {
						taken = 1
					}
				}
			}
			if taken < 0 {
				return false
			}
			from, b = b, b.Succs[taken]
		default:
			return false
		}
	}
	return false
}

func checkC19(c *Check) {
	c.Explanation = "Decided for every field of the network limits table and every path of the admission code: (R1) each ValidationConfig field is read by at least one comparison, in a function reachable from MsgCreateDeployment.ValidateBasic / the CreateDeployment handler, whose out-of-range edge returns a non-nil error, in the right direction (Max* as an upper bound, Min* as a lower bound); group totals are sdk.Int sums of per-unit values multiplied by the count; (R2) ValidateDeploymentGroups rejects empty lists and duplicate names and validates every element; ValidateBasic checks id, non-empty groups, version length and every group; the handler stores only after group validation and the deposit denomination/amount guards; prices must be in the network denomination; (R3) the deployment constructor is called only from that handler and genesis import. GroupSpec.GetResources hands every stored entry to validation."
	c.NotDecided = "boundary arithmetic (off-by-one inside sdk.Int comparisons), overflow freedom of ResourceValue.Value()"
	l := c.L
	tp := l.Pkg("x/deployment/types")
	cfgT, ok := tp.Types.Scope().Lookup("ValidationConfig").Type().Underlying().(*types.Struct)
	if !ok {
		c.Fail("unresolved anchor: ValidationConfig")
	}
	// entry points and reachable functions (static calls + interface methods resolved by VTA)
	vb := l.Func("x/deployment/types", "MsgCreateDeployment", "ValidateBasic")
	vdg := l.Func("x/deployment/types", "", "ValidateDeploymentGroups")
	h := l.msgServerMethod("x/deployment/handler", "CreateDeployment")
	reach := l.reachable([]*ssa.Function{vb, vdg, h}, func(f *ssa.Function) bool {
		return strings.HasPrefix(fnPkgPath(f), akash) && !nonProdPkg(fnPkgPath(f))
	})

	type cmpSite struct {
		fn  *ssa.Function
		pos ssa.Instruction
		dir string // "upper" / "lower"
		ok  bool
		why string
	}
	sites := map[string][]cmpSite{}
	narrowed := map[string]string{}
	for fn := range reach {
		if fnPkgPath(fn) != akash+"/x/deployment/types" {
			continue
		}
		c.Analysed(fnName(fn))
		eachInstr(fn, func(i ssa.Instruction) {
			ld, isLd := i.(*ssa.UnOp)
			if !isLd {
				return
			}
			fa, isFA := ld.X.(*ssa.FieldAddr)
			if !isFA {
				return
			}
			g, isG := fa.X.(*ssa.Global)
			if !isG || g.Name() != "validationConfig" {
				return
			}
			field := fieldName(fa.X.Type(), fa.Field)
			// forward closure through conversions and Int constructors
			derived := map[ssa.Value]bool{ld: true}
			work := []ssa.Value{ld}
			for len(work) > 0 {
				v := work[0]
				work = work[1:]
				if v.Referrers() == nil {
					continue
				}
				for _, r := range *v.Referrers() {
					switch x := r.(type) {
					case *ssa.Convert:
						if !derived[x] {
							derived[x] = true
							work = append(work, x)
						}
					case *ssa.Call:
						n := calleeFull(x)
						if strings.HasSuffix(n, "types.NewIntFromUint64") || strings.HasSuffix(n, "types.NewInt") {
							if !derived[x] {
								derived[x] = true
								work = append(work, x)
							}
						}
						// the limit handed to a new helper: the helper's parameter stands for it
						if h := newHelperCallee(x); h != nil {
							for ai, a := range x.Call.Args {
								if a == v && ai < len(h.Params) && !derived[h.Params[ai]] {
									derived[h.Params[ai]] = true
									work = append(work, h.Params[ai])
								}
							}
						}
					}
				}
			}
			for v := range derived {
				if v.Referrers() == nil {
					continue
				}
				for _, r := range *v.Referrers() {
					var cond ssa.Value
					dir := ""
					switch x := r.(type) {
					case *ssa.BinOp:
						op := x.Op.String()
						limitRight := x.Y == v
						switch {
						case (op == ">" || op == ">=") && limitRight, (op == "<" || op == "<=") && !limitRight:
							dir = "upper" // value > limit  => reject
						case (op == "<" || op == "<=") && limitRight, (op == ">" || op == ">=") && !limitRight:
							dir = "lower" // value < limit => reject
						default:
							continue
						}
						cond = x
					case *ssa.Call:
						m := calleeMethod(x)
						if len(x.Call.Args) != 2 || (x.Call.Args[1] != v && x.Call.Args[0] != v) {
							continue
						}
						limitRight := x.Call.Args[1] == v
						switch {
						case (m == "GT" || m == "GTE") && limitRight, (m == "LT" || m == "LTE") && !limitRight:
							dir = "upper" // value > limit, or limit < value => reject
						case (m == "LT" || m == "LTE") && limitRight, (m == "GT" || m == "GTE") && !limitRight:
							dir = "lower"
						default:
							continue
						}
						cond = x
					default:
						continue
					}
					// cond must control an If whose true edge is an error return
					cs := cmpSite{fn: fn, pos: r, dir: dir}
					// the value held against the limit must be the full quantity: no truncating narrowing
					// (big.Int.Uint64/Int64 wrap silently; integer conversions to a smaller width drop bits)
					if bo, isBO := r.(*ssa.BinOp); isBO {
						other := bo.X
						if other == v {
							other = bo.Y
						}
						if t := truncatedFrom(other, map[ssa.Value]bool{}, 0); t != "" {
							narrowed[field] = "limit " + field + " is compared at " + l.Pos(r.Pos()) + " with a value narrowed by " + t + ": amounts beyond the narrow range wrap around and pass the bound"
						}
					}
					for _, rr := range *cond.Referrers() {
						if ifi, isIf := rr.(*ssa.If); isIf && ifi.Cond == cond {
							if errReturnVia(ifi.Block(), ifi.Block().Succs[0]) {
								cs.ok = true
							} else {
								cs.why = "the out-of-range edge does not return an error"
							}
						}
					}
					if !cs.ok && cs.why == "" {
						cs.why = "comparison result is not used as a rejecting condition"
					}
					sites[field] = append(sites[field], cs)
				}
			}
		})
	}
	var fields []string
	for i := 0; i < cfgT.NumFields(); i++ {
		fields = append(fields, cfgT.Field(i).Name())
	}
	sort.Strings(fields)
	for _, f := range fields {
		want := "upper"
		if strings.HasPrefix(f, "Min") {
			want = "lower"
		}
		good := 0
		detail := "limit " + f + " is never compared on any path from the admission entry points: the documented hard limit is not enforced"
		pos := tp.Types.Scope().Lookup("ValidationConfig").Pos()
		for _, s := range sites[f] {
			if s.dir == want && s.ok {
				good++
			} else if s.dir != want {
				detail = "limit " + f + " is compared in the wrong direction at " + l.Pos(s.pos.Pos())
				pos = s.pos.Pos()
			} else {
				detail = "limit " + f + ": " + s.why + " at " + l.Pos(s.pos.Pos())
				pos = s.pos.Pos()
			}
		}
		wrong := 0
		for _, s := range sites[f] {
			if s.dir != want {
				wrong++
			}
		}
		c.Ob("R1", "limit "+f+" enforced as "+want+" bound with an error exit", pos, good > 0 && wrong == 0, detail)
		c.Ob("R1", "limit "+f+" is compared with the untruncated quantity", pos, narrowed[f] == "", narrowed[f])
	}
	c.Floor("R1", 15)
	c.everyEntryValidated("R1")
	// totals: per-unit values are multiplied by the count and summed as sdk.Int
	{
		vrl := l.Func("x/deployment/types", "", "ValidateResourceList")
		okMul, okAdd := false, false
		var mulCall, addCall ssa.Instruction
		for _, call := range callsIn(vrl, false) {
			g := call.Common().StaticCallee()
			if g == nil {
				continue
			}
			if g.Name() == "mul" && strings.HasSuffix(Sym(call.Common().Args[1]), ".Count") {
				okMul = true
				mulCall = call
			}
			if g.Name() == "add" {
				okAdd = true
				addCall = call
			}
		}
		// the multiplication and the accumulation must take effect: a value-returning helper's result must be used,
		// a void helper must write through its pointer receiver
		for _, in := range []ssa.Instruction{mulCall, addCall} {
			if in == nil {
				continue
			}
			call := in.(*ssa.Call)
			g := call.Call.StaticCallee()
			eff := false
			if g.Signature.Results().Len() > 0 {
				eff = call.Referrers() != nil && len(*call.Referrers()) > 0
			} else if _, isPtr := g.Params[0].Type().Underlying().(*types.Pointer); isPtr {
				n := 0
				eachInstr(g, func(i ssa.Instruction) {
					if st, ok := i.(*ssa.Store); ok && strings.HasPrefix(Sym(st.Addr), "&*p:"+paramName(g.Params[0])+".") {
						n++
					}
				})
				eff = n == 3
			}
			c.Ob("R1", "group total helper "+g.Name()+" takes effect (result used / receiver updated)", call.Pos(), eff, "the result of "+g.Name()+" is discarded: group totals ignore it")
		}
		ord := okMul && okAdd && instrDominates(mulCall, addCall) && loopHeaderOf(mulCall.Block()) != nil && loopHeaderOf(mulCall.Block()) == loopHeaderOf(addCall.Block())
		c.Ob("R1", "group totals = sum over units of (unit value x count)", vrl.Pos(), ord, "group totals are not accumulated as value x count per unit")
		mul := l.Func("x/deployment/types", "resourceLimits", "mul")
		n := 0
		for _, call := range callsIn(mul, false) {
			if calleeMethod(call) == "MulRaw" || calleeMethod(call) == "Mul" {
				n++
			}
		}
		c.Ob("R1", "count multiplication uses arbitrary-precision integers for cpu, memory, storage", mul.Pos(), n == 3, "")
		// each validate{CPU,Memory,Storage} returns the validated value itself
		for _, nm := range []string{"validateCPU", "validateMemory", "validateStorage"} {
			f := l.Func("x/deployment/types", "", nm)
			ok := true
			for _, r := range successReturns(f) {
				for _, s := range symsThroughHelper(r.Results[0], 0) {
					if !(strings.HasPrefix(s, "*p:u.") && strings.HasSuffix(s, ".Val")) {
						ok = false
					}
				}
			}
			c.Ob("R1", nm+" contributes the unit's own value to the group total", f.Pos(), ok, "")
		}
	}

	// ---- R2 structure
	{
		c.Analysed(fnName(vdg))
		nonEmpty := true
		for _, r := range successReturns(vdg) {
			okr := false
			for _, a := range factsAt(r.Block()) {
				if Sym(a.X) == "builtin.len(p:gspecs)" && ((a.Op == "neq" && Sym(a.Y) == "0") || (a.Op == ">" && Sym(a.Y) == "0") || (a.Op == ">=" && Sym(a.Y) == "1")) {
					okr = true
				}
				if Sym(a.Y) == "builtin.len(p:gspecs)" && ((a.Op == "neq" && Sym(a.X) == "0") || (a.Op == "<" && Sym(a.X) == "0") || (a.Op == "<=" && Sym(a.X) == "1")) {
					okr = true
				}
			}
			if !okr {
				nonEmpty = false
			}
		}
		c.Ob("R2", "ValidateDeploymentGroups rejects an empty group list", vdg.Pos(), nonEmpty, "")
		c.uniqueNamesRule("R2", "x/deployment/types", "", "ValidateDeploymentGroups")
		var vcall *ssa.Call
		for _, call := range callsIn(vdg, false) {
			if calleeMethod(call) == "ValidateBasic" {
				vcall, _ = call.(*ssa.Call)
			}
		}
		okEach := vcall != nil && loopHeaderOf(vcall.Block()) != nil
		if okEach {
			// within the loop the error is returned: no path from the call back to the loop header avoiding the err check
			okEach = false
			for _, rr := range *vcall.Referrers() {
				if b, isB := rr.(*ssa.BinOp); isB && b.Op.String() == "!=" {
					for _, r2 := range *b.Referrers() {
						if ifi, isIf := r2.(*ssa.If); isIf && errReturnBlock(ifi.Block().Succs[0]) {
							okEach = true
						}
					}
				}
			}
		}
		if !okEach {
			// path form, indifferent to how the guard is written: the loop goes on to the next group (and the function
			// reaches a nil return) only where the element's ValidateBasic is known to have returned nil, and the edge on
			// which it did not leads to a non-nil error return
			for _, call := range callsIn(vdg, false) {
				cv, isC := call.(*ssa.Call)
				if !isC || calleeMethod(call) != "ValidateBasic" || loopHeaderOf(call.Block()) == nil {
					continue
				}
				h := loopHeaderOf(call.Block())
				body := loopBlocks(h)
				okNil := func(b *ssa.BasicBlock) bool {
					for _, a := range factsAt(b) {
						if a.Op == "eq" && isNilConst(a.Y) && a.X == ssa.Value(cv) {
							return true
						}
					}
					return false
				}
				all, nl := true, 0
				for _, p := range h.Preds {
					if body[p] && p != h {
						nl++
						if !okNil(p) {
							all = false
						}
					}
				}
				for _, r := range successReturns(vdg) {
					if body[r.Block()] && !okNil(r.Block()) {
						all = false
					}
				}
				rej := false
				for _, rr := range *cv.Referrers() {
					if bo, isB := rr.(*ssa.BinOp); isB && bo.Referrers() != nil {
						for _, r2 := range *bo.Referrers() {
							if ifi, isIf := r2.(*ssa.If); isIf {
								at := condAtom(ifi.Cond, true)
								idx := 0
								if at.Op == "eq" {
									idx = 1 // the != nil edge is the false edge
								}
								if errReturnVia(ifi.Block(), ifi.Block().Succs[idx]) {
									rej = true
								}
							}
						}
					}
				}
				if all && nl > 0 && rej {
					okEach = true
				}
			}
		}
		c.Ob("R2", "ValidateDeploymentGroups validates every group and propagates its error", vdg.Pos(), okEach, "a group can skip per-group validation")
		// duplicate names: a map lookup on the group's name with an error exit on 'exists'
		dup := false
		eachInstr(vdg, func(i ssa.Instruction) {
			if lk, isLk := i.(*ssa.Lookup); isLk && lk.CommaOk && strings.Contains(Sym(lk.Index), "GetName(") {
				for _, rr := range *lk.Referrers() {
					if ex, isEx := rr.(*ssa.Extract); isEx && ex.Index == 1 {
						for _, r2 := range *ex.Referrers() {
							if ifi, isIf := r2.(*ssa.If); isIf && errReturnBlock(ifi.Block().Succs[0]) {
								dup = true
							}
						}
					}
				}
			}
		})
		if dup {
			c.Ob("R2", "ValidateDeploymentGroups rejects duplicate group names", vdg.Pos(), true, "")
		}
		// any other form of the test is judged (or declared not decided) by the unique-names rule below
		// ValidateBasic of the message
		c.Analysed(fnName(vb))
		mv := l.constVal("x/deployment/types", "ManifestVersionLength").ExactString()
		need := map[string]bool{"id": false, "groups": false, "version": false, "each": false}
		for _, r := range successReturns(vb) {
			for _, a := range factsAt(r.Block()) {
				x, y := Sym(a.X), Sym(a.Y)
				if a.Op == "eq" && isNilConst(a.Y) && strings.Contains(x, "DeploymentID.Validate(p:msg.ID)") {
					need["id"] = true
				}
				if a.Op == "neq" && x == "builtin.len(p:msg.Groups)" && y == "0" {
					need["groups"] = true
				}
				if a.Op == "eq" && x == "builtin.len(p:msg.Version)" && y == mv {
					need["version"] = true
				}
			}
		}
		for _, call := range callsIn(vb, false) {
			if calleeMethod(call) == "ValidateBasic" && loopHeaderOf(call.Block()) != nil && strings.Contains(Sym(call.Common().Args[0]), "p:msg.Groups[") {
				need["each"] = true
			}
		}
		for k, v := range need {
			c.Ob("R2", "MsgCreateDeployment.ValidateBasic checks "+k, vb.Pos(), v, "")
		}
		// handler
		c.Analysed(fnName(h))
		for _, call := range callsIn(h, false) {
			if !callIs(call, "Create", "IKeeper", "types.Deployment") {
				continue
			}
			var vcall2 *ssa.Call
			for _, c2 := range callsIn(h, false) {
				if g := c2.Common().StaticCallee(); g == vdg {
					vcall2 = c2.(*ssa.Call)
				}
			}
			c.Ob("R2", "handler stores the deployment only after group validation succeeded", call.Pos(), vcall2 != nil && okEdgeAt(call.Block(), vcall2) && Sym(vcall2.Call.Args[0]) == "*p:msg.Groups", "deployment stored without ValidateDeploymentGroups(msg.Groups)")
			den, amt := false, false
			for _, a := range factsAt(call.Block()) {
				x, y := Sym(a.X), Sym(a.Y)
				if a.Op == "eq" && strings.HasSuffix(x, "DeploymentMinDeposit.Denom") && strings.Contains(x, "GetParams(") && y == "*p:msg.Deposit.Denom" {
					den = true
				}
				if a.Op == "false" {
					if cv, _ := callOf(a.X); cv != nil && len(cv.Call.Args) == 2 {
						x0, x1 := Sym(cv.Call.Args[0]), Sym(cv.Call.Args[1])
						isMin := func(s string) bool {
							return strings.HasSuffix(s, "DeploymentMinDeposit.Amount") && strings.Contains(s, "GetParams(")
						}
						isDep := func(s string) bool { return s == "*p:msg.Deposit.Amount" }
						if (calleeMethod(cv) == "GT" && isMin(x0) && isDep(x1)) || (calleeMethod(cv) == "LT" && isDep(x0) && isMin(x1)) {
							amt = true
						}
					}
				}
			}
			c.Ob("R2", "handler requires the deposit denomination of the minimum deposit", call.Pos(), den, "")
			c.Ob("R2", "handler requires at least the minimum deposit", call.Pos(), amt, "")
			// the groups stored are built from msg.Groups
			gs := Sym(userArgs(call)[1])
			okGs := strings.Contains(gs, "local:groups") || strings.Contains(gs, "msg.Groups")
			if mk, isMk := userArgs(call)[1].(*ssa.MakeSlice); isMk && !okGs {
				// a slice made here and filled by index: every element stored takes its spec from msg.Groups
				nst := 0
				okGs = true
				eachInstr(h, func(i ssa.Instruction) {
					if st, isSt := i.(*ssa.Store); isSt {
						if ia, isIA := st.Addr.(*ssa.IndexAddr); isIA && ia.X == ssa.Value(mk) {
							nst++
							if !strings.Contains(Sym(st.Val), "p:msg.Groups[") {
								okGs = false
							}
						}
					}
				})
				okGs = okGs && nst > 0
			}
			c.Ob("R2", "stored groups are built from the validated message groups", call.Pos(), okGs, gs)
		}
		// price denomination
		vgp := l.Func("x/deployment/types", "", "validateGroupPricing")
		denom := l.constVal("validation/constants", "AkashDenom").ExactString()
		okd := false
		eachInstr(vgp, func(i ssa.Instruction) {
			if b, isB := i.(*ssa.BinOp); isB && b.Op.String() == "!=" && strings.HasSuffix(Sym(b.X), ".Denom") && strings.Contains(Sym(b.X), "FullPrice(") && Sym(b.Y) == denom {
				for _, rr := range *b.Referrers() {
					if ifi, isIf := rr.(*ssa.If); isIf && errReturnBlock(ifi.Block().Succs[0]) {
						okd = true
					}
				}
			}
		})
		c.Ob("R2", "unit prices must be in the network denomination", vgp.Pos(), okd, "")
		// per-group validator chain: ValidateBasic -> resource list + pricing, errors propagated
		vg := l.Func("x/deployment/types", "", "validateDeploymentGroup")
		for _, nm := range []string{"ValidateResourceList", "validateGroupPricing"} {
			found := false
			for _, call := range callsIn(vg, false) {
				if g := call.Common().StaticCallee(); g != nil && g.Name() == nm {
					all := true
					for _, r := range successReturns(vg) {
						if !okEdgeAt(r.Block(), call.(*ssa.Call)) {
							if cv, _ := callOf(r.Results[0]); cv != call.(*ssa.Call) {
								all = false
							}
						}
					}
					if !all {
						// the error carried in a variable to a common return: every way to a possibly-nil return has
						// looked at it or hands it back, and no such return avoids the call
						all = errHonoured(vg, call.(*ssa.Call))
						for _, r := range successReturns(vg) {
							if !mustPass(vg, r, func(in ssa.Instruction) bool { return in == ssa.Instruction(call) }) {
								all = false
							}
						}
					}
					found = all
				}
			}
			c.Ob("R2", "per-group validation includes "+nm+" and propagates its error", vg.Pos(), found, "")
		}
		// unit loop in ValidateResourceList and pricing validate every unit
		vrl := l.Func("x/deployment/types", "", "ValidateResourceList")
		for _, spec := range [][2]string{{"ValidateResourceList", "validateResourceGroup"}, {"validateGroupPricing", "validateUnitPricing"}} {
			f := l.Func("x/deployment/types", "", spec[0])
			okl := false
			for _, call := range callsIn(f, false) {
				if g := call.Common().StaticCallee(); g != nil && g.Name() == spec[1] && loopHeaderOf(call.Block()) != nil {
					okl = true
				}
			}
			c.Ob("R2", spec[0]+" applies "+spec[1]+" to every unit", f.Pos(), okl, "")
		}
		_ = vrl
	}
	c.Floor("R2", 14)

	// ---- R3 nothing bypasses
	cr := l.Func("x/deployment/keeper", "Keeper", "Create")
	n := 0
	for _, call := range l.callSitesOf(cr) {
		n++
		caller := fnName(call.Parent())
		ok := caller == "x/deployment/handler.(msgServer).CreateDeployment" || caller == "x/deployment.InitGenesis"
		if !ok {
			// a new helper that only the admission handler (or genesis import) calls
			if hfn := call.Parent(); hfn != nil && isNewFunc(hfn) {
				for _, root := range []*ssa.Function{l.msgServerMethod("x/deployment/handler", "CreateDeployment"), l.Func("x/deployment", "", "InitGenesis")} {
					if root != nil && inCodeOf(root, hfn) {
						ok = true
					}
				}
			}
		}
		c.Ob("R3", "deployment constructor called from "+caller, call.Pos(), ok, "deployments can be stored without passing admission")
	}
	if n < 2 {
		c.Fail("C19-R3 lost instances")
	}
}

// truncatedFrom: does v derive (through conversions, arithmetic, phis) from a silently truncating narrowing?
// Returns a description of the narrowing, or "".
func truncatedFrom(v ssa.Value, seen map[ssa.Value]bool, depth int) string {
	if seen[v] || depth > 8 {
		return ""
	}
	seen[v] = true
	intSize := func(t types.Type) int {
		b, ok := t.Underlying().(*types.Basic)
		if !ok || b.Info()&types.IsInteger == 0 {
			return 0
		}
		switch b.Kind() {
		case types.Int8, types.Uint8:
			return 1
		case types.Int16, types.Uint16:
			return 2
		case types.Int32, types.Uint32:
			return 4
		}
		return 8
	}
	switch x := v.(type) {
	case *ssa.Call:
		switch calleeFull(x) {
		case "(*math/big.Int).Uint64", "(*math/big.Int).Int64":
			return calleeFull(x)
		}
		// an akash accessor that narrows inside (e.g. a Value() getter)
		if g := x.Call.StaticCallee(); g != nil && g.Blocks != nil && strings.HasPrefix(fnPkgPath(g), akash) && depth < 6 {
			for _, b := range g.Blocks {
				if r, isR := b.Instrs[len(b.Instrs)-1].(*ssa.Return); isR && len(r.Results) >= 1 {
					if t := truncatedFrom(r.Results[0], seen, depth+3); t != "" {
						return t + " inside " + fnName(g)
					}
				}
			}
		}
		return ""
	case *ssa.Convert:
		if a, b := intSize(x.X.Type()), intSize(x.Type()); a > 0 && b > 0 && b < a {
			return "conversion " + x.X.Type().String() + " -> " + x.Type().String()
		}
		return truncatedFrom(x.X, seen, depth+1)
	case *ssa.ChangeType:
		return truncatedFrom(x.X, seen, depth+1)
	case *ssa.BinOp:
		if t := truncatedFrom(x.X, seen, depth+1); t != "" {
			return t
		}
		return truncatedFrom(x.Y, seen, depth+1)
	case *ssa.Phi:
		for _, e := range x.Edges {
			if t := truncatedFrom(e, seen, depth+1); t != "" {
				return t
			}
		}
	case *ssa.Extract:
		return truncatedFrom(x.Tuple, seen, depth+1)
	}
	return ""
}

// everyEntryValidated: the bounds are enforced on what GroupSpec.GetResources() hands to ValidateResourceList, while
// the handler stores g.Resources itself. GetResources must therefore hand over one entry per stored entry: where it
// builds its result by appending (or storing by index) in a loop over the group's entries, every pass of the loop
// body reaches that append. A pass that skips it leaves a stored entry unvalidated. Other forms are not decided.
func (c *Check) everyEntryValidated(rule string) {
	l := c.L
	fn := l.Func("x/deployment/types", "GroupSpec", "GetResources")
	c.Analysed(fnName(fn))
	var adds []ssa.Instruction
	eachInstr(fn, func(i ssa.Instruction) {
		switch x := i.(type) {
		case *ssa.Call:
			if calleeFull(x) == "builtin.append" && loopHeaderOf(x.Block()) != nil {
				adds = append(adds, x)
			}
		case *ssa.Store:
			if ia, ok := x.Addr.(*ssa.IndexAddr); ok && loopHeaderOf(x.Block()) != nil {
				if _, isMk := ia.X.(*ssa.MakeSlice); isMk {
					adds = append(adds, x)
				}
			}
		}
	})
	if len(adds) == 0 {
		for _, r := range successReturns(fn) {
			if strings.HasSuffix(Sym(r.Results[0]), "p:g.Resources") {
				c.Ob(rule, "GetResources hands every stored resource entry to validation", fn.Pos(), true, "")
				return
			}
		}
		c.Info(rule, "GetResources: form not recognised, coverage of the stored entries not decided", fn.Pos(), "")
		return
	}
	isAdd := func(in ssa.Instruction) bool {
		for _, a := range adds {
			if a == in {
				return true
			}
		}
		return false
	}
	h := loopHeaderOf(adds[0].Block())
	body := loopBlocks(h)
	ok := true
	for _, s := range h.Succs {
		if !body[s] || s == h {
			continue
		}
		if !mustPassAvoidingFrom(fn, s, h.Instrs[0], isAdd, func(*ssa.BasicBlock, int) bool { return false }) {
			ok = false
		}
	}
	c.Ob(rule, "GetResources hands every stored resource entry to validation", adds[0].Pos(), ok, "a pass of the loop over the group's entries skips the append: that entry is stored with the deployment but its bounds (and its share of the unit count) are never checked")
}
