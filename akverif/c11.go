package main

import (
	"go/constant"
	"go/token"
	"go/types"
	"regexp"
	"sort"
	"strings"

	"golang.org/x/tools/go/ssa"
)

func init() { registry["C11"] = checkC11 }

var specStoreRe = regexp.MustCompile(`^&\**p:obj\.Spec\b`)

const kubePkg = "provider/cluster/kube"

// nrm: drop dereference stars and the embedded-builder selector so that b.lid and b.builder.lid read the same
func nrm(s string) string {
	return strings.ReplaceAll(strings.ReplaceAll(s, "*", ""), ".builder.", ".")
}

// balancedAfter returns the {...} group starting at the first "{" at or after index i.
func balancedAfter(s string, i int) string {
	j := strings.Index(s[i:], "{")
	if j < 0 {
		return ""
	}
	j += i
	depth := 0
	for k := j; k < len(s); k++ {
		switch s[k] {
		case '{':
			depth++
		case '}':
			depth--
			if depth == 0 {
				return s[j : k+1]
			}
		}
	}
	return ""
}

// literalsOf lists the bodies of all "T{...}" occurrences in s.
func literalsOf(s, t string) []string {
	var out []string
	for i := 0; ; {
		k := strings.Index(s[i:], t+"{")
		if k < 0 {
			return out
		}
		k += i
		out = append(out, balancedAfter(s, k))
		i = k + len(t)
	}
}

func checkC11(c *Check) {
	c.Explanation = "Decided over the Kubernetes builder/client package: (R1) every call of a namespaced typed-client accessor receives the lease namespace lidNS(<lease id>) (directly, through a local, or through the builder's ns() which returns it); the two frozen exceptions are the read-only all-namespaces pod scan and the provider's own CRD namespace whose object name is lidNS; cluster-scoped namespace calls use lidNS as the name; (R2) pod security: Privileged, AllowPrivilegeEscalation and AutomountServiceAccountToken point to a local whose only value is false, no host namespace / service account / volume / capability field is ever set, exactly one container per pod; (R3) limits come from the leased cpu/memory/storage values, requests from the commit-level helper applied to the same values, nothing else writes those maps, and the helper returns anything but its input only when the commit factor is above 1; (R4) the namespace is lower(base32hex-nopad(sha224(lease id string))) and the lease id string covers all five id fields; (R5) network policy shape: default policy selects all pods with both policy types, ingress peers are only the lease namespace or the ingress controller, public egress excepts the three private ranges and the only other IP block rule is restricted to udp/53, per-service policies open only ports appended under global-and-not-ingress, with a per-service port list, selecting the service's pods; all policies live in the lease namespace; (R6) every generated object carries the lease-namespace label; (R7) every typed-client Create/Update in the apply functions is handed the builder's create() result or its update(existing) result, the latter only if that update() rewrites the Spec; (R8) the error of every such write can reach the apply function's own error result. Where the namespace length can be bounded it is at most 63."
	c.NotDecided = "requests <= limits as arithmetic inside the helper; injectivity of the namespace beyond hash collisions; Kubernetes' own enforcement"
	l := c.L
	fns := l.pkgFuncs(kubePkg)

	// ns() helpers that return lidNS(b.lid)
	nsOK := map[*ssa.Function]bool{}
	for _, fn := range fns {
		if fn.Name() != "ns" || len(fn.Params) != 1 {
			continue
		}
		for _, r := range successReturns(fn) {
			if nrm(Sym(r.Results[0])) == "kube.lidNS(p:b.lid)" {
				nsOK[fn] = true
			}
		}
	}
	derivesNS := func(v ssa.Value) bool {
		s := Sym(v)
		if strings.HasPrefix(s, "kube.lidNS(") {
			return true
		}
		if call, ok := v.(*ssa.Call); ok {
			if g := call.Call.StaticCallee(); g != nil && nsOK[g] {
				return true
			}
			// promoted method through embedding: wrapper calls
			if g := call.Call.StaticCallee(); g != nil && g.Name() == "ns" {
				for _, c2 := range callsIn(g, false) {
					if h := c2.Common().StaticCallee(); h != nil && nsOK[h] {
						return true
					}
				}
			}
			if call.Call.IsInvoke() && call.Call.Method.Name() == "ns" {
				// interface builder: every implementation must be ok
				all := true
				n := 0
				for _, g := range l.prodCalleesOf(call) {
					n++
					if !nsOK[g] && !mnsBuilder(g) {
						all = false
					}
				}
				return all && n > 0
			}
		}
		return false
	}

	// ---- R1
	nacc := 0
	for _, fn := range fns {
		for _, call := range callsIn(fn, false) {
			cc := call.Common()
			if !cc.IsInvoke() {
				continue
			}
			sig := cc.Method.Type().(*types.Signature)
			if sig.Params().Len() != 1 || sig.Params().At(0).Name() != "namespace" {
				continue
			}
			full := calleeFull(call)
			if !strings.Contains(full, "k8s.io/client-go/kubernetes/typed") && !strings.Contains(full, "pkg/client/clientset") {
				continue
			}
			nacc++
			c.Analysed(fnName(fn))
			arg := cc.Args[0]
			m := cc.Method.Name()
			s := Sym(arg)
			ok := derivesNS(arg)
			why := "namespace argument " + short(s) + " is not the lease namespace"
			switch {
			case !ok && m == "Pods" && s == `""`:
				// frozen exception: read-only inventory scan over all namespaces
				ro := true
				for _, rr := range *call.(*ssa.Call).Referrers() {
					if c2, isC := rr.(ssa.CallInstruction); isC {
						if mm := calleeMethod(c2); mm != "List" && mm != "Watch" && mm != "Get" {
							ro = false
						}
					}
				}
				ok = ro
				why = "all-namespaces pod accessor is used for a write"
				// ... and only in code that does not serve one lease: a function that is handed a lease id must stay inside
				// that lease's namespace (an all-namespaces read there returns other tenants' pods)
				root := fn
				for root.Parent() != nil {
					root = root.Parent()
				}
				for _, p := range root.Params {
					if ts := p.Type().String(); strings.HasSuffix(ts, "types.LeaseID") || strings.HasSuffix(ts, "types.DeploymentID") {
						ok = false
						why = "all-namespaces pod accessor in a function that serves one lease (" + paramName(p) + ")"
					}
				}
			case !ok && m == "Manifests" && (strings.HasSuffix(s, "c.ns") || mnsArg(arg, l)):
				// frozen exception: CRD objects live in the provider's configured namespace; their name is lidNS
				ok = true
			}
			c.Ob("R1", m+"(namespace) in "+fnName(fn), call.Pos(), ok, why)
		}
		// cluster-scoped namespaces: name argument
		for _, call := range callsIn(fn, false) {
			cc := call.Common()
			if !cc.IsInvoke() || !strings.Contains(calleeFull(call), "typed/core/v1.NamespaceInterface") {
				continue
			}
			m := cc.Method.Name()
			if m != "Get" && m != "Delete" {
				continue
			}
			name := cc.Args[1]
			c.Ob("R1", "Namespaces()."+m+" in "+fnName(fn)+" names the lease namespace", call.Pos(), derivesNS(name) || strings.Contains(Sym(name), ".name(") || Sym(name) == "p:ns", "namespace name "+short(Sym(name)))
		}
	}
	if nacc < 27 {
		c.Fail("C11-R1 lost instances: %d accessor calls", nacc)
	}
	// CRD object name is lidNS
	for _, fn := range fns {
		if fn.Name() == "name" && fn.Signature.Recv() != nil && strings.Contains(fn.Signature.Recv().Type().String(), "manifestBuilder") {
			ok := false
			for _, r := range successReturns(fn) {
				if strings.HasPrefix(nrm(Sym(r.Results[0])), "kube.lidNS(p:b.lid)") {
					ok = true
				}
			}
			c.Ob("R1", "CRD manifest object is named after the lease namespace", fn.Pos(), ok, "")
		}
	}

	// ---- R2 security context
	falseLocal := func(v ssa.Value) bool {
		a, ok := v.(*ssa.Alloc)
		if !ok {
			return false
		}
		n := 0
		for _, r := range *a.Referrers() {
			if st, isSt := r.(*ssa.Store); isSt && st.Addr == ssa.Value(a) {
				n++
				if !isConstBool(st.Val, false) {
					return false
				}
			}
		}
		return n == 1
	}
	want := map[string]string{"k8s.io/api/core/v1.SecurityContext.Privileged": "", "k8s.io/api/core/v1.SecurityContext.AllowPrivilegeEscalation": "", "k8s.io/api/core/v1.PodSpec.AutomountServiceAccountToken": ""}
	forbidden := map[string]bool{"HostNetwork": true, "HostPID": true, "HostIPC": true, "ServiceAccountName": true, "DeprecatedServiceAccount": true, "Volumes": true, "ShareProcessNamespace": true}
	for _, fn := range fns {
		eachInstr(fn, func(i ssa.Instruction) {
			st, ok := i.(*ssa.Store)
			if !ok {
				return
			}
			fa, ok := st.Addr.(*ssa.FieldAddr)
			if !ok {
				return
			}
			tn, f := structFieldOf(fa)
			key := tn + "." + f
			if _, isW := want[key]; isW {
				want[key] = "set"
				c.Ob("R2", f+" in "+fnName(fn)+" is pinned to false", st.Pos(), falseLocal(st.Val), f+" is set from "+Sym(st.Val))
			}
			if tn == "k8s.io/api/core/v1.PodSpec" && forbidden[f] {
				c.Ob("R2", "pod spec field "+f+" is never set", st.Pos(), false, "workload pod gets "+f)
			}
			if tn == "k8s.io/api/core/v1.SecurityContext" && f == "Capabilities" {
				c.Ob("R2", "no capabilities are granted", st.Pos(), false, "")
			}
			if tn == "k8s.io/api/core/v1.PodSpec" && f == "Containers" {
				s := Sym(st.Val)
				c.Ob("R2", "exactly one container per pod in "+fnName(fn), st.Pos(), strings.HasPrefix(s, "[kube.deploymentBuilder.container(") && strings.Count(s, "container(") == 1, "containers: "+short(s))
			}
		})
	}
	for k, v := range want {
		c.Ob("R2", shortName(k)+" is set explicitly", fns[0].Pos(), v == "set", "")
	}
	// every pod spec / container security context that is BUILT (fields stored into a fresh object rather than into
	// one received from the cluster) carries the pinned fields — a second construction site must not forget them
	type built struct {
		fields map[string]bool
		pos    token.Pos
		fn     *ssa.Function
	}
	builtAt := map[string]*built{}
	var order []string
	for _, fn := range fns {
		eachInstr(fn, func(i ssa.Instruction) {
			st, ok := i.(*ssa.Store)
			if !ok {
				return
			}
			fa, ok := st.Addr.(*ssa.FieldAddr)
			if !ok {
				return
			}
			tn, f := structFieldOf(fa)
			if tn != "k8s.io/api/core/v1.PodSpec" && tn != "k8s.io/api/core/v1.SecurityContext" {
				return
			}
			// base of the address chain
			base := fa.X
			for {
				if inner, isFA := base.(*ssa.FieldAddr); isFA {
					base = inner.X
					continue
				}
				if ia, isIA := base.(*ssa.IndexAddr); isIA {
					base = ia.X
					continue
				}
				break
			}
			if _, fresh := base.(*ssa.Alloc); !fresh {
				return
			}
			key := fnName(fn) + "|" + shortName(tn) + "|" + Sym(fa.X)
			if builtAt[key] == nil {
				builtAt[key] = &built{fields: map[string]bool{}, pos: st.Pos(), fn: fn}
				order = append(order, key)
			}
			builtAt[key].fields[f] = true
		})
	}
	sort.Strings(order)
	nbuilt := 0
	for k, key := range order {
		bt := builtAt[key]
		parts := strings.SplitN(key, "|", 3)
		nbuilt++
		switch parts[1] {
		case "v1.PodSpec":
			c.Ob("R2", "pod spec #"+itoa(k+1)+" built in "+fnName(bt.fn)+" turns the service-account token off", bt.pos, bt.fields["AutomountServiceAccountToken"], "a pod spec is built without AutomountServiceAccountToken=false: pods applied from it get the namespace's service-account token")
		case "v1.SecurityContext":
			c.Ob("R2", "container security context #"+itoa(k+1)+" built in "+fnName(bt.fn)+" pins privilege fields", bt.pos, bt.fields["Privileged"] && bt.fields["AllowPrivilegeEscalation"], "a container security context is built without Privileged=false / AllowPrivilegeEscalation=false")
		}
	}
	if nbuilt < 2 {
		c.Fail("C11-R2 lost instances: %d built pod specs / security contexts", nbuilt)
	}

	// what is deployed for a lease is that lease's manifest group: the cluster service hands every manager its own group
	// (a pointer to a per-loop variable shared by all managers deploys the last lease's workloads into every namespace)
	c.loopVarAddressEscapes("R3", []string{"provider/cluster", "provider/cluster/kube"})

	c.exactGroupNames("R3")
	// ---- R3 limits / requests
	cont := l.Func(kubePkg, "deploymentBuilder", "container")
	c.Analysed(fnName(cont))
	type mu struct {
		m, k, v string
		pos     ssa.Instruction
		fn      *ssa.Function
	}
	var ups []mu
	for _, fn := range fns {
		eachInstr(fn, func(i ssa.Instruction) {
			if u, ok := i.(*ssa.MapUpdate); ok {
				ms := Sym(u.Map)
				if strings.HasSuffix(ms, ".Resources.Limits") || strings.HasSuffix(ms, ".Resources.Requests") || strings.Contains(ms, "make:v1.ResourceList") || u.Map.Type().String() == "k8s.io/api/core/v1.ResourceList" {
					which := "Limits"
					if strings.Contains(ms, "Requests") {
						which = "Requests"
					}
					if !strings.Contains(ms, ".Resources.") {
						// a map held in a local and attached to the container later: its role is the field it is stored in
						if role := resourceListRole(fn, u.Map); role != "" {
							which = role
						}
					}
					// identify through the field the map was stored in
					ups = append(ups, mu{which + "@" + fnName(fn), Sym(u.Key), Sym(u.Value), u, fn})
				}
			}
		})
	}
	dims := map[string][2]string{`"cpu"`: {"CPU", "Units"}, `"memory"`: {"Memory", "Quantity"}, `"ephemeral-storage"`: {"Storage", "Quantity"}}
	nlim := 0
	for _, u := range ups {
		d, known := dims[u.k]
		inCont := strings.HasSuffix(u.m, fnName(cont)) || (u.fn != nil && isNewFunc(u.fn) && inCodeOf(cont, u.fn))
		if !known || !inCont {
			c.Ob("R3", "resource list write "+u.m+"["+u.k+"]", u.pos.Pos(), false, "limits/requests written outside the container builder or for an unknown resource")
			continue
		}
		nlim++
		leased := "p:b.service.Resources." + d[0] + "." + d[1]
		v := nrm(u.v)
		if strings.HasPrefix(u.m, "Requests@") {
			okr := strings.Contains(v, "types.ResourceValue.Value(util.ComputeCommittedResources(p:b.settings."+d[0]+"CommitLevel, "+leased+"))")
			c.Ob("R3", "request["+u.k+"] = commit-level helper applied to the leased "+d[0], u.pos.Pos(), okr, "request derives from "+short(v))
		} else {
			okl := strings.Contains(v, "types.ResourceValue.Value("+leased+")") && !strings.Contains(v, "ComputeCommittedResources(")
			c.Ob("R3", "limit["+u.k+"] = leased "+d[0], u.pos.Pos(), okl, "limit derives from "+short(v))
		}
	}
	if nlim != 6 {
		c.Ob("R3", "three limits and three requests are written", cont.Pos(), false, "found "+itoa(nlim)+" resource list writes")
	}
	// limits and requests go to different maps: per dimension one request-shaped and one limit-shaped write
	cch := l.Func("provider/cluster/util", "", "ComputeCommittedResources")
	c.Analysed(fnName(cch))
	{
		ok := true
		nret := 0
		for _, b := range cch.Blocks {
			r, isR := b.Instrs[len(b.Instrs)-1].(*ssa.Return)
			if !isR {
				continue
			}
			nret++
			if Sym(r.Results[0]) == "p:rv" {
				continue
			}
			above1 := false
			for _, a := range factsAt(b) {
				if a.Op == ">" && Sym(a.X) == "p:factor" {
					if k, isK := a.Y.(*ssa.Const); isK && k.Value != nil {
						if f, _ := constant.Float64Val(constant.ToFloat(k.Value)); f >= 1.0 {
							above1 = true
						}
					}
				}
			}
			if !above1 {
				ok = false
			}
		}
		c.Ob("R3", "commit-level helper changes the value only for a factor above 1 (requests are never scaled up)", cch.Pos(), ok && nret >= 2, "for a commit level between 0 and 1 the request becomes larger than the limit")
	}

	// ---- R4 namespace derivation
	c.leaseNamespaceRule("R4")

	// ---- R5 network policy
	np := l.Func(kubePkg, "netPolBuilder", "create")
	c.Analysed(fnName(np))
	c.netPol(np)

	// ---- R6 labels
	bl := l.Func(kubePkg, "builder", "labels")
	{
		s := ""
		for _, r := range successReturns(bl) {
			s = nrm(Sym(r.Results[0]))
		}
		nsLabel := l.constVal(kubePkg, "akashNetworkNamespace").ExactString()
		c.Ob("R6", "base labels carry the lease namespace", bl.Pos(), strings.Contains(s, nsLabel+": kube.lidNS(p:b.lid)"), short(s))
	}
	nlab := 0
	for _, fn := range fns {
		if fn.Name() != "labels" || fn.Signature.Recv() == nil || fn == bl || fn.Synthetic != "" {
			continue
		}
		nlab++
		base := false
		for _, call := range callsIn(fn, false) {
			if g := call.Common().StaticCallee(); g != nil && g.Name() == "labels" {
				base = true
			}
		}
		c.Ob("R6", fnName(fn)+" extends the base labels", fn.Pos(), base, "object labels do not include the lease namespace label")
	}
	if nlab < 2 {
		c.Fail("C11-R6 lost instances")
	}
	c.applyDiscipline(fns)
	c.applyErrors(fns)
	// isolation first: in Deploy the namespace and its network policies are applied, successfully, before any workload
	// object (deployment, service, ingress) — a failure part-way never leaves pods running in a namespace without them
	{
		dep := l.Func(kubePkg, "client", "Deploy")
		c.Analysed(fnName(dep))
		var ns, np ssa.CallInstruction
		var workloads []ssa.CallInstruction
		for _, call := range callsIn(dep, false) {
			g := call.Common().StaticCallee()
			if g == nil {
				continue
			}
			switch g.Name() {
			case "applyNS":
				ns = call
			case "applyNetPolicies":
				np = call
			case "applyDeployment", "applyService", "applyIngress":
				workloads = append(workloads, call)
			}
		}
		ok := ns != nil && np != nil && len(workloads) >= 3
		why := "Deploy does not apply namespace, network policies and workloads"
		if ok {
			for _, w := range workloads {
				wl, nl, pl := liftTo(dep, w), liftTo(dep, ns), liftTo(dep, np)
				if wl == nil || nl == nil || pl == nil || !instrDominates(nl, wl) || !instrDominates(pl, wl) {
					ok = false
					why = calleeShort(w) + " can run before the namespace / the lease's network policies are in place: if a later step fails the workload stays without isolation"
					continue
				}
				for _, pre := range []ssa.CallInstruction{ns, np} {
					if pc, isC := pre.(*ssa.Call); isC && pc.Parent() == w.Parent() && !okEdgeAt(w.Block(), pc) {
						ok = false
						why = calleeShort(w) + " runs although " + calleeShort(pre) + " may have failed"
					}
				}
			}
		}
		c.Ob("R8", "Deploy applies namespace and network policies, successfully, before any workload object", dep.Pos(), ok, why)
	}
}

// applyErrors (R8): a failed write of a generated object is reported. In the apply functions the error result of
// every typed-client Create/Update must be able to reach the function's own error result (through locals, phis and
// wrapping calls); otherwise the deployment goes on as if the object (for example the lease's network policies)
// were in place.
func (c *Check) applyErrors(fns []*ssa.Function) {
	n := 0
	for _, fn := range fns {
		if fn.Parent() != nil || !strings.HasPrefix(fn.Name(), "apply") || errResultIndex(fn) < 0 {
			continue
		}
		// the apply function and the new helpers split off it (a write in a helper must reach the helper's result, and
		// the helper's result the apply function's)
		homes := []*ssa.Function{fn}
		for _, h := range helpersOf(fn) {
			if h.Parent() == nil && errResultIndex(h) >= 0 && !strings.HasPrefix(h.Name(), "apply") {
				homes = append(homes, h)
			}
		}
		for _, home := range homes {
			for _, call := range callsInOwn(home) {
				cc := call.Common()
				if !cc.IsInvoke() {
					continue
				}
				m := cc.Method.Name()
				full := calleeFull(call)
				if (m != "Create" && m != "Update") || (!strings.Contains(full, "k8s.io/client-go/kubernetes/typed") && !strings.Contains(full, "pkg/client/clientset")) {
					continue
				}
				cv, isCall := call.(*ssa.Call)
				if !isCall {
					continue
				}
				n++
				okFlow := errFlowsToReturn(cv, home)
				if okFlow && home != fn {
					okFlow = false
					if site, isC := liftTo(fn, cv).(*ssa.Call); isC {
						okFlow = errFlowsToReturn(site, fn)
					}
				}
				c.Ob("R8", fnName(fn)+": a failed "+m+" is reported to the caller", call.Pos(), okFlow, "the error of this write never reaches "+fn.Name()+"'s result (shadowed or dropped): the caller continues as if the object had been applied")
			}
		}
	}
	if n < 12 {
		c.Fail("C11-R8 lost instances: %d typed-client writes in apply functions", n)
	}
}

// errFlowsToReturn: the error result of call can reach an operand of a return of fn.
func errFlowsToReturn(call *ssa.Call, fn *ssa.Function) bool {
	seen := map[ssa.Value]bool{}
	var work []ssa.Value
	ri := call.Call.Signature().Results()
	if ri.Len() == 1 {
		work = append(work, call)
	} else if call.Referrers() != nil {
		for _, r := range *call.Referrers() {
			if ex, ok := r.(*ssa.Extract); ok && ex.Index == ri.Len()-1 {
				work = append(work, ex)
			}
		}
	}
	for len(work) > 0 {
		v := work[0]
		work = work[1:]
		if seen[v] || v.Referrers() == nil {
			continue
		}
		seen[v] = true
		for _, r := range *v.Referrers() {
			switch x := r.(type) {
			case *ssa.Return:
				return true
			case *ssa.Phi:
				work = append(work, x)
			case *ssa.MakeInterface:
				work = append(work, x)
			case *ssa.ChangeInterface:
				work = append(work, x)
			case *ssa.Store:
				if x.Val == v {
					if a, isA := x.Addr.(*ssa.Alloc); isA && a.Referrers() != nil {
						for _, ar := range *a.Referrers() {
							if ld, isLd := ar.(*ssa.UnOp); isLd && ld.X == ssa.Value(a) {
								work = append(work, ld)
							}
						}
					}
				}
			case *ssa.Call:
				// wrapping helpers hand the error on
				if n := calleeFull(x); strings.Contains(n, "errors.") || strings.HasSuffix(n, ".Errorf") {
					work = append(work, x)
				}
			}
		}
	}
	return false
}

// applyDiscipline (R7): what reaches the cluster is what the builders generate. The object handed to a typed
// client's Create derives from the builder's create(); the object handed to Update derives from create() or from
// the builder's update(existing), and in the latter case update() must regenerate (store into) the object's Spec
// whenever create() fills a Spec — otherwise the spec already in the cluster (possibly weaker than R2/R3/R5
// demand) is re-applied unchanged.
func (c *Check) applyDiscipline(fns []*ssa.Function) {
	writesSpec := func(fn *ssa.Function) bool {
		w := false
		eachInstr(fn, func(i ssa.Instruction) {
			if st, ok := i.(*ssa.Store); ok {
				if specStoreRe.MatchString(Sym(st.Addr)) {
					w = true
				}
			}
		})
		return w
	}
	fillsSpec := func(fn *ssa.Function) bool {
		f := false
		for _, g := range fnAndClosures(fn) {
			eachInstr(g, func(i ssa.Instruction) {
				if fa, ok := i.(*ssa.FieldAddr); ok && fieldName(fa.X.Type(), fa.Field) == "Spec" {
					f = true
				}
			})
		}
		return f
	}
	n := 0
	for _, fn := range fns {
		if fn.Parent() != nil || !strings.HasPrefix(fn.Name(), "apply") {
			continue
		}
		for _, call := range callsIn(fn, false) {
			cc := call.Common()
			if !cc.IsInvoke() {
				continue
			}
			m := cc.Method.Name()
			full := calleeFull(call)
			if (m != "Create" && m != "Update") || (!strings.Contains(full, "k8s.io/client-go/kubernetes/typed") && !strings.Contains(full, "pkg/client/clientset")) {
				continue
			}
			n++
			c.Analysed(fnName(fn))
			obj := cc.Args[1]
			s := Sym(obj)
			ok := false
			why := "applied object " + short(s) + " does not come from the builder"
			// resolve the builder calls the object can come from
			var srcs []*ssa.Call
			var walk func(v ssa.Value, seen map[ssa.Value]bool)
			walk = func(v ssa.Value, seen map[ssa.Value]bool) {
				if seen[v] {
					return
				}
				seen[v] = true
				switch x := v.(type) {
				case *ssa.Extract:
					walk(x.Tuple, seen)
				case *ssa.Call:
					srcs = append(srcs, x)
				case *ssa.Phi:
					for _, e := range x.Edges {
						walk(e, seen)
					}
				case *ssa.UnOp:
					if a, isA := x.X.(*ssa.Alloc); isA {
						for _, r := range *a.Referrers() {
							if st, isSt := r.(*ssa.Store); isSt && st.Addr == ssa.Value(a) {
								walk(st.Val, seen)
							}
						}
						return
					}
					walk(x.X, seen)
				case *ssa.IndexAddr:
					walk(x.X, seen)
				case *ssa.Index:
					walk(x.X, seen)
				case *ssa.ChangeType:
					walk(x.X, seen)
				case *ssa.MakeInterface:
					walk(x.X, seen)
				default:
					srcs = append(srcs, nil)
				}
			}
			walk(obj, map[ssa.Value]bool{})
			ok = len(srcs) > 0
			for _, src := range srcs {
				if src == nil {
					ok = false
					continue
				}
				callee := src.Call.StaticCallee()
				switch {
				case callee != nil && callee.Name() == "create" && fnPkgPath(callee) == akash+"/"+kubePkg:
				case callee != nil && callee.Name() == "update" && fnPkgPath(callee) == akash+"/"+kubePkg && m == "Update":
					cr := callee.Pkg.Prog.LookupMethod(callee.Signature.Recv().Type(), callee.Pkg.Pkg, "create")
					if cr != nil && fillsSpec(cr) && !writesSpec(callee) {
						ok = false
						why = fnName(callee) + " leaves the fetched object's Spec as found in the cluster, yet its result is what gets applied: the generated spec (" + fnName(cr) + ") never reaches an existing object"
					}
				default:
					ok = false
					why = "applied object comes from " + short(Sym(src)) + ", not from the builder's create()/update()"
				}
			}
			c.Ob("R7", fnName(fn)+": "+m+" applies the builder-generated object", call.Pos(), ok, why)
		}
	}
	if n < 12 {
		c.Fail("C11-R7 lost instances: %d typed-client writes in apply functions", n)
	}
}

func mnsBuilder(g *ssa.Function) bool {
	return g.Signature.Recv() != nil && strings.Contains(g.Signature.Recv().Type().String(), "manifestBuilder")
}

// mnsArg: the namespace argument is manifestBuilder.ns() (the provider's configured CRD namespace)
func mnsArg(v ssa.Value, l *Loaded) bool {
	call, ok := v.(*ssa.Call)
	if !ok {
		return false
	}
	if g := call.Call.StaticCallee(); g != nil && g.Name() == "ns" && mnsBuilder(g) {
		return true
	}
	return false
}

func (c *Check) netPol(np *ssa.Function) {
	nsLabel := c.L.constVal(kubePkg, "akashNetworkNamespace").ExactString()
	svcLabel := c.L.constVal(kubePkg, "akashManifestServiceLabelName").ExactString()
	pols := litFieldStores(np, "networking/v1.NetworkPolicy")
	npol := 0
	npeer := 0
	for a, f := range pols {
		npol++
		nsv := ""
		if v, ok := f["ObjectMeta.Namespace"]; ok {
			nsv = nrm(Sym(v))
		}
		c.Ob("R5", "network policy lives in the lease namespace", a.Pos(), strings.HasPrefix(nsv, "kube.lidNS(p:b.lid)"), "Namespace="+nsv)
		lab := ""
		if v, ok := f["ObjectMeta.Labels"]; ok {
			lab = Sym(v)
		}
		c.Ob("R5", "network policy carries the lease labels", a.Pos(), strings.Contains(lab, "labels("), lab)
		if eg, hasEgress := f["Spec.Egress"]; hasEgress {
			pt := Sym(f["Spec.PolicyTypes"])
			_, hasSel := f["Spec.PodSelector.MatchLabels"]
			c.Ob("R5", "default policy applies to every pod for ingress and egress", a.Pos(), !hasSel && strings.Contains(pt, `"Ingress"`) && strings.Contains(pt, `"Egress"`), "PolicyTypes="+pt)
			all := nrm(Sym(f["Spec.Ingress"])) + " " + nrm(Sym(eg))
			for _, peer := range literalsOf(all, "v1.NetworkPolicyPeer") {
				npeer++
				if strings.Contains(peer, "IPBlock: &v1.IPBlock{") {
					blk := balancedAfter(peer, strings.Index(peer, "IPBlock: &v1.IPBlock"))
					if strings.Contains(blk, `CIDR: "0.0.0.0/0"`) {
						ok := strings.Contains(blk, `"10.0.0.0/8"`) && strings.Contains(blk, `"192.168.0.0/16"`) && strings.Contains(blk, `"172.16.0.0/12"`)
						c.Ob("R5", "public egress excepts the three private address ranges", a.Pos(), ok, blk)
					} else {
						// the enclosing egress rule must be limited to udp/53
						okDNS := false
						for _, rule := range literalsOf(nrm(Sym(eg)), "v1.NetworkPolicyEgressRule") {
							if strings.Contains(rule, blk) && strings.Contains(rule, "Ports: [v1.NetworkPolicyPort{Port: g:kube.dnsPort, Protocol: g:kube.dnsProtocol}]") {
								okDNS = true
							}
						}
						c.Ob("R5", "egress to a non-public IP block "+blk+" is restricted to DNS (udp/53)", a.Pos(), okDNS, "")
					}
					continue
				}
				ok := strings.Contains(peer, "NamespaceSelector: &v1.LabelSelector{MatchLabels: map{"+nsLabel+": kube.lidNS(p:b.lid)}}") ||
					(strings.Contains(peer, `NamespaceSelector: &v1.LabelSelector{MatchLabels: map{"app.kubernetes.io/name": "ingress-nginx"}}`) && strings.Contains(peer, `PodSelector: &v1.LabelSelector{MatchLabels: map{"app.kubernetes.io/name": "ingress-nginx"}}`))
				c.Ob("R5", "network policy peer #"+itoa(npeer)+" is the lease namespace or the ingress controller", a.Pos(), ok, "peer "+short(peer))
			}
			// DNS port constants
			dp, dproto := "", ""
			for _, g := range c.L.SPkg(kubePkg).Members {
				if gv, ok := g.(*ssa.Global); ok && (gv.Name() == "dnsPort" || gv.Name() == "dnsProtocol") {
					_ = gv
				}
			}
			init := c.L.SPkg(kubePkg).Func("init")
			if init != nil {
				eachInstr(init, func(i ssa.Instruction) {
					if st, ok := i.(*ssa.Store); ok {
						switch Sym(st.Addr) {
						case "g:kube.dnsPort":
							dp = Sym(st.Val)
						case "g:kube.dnsProtocol":
							dproto = Sym(st.Val)
						}
					}
				})
			}
			c.Ob("R5", "the DNS rule's port and protocol are 53/UDP", a.Pos(), strings.Contains(dp, "(53)") && strings.Contains(dproto, `"UDP"`), dp+" "+dproto)
		} else {
			sel := ""
			if v, ok := f["Spec.PodSelector.MatchLabels"]; ok {
				sel = Sym(v)
			}
			c.Ob("R5", "per-service policy selects only that service's pods", a.Pos(), strings.Contains(sel, svcLabel+": ") && strings.Contains(sel, ".Name"), "selector "+short(sel))
			ing := nrm(Sym(f["Spec.Ingress"]))
			c.Ob("R5", "per-service policy only opens ports (no peer restriction needed, no other rule)", a.Pos(), strings.HasPrefix(ing, "[v1.NetworkPolicyIngressRule{Ports: ") && !strings.Contains(ing, "From:"), short(ing))
		}
	}
	if npeer < 5 {
		c.Fail("C11-R5 lost instances: %d peers", npeer)
	}
	c.Ob("R5", "a default policy and a per-service policy are generated", np.Pos(), npol == 2, "policies: "+itoa(npol))
	// ports appended only for global, non-ingress exposes; accumulator per service
	var app *ssa.Call
	for _, call := range callsIn(np, false) {
		if calleeFull(call) == "builtin.append" && strings.Contains(call.Common().Args[0].Type().String(), "NetworkPolicyPort") {
			app = call.(*ssa.Call)
		}
	}
	if app == nil {
		c.Ob("R5", "per-service ports are collected", np.Pos(), false, "")
		return
	}
	glob, notIng := false, false
	extra := 0
	h := loopHeaderOf(app.Block())
	for _, a := range factsAt(app.Block()) {
		s := Sym(a.X)
		switch {
		case a.Op == "true" && strings.HasSuffix(s, ".Global"):
			glob = true
		case a.Op == "false":
			if cv, _ := callOf(a.X); cv != nil && calleeMethod(cv) == "ShouldBeIngress" {
				notIng = true
			}
		default:
			if a.If != nil && h != nil && a.If.Block() != h && domSame(h, a.If.Block()) {
				extra++
			}
		}
	}
	c.Ob("R5", "a port is opened to outside traffic only for a global expose that is not served by the ingress controller", app.Pos(), glob && notIng, "ports of non-global exposes are opened from outside the namespace")
	// accumulator allocated in the per-service loop
	outer := (*ssa.BasicBlock)(nil)
	if h != nil {
		outer = loopHeaderOf(h.Idom())
	}
	var roots []ssa.Instruction
	seen := map[ssa.Value]bool{}
	var walk func(v ssa.Value)
	walk = func(v ssa.Value) {
		if seen[v] {
			return
		}
		seen[v] = true
		switch x := v.(type) {
		case *ssa.Phi:
			for _, e := range x.Edges {
				walk(e)
			}
		case *ssa.Call:
			if calleeFull(x) == "builtin.append" {
				walk(x.Call.Args[0])
			}
		case *ssa.MakeSlice:
			roots = append(roots, x)
		case *ssa.Slice:
			if a, ok := x.X.(*ssa.Alloc); ok {
				roots = append(roots, a)
			}
		}
	}
	walk(app.Call.Args[0])
	ok := len(roots) > 0 && outer != nil
	for _, r := range roots {
		if loopHeaderOf(r.Block()) != outer {
			ok = false
		}
	}
	if outer == nil && len(roots) > 0 && isNewFunc(app.Parent()) {
		// the per-service body was moved into a new helper: the list is allocated once per call of the helper
		// (outside the helper's own loop) and the helper is called from inside the per-service loop
		ok = true
		for _, r := range roots {
			if r.Parent() != app.Parent() || loopHeaderOf(r.Block()) != nil {
				ok = false
			}
		}
		site := transparentSite(app.Parent())
		if site == nil || loopHeaderOf(site.Block()) == nil {
			ok = false
		}
	}
	c.Ob("R5", "the opened-port list starts empty for every service", app.Pos(), ok, "the port list is allocated outside the per-service loop: ports of earlier services leak into later services' policies")
}

// resourceListRole: "Limits" / "Requests" if the map value m (or the local it lives in) is stored into a field of
// that name in fn; "" if not found or ambiguous.
func resourceListRole(fn *ssa.Function, m ssa.Value) string {
	// read straight out of the Limits / Requests field of a struct
	if ld, ok := m.(*ssa.UnOp); ok {
		if fa, isFA := ld.X.(*ssa.FieldAddr); isFA {
			if f := fieldName(fa.X.Type(), fa.Field); f == "Limits" || f == "Requests" {
				return f
			}
		}
	}
	same := func(v ssa.Value) bool {
		if v == m {
			return true
		}
		// two loads of the same single-assignment local
		lu, ok1 := v.(*ssa.UnOp)
		mu, ok2 := m.(*ssa.UnOp)
		if ok1 && ok2 && lu.X == mu.X {
			return true
		}
		// the local's stored value
		if ok2 {
			if a, isA := mu.X.(*ssa.Alloc); isA {
				if st := singleStore(a); st != nil && st == v {
					return true
				}
			}
		}
		if ok1 {
			if a, isA := lu.X.(*ssa.Alloc); isA {
				if st := singleStore(a); st != nil && st == m {
					return true
				}
			}
		}
		return false
	}
	role := ""
	eachInstr(fn, func(i ssa.Instruction) {
		st, ok := i.(*ssa.Store)
		if !ok || !same(st.Val) {
			return
		}
		if fa, isFA := st.Addr.(*ssa.FieldAddr); isFA {
			f := fieldName(fa.X.Type(), fa.Field)
			if f == "Limits" || f == "Requests" {
				if role != "" && role != f {
					role = "?"
				} else if role == "" {
					role = f
				}
			}
		}
	})
	if role == "?" {
		return ""
	}
	return role
}

// leaseNamespaceRule: the namespace a lease's workloads live in is a hash of the lease id's string, and that string
// covers all five id fields (shared by C11-R4 and C09-R4: the gateway scopes a tenant's requests by it).
func (c *Check) leaseNamespaceRule(rule string) {
	l := c.L
	ln := l.Func(kubePkg, "", "lidNS")
	{
		s := ""
		for _, r := range successReturns(ln) {
			s = Sym(r.Results[0])
		}
		hashed := ""
		eachInstr(ln, func(i ssa.Instruction) {
			if st, ok := i.(*ssa.Store); ok && Sym(st.Addr) == "&local:sha" {
				hashed = Sym(st.Val)
			}
		})
		exact := strings.HasPrefix(s, "strings.ToLower(base32.Encoding.EncodeToString(base32.Encoding.WithPadding(*g:base32.HexEncoding, -1), &local:sha[:]))") && hashed == "sha256.Sum224(conv:[]byte(types.LeaseID.String(p:lid)))"
		if exact {
			c.Ob(rule, "lease namespace = lower(base32hex-nopad(sha224(lease id)))", ln.Pos(), true, "")
		} else {
			// another assembly of the same thing (streaming hasher, Encode into a buffer, helpers): what must hold is
			// that the text fed to the hash is the full lease id and that the digest is not cut short; the encoding
			// chain between digest and result is then not judged
			var inputs []ssa.Value
			truncated := false
			eachInstrDeep(ln, func(i ssa.Instruction) {
				switch x := i.(type) {
				case *ssa.Slice:
					if x.Low != nil || x.High != nil {
						truncated = true
					}
				case *ssa.Call:
					if g := x.Call.StaticCallee(); g != nil && strings.HasPrefix(fnPkgPath(g), "crypto/") && len(x.Call.Args) == 1 {
						if _, isSl := x.Call.Args[0].Type().Underlying().(*types.Slice); isSl {
							inputs = append(inputs, x.Call.Args[0])
						}
					}
					if x.Call.IsInvoke() && x.Call.Method.Name() == "Write" && strings.HasSuffix(x.Call.Value.Type().String(), "hash.Hash") && len(x.Call.Args) == 1 {
						inputs = append(inputs, x.Call.Args[0])
					}
				}
			})
			// a Kubernetes namespace is a DNS label: at most 63 characters. Where the length of the result can be bounded
			// from its construction (constants, decimal numbers, encodings of fixed-size digests) it must fit.
			tooLong := 0
			for _, r := range successReturns(ln) {
				if n := maxStringLen(r.Results[0], 0); n > 63 {
					tooLong = n
				}
			}
			switch {
			case tooLong > 0:
				c.Ob(rule, "lease namespace fits a DNS label (63 characters)", ln.Pos(), false, "lidNS can return "+itoa(tooLong)+" characters: Kubernetes refuses the namespace (and every label and policy that carries it) for such a lease")
			case len(inputs) == 0:
				c.Ob(rule, "lease namespace is derived from a hash of the lease id", ln.Pos(), false, "lidNS feeds nothing to a hash: "+short(s))
			case truncated:
				c.Ob(rule, "the digest of the lease id is used whole", ln.Pos(), false, "lidNS cuts a slice short: part of the digest (or of the id text) is dropped and distinct leases can share a namespace")
			default:
				bad, undec := "", false
				for _, in := range inputs {
					tpl, ok := canonExpand(ln, stripConv(in), 0)
					if !ok {
						undec = true
					} else if tpl != "<Owner>/<DSeq>/<GSeq>/<OSeq>/<Provider>" {
						bad = tpl
					}
				}
				if bad != "" {
					c.Ob(rule, "lease namespace = hash of the full lease id", ln.Pos(), false, "the text hashed is "+bad+": leases that differ in a field left out share one namespace")
				} else if undec || len(inputs) != 1 {
					c.Info(rule, "lidNS: hashed text not recognised, not decided", ln.Pos(), short(s)+" over "+hashed)
				} else {
					c.Info(rule, "lidNS: hashes the full lease id; encoding chain not recognised, not decided", ln.Pos(), short(s))
				}
			}
		}
	}
	// the text that is hashed names every field of the lease id, each once, in a fixed order: read as a template from
	// however the String() methods assemble it (Sprintf, concatenation, the String() of a projection)
	{
		f := l.Func("x/market/types", "LeaseID", "String")
		tpl, ok := canonString(f, 0)
		if !ok {
			c.Info(rule, "LeaseID.String(): form not recognised, field coverage not decided", f.Pos(), "")
		} else {
			c.Ob(rule, "LeaseID.String() names owner, dseq, gseq, oseq and provider", f.Pos(), tpl == "<Owner>/<DSeq>/<GSeq>/<OSeq>/<Provider>", "the lease id is rendered as "+tpl+": leases that differ in a field left out (or merged without a separator) share one namespace")
		}
	}

}

// exactGroupNames: the chain, the manifest validation and the duplicate-name checks compare group names exactly, so
// "web" and "WEB" are two groups. Wherever the provider picks a manifest group or a reservation by name it must
// compare exactly too: a case-insensitive match hands a lease the workloads (and limits) of another group.
func (c *Check) exactGroupNames(rule string) {
	l := c.L
	n := 0
	for _, rel := range []string{"provider/event", "provider/cluster", "provider/manifest", "validation"} {
		for _, fn := range l.pkgFuncs(rel) {
			for _, call := range callsInOwn(fn) {
				full := calleeFull(call)
				if full != "strings.EqualFold" && full != "strings.ToLower" && full != "strings.ToUpper" {
					continue
				}
				for _, a := range call.Common().Args {
					s := Sym(a)
					if strings.HasSuffix(s, ".Name") || strings.Contains(s, "GetName(") {
						n++
						c.Ob(rule, "group names are compared exactly in "+fnName(fn), call.Pos(), false, full+" on "+short(s)+": names that differ only in case are distinct groups on chain; matching them here deploys / reserves for the wrong group")
					}
				}
			}
		}
	}
	c.Ob(rule, "no case-insensitive comparison of group names on the provider side", l.Func("provider/event", "ManifestReceived", "ManifestGroup").Pos(), n == 0, "")
}

// maxStringLen: an upper bound of the length of the string v, or -1 when its construction is not understood.
func maxStringLen(v ssa.Value, d int) int {
	if d > 10 {
		return -1
	}
	switch x := v.(type) {
	case *ssa.Const:
		if s, ok := strConst(x); ok {
			return len(s)
		}
	case *ssa.BinOp:
		if x.Op == token.ADD {
			a, b := maxStringLen(x.X, d+1), maxStringLen(x.Y, d+1)
			if a >= 0 && b >= 0 {
				return a + b
			}
		}
	case *ssa.Phi:
		m := 0
		for _, e := range x.Edges {
			n := maxStringLen(e, d+1)
			if n < 0 {
				return -1
			}
			if n > m {
				m = n
			}
		}
		return m
	case *ssa.UnOp:
		if al, ok := x.X.(*ssa.Alloc); ok {
			if sv := singleStore(al); sv != nil {
				return maxStringLen(sv, d+1)
			}
		}
	case *ssa.Call:
		full := calleeFull(x)
		a := x.Call.Args
		switch {
		case (full == "strings.ToLower" || full == "strings.ToUpper" || full == "strings.TrimSpace") && len(a) == 1:
			return maxStringLen(a[0], d+1)
		case full == "strconv.FormatUint" || full == "strconv.FormatInt" || full == "strconv.Itoa":
			if len(a) == 2 {
				if k, ok := constInt(a[1]); !ok || k != 10 {
					return 64 // a smaller base needs up to 64 digits
				}
			}
			return 20
		case strings.HasSuffix(full, "Encoding).EncodeToString") || full == "encoding/hex.EncodeToString":
			src := a[len(a)-1]
			if sl, ok := src.(*ssa.Slice); ok && sl.Low == nil && sl.High == nil {
				if al, ok := sl.X.(*ssa.Alloc); ok {
					if at, ok := al.Type().(*types.Pointer).Elem().Underlying().(*types.Array); ok {
						n := int(at.Len())
						switch {
						case strings.Contains(full, "base32"):
							if rs := Sym(a[0]); strings.Contains(rs, "WithPadding(") && strings.HasSuffix(strings.TrimRight(rs, ")"), "-1") {
								return (n*8 + 4) / 5 // no padding
							}
							return (n + 4) / 5 * 8
						case strings.Contains(full, "base64"):
							return (n + 2) / 3 * 4
						default:
							return 2 * n
						}
					}
				}
			}
		}
	}
	return -1
}
