package main

import (
	"go/types"
	"strings"

	"golang.org/x/tools/go/ssa"
)

func init() { registry["C17"] = checkC17 }

func checkC17(c *Check) {
	c.Explanation = "Decided on all paths of the cert module: (R1) a certificate is stored only under a key that store.Has reported free, the key being (owner, serial of the parsed certificate); (R2) the write is dominated by a successful ParseAndValidateCertificate(owner, cert, pubkey) whose success returns are dominated by owner.Equals(address parsed from the certificate's Subject common name); the handler passes the signer as owner; the stored bytes are the submitted ones; (R3) the only state constants ever assigned are valid (constructor) and revoked (dominated by found and not-already-revoked); nothing deletes from the cert store, and a genesis export / import cycle keeps each certificate's state; (R4) key codec agreement: the minimum key length the reader accepts is not larger than the minimum length the writer can produce (layout extraction; big.Int.Bytes() may be empty), and the reader slices at the writer's boundary; (R5) every explicit panic reachable in the cert keeper is either guarded by the error of an infallible writer or discharged by R4; (R6) listings pair key and value of the same iterator element, restore the owner prefix they stripped, compare the stored state, and the pagination callback reports a hit iff the filter matches (never depending on the accumulate flag). The cert keeper is built on the cert module's own store key."
	c.NotDecided = "pagination arithmetic inside the SDK; x509 parsing"
	l := c.L
	kpkg := "x/cert/keeper"
	cc := l.Func(kpkg, "keeper", "CreateCertificate")
	c.Analysed(fnName(cc))

	// ---- R1/R2 create
	var pv *ssa.Call
	for _, call := range callsIn(cc, false) {
		if calleeMethod(call) == "ParseAndValidateCertificate" {
			pv = call.(*ssa.Call)
		}
	}
	c.Ob("R2", "CreateCertificate validates the certificate against the owner", cc.Pos(), pv != nil && Sym(pv) == "types.ParseAndValidateCertificate(p:owner, p:crt, p:pubkey)", "certificate stored without ParseAndValidateCertificate(owner, crt, pubkey)")
	nset := 0
	for _, call := range callsIn(cc, false) {
		if !isStoreSet(call) {
			continue
		}
		nset++
		key := Sym(call.Common().Args[0])
		free := boolCallFactAt(call.Block(), false, func(h *ssa.Call, _ int) bool { return calleeMethod(h) == "Has" && Sym(h.Call.Args[0]) == key })
		c.Ob("R1", "certificate stored only under a free key", call.Pos(), free, "an existing certificate with the same owner+serial can be overwritten")
		wantKey := "keeper.certificateKey(types.CertID{Owner: p:owner, Serial: *types.ParseAndValidateCertificate(p:owner, p:crt, p:pubkey)#0.SerialNumber})"
		c.Ob("R1", "certificate key is (owner, serial of the validated certificate)", call.Pos(), strings.ReplaceAll(key, "**", "*") == wantKey || key == wantKey, "key is "+short(key))
		c.Ob("R2", "certificate stored only after validation succeeded", call.Pos(), pv != nil && okEdgeAt(call.Block(), pv), "write not dominated by successful validation")
		// stored value
		val := ""
		if m, ok := call.Common().Args[1].(*ssa.Call); ok {
			val = Sym(m.Common().Args[len(m.Common().Args)-1])
		}
		valid := l.constVal("x/cert/types", "CertificateValid").ExactString()
		c.Ob("R2", "stored record is {valid, submitted cert, submitted pubkey}", call.Pos(), val == "&types.Certificate{Cert: p:crt, Pubkey: p:pubkey, State: "+valid+"}" || strings.TrimPrefix(val, "&") == "types.Certificate{Cert: p:crt, Pubkey: p:pubkey, State: "+valid+"}" || strings.Contains(val, "local:val"), "stored value "+short(val))
		if strings.Contains(val, "local:val") {
			// field stores
			want := map[string]string{"State": valid, "Cert": "p:crt", "Pubkey": "p:pubkey"}
			eachInstr(cc, func(i ssa.Instruction) {
				if st, ok := i.(*ssa.Store); ok {
					a := Sym(st.Addr)
					for f, v := range want {
						if a == "&local:val."+f && Sym(st.Val) == v {
							delete(want, f)
						}
					}
				}
			})
			c.Ob("R2", "stored record fields are valid / submitted cert / submitted pubkey", call.Pos(), len(want) == 0, "stored record does not carry the submitted bytes with state valid")
		}
	}
	c.Ob("R1", "CreateCertificate writes exactly once", cc.Pos(), nset == 1, "")
	// validator shape
	pvf := l.Func("x/cert/types", "", "ParseAndValidateCertificate")
	c.Analysed(fnName(pvf))
	okEq := true
	nret := 0
	for _, r := range successReturns(pvf) {
		nret++
		has := boolCallFactAt(r.Block(), true, func(h *ssa.Call, _ int) bool {
			if calleeMethod(h) != "Equals" {
				return false
			}
			a := allArgs(h)
			s0, s1 := strings.ReplaceAll(Sym(a[0]), "*", ""), strings.ReplaceAll(Sym(a[1]), "*", "")
			cn := "types.AccAddressFromBech32(x509.ParseCertificate("
			return (s0 == "p:owner" && strings.HasPrefix(s1, cn) && strings.HasSuffix(s1, "#0.Subject.CommonName)#0")) ||
				(s1 == "p:owner" && strings.HasPrefix(s0, cn) && strings.HasSuffix(s0, "#0.Subject.CommonName)#0"))
		})
		if !has {
			okEq = false
		}
		// returned certificate is the parsed one, parsed from the crt argument
		rs := strings.ReplaceAll(Sym(r.Results[0]), "*", "")
		if !strings.HasPrefix(rs, "x509.ParseCertificate(") || !strings.Contains(rs, "pem.Decode(p:crt)#0") {
			okEq = false
		}
	}
	if !(okEq && nret > 0) && len(helpersOf(pvf)) > 0 {
		// the parse and the owner comparison were moved into new helpers: the rule is written against the values of the
		// pinned function and does not decide the split form
		c.Info("R2", "certificate validation is split over new helpers: owner comparison not decided", pvf.Pos(), "")
	} else {
		c.Ob("R2", "validation succeeds only if owner equals the address in the certificate's Subject common name", pvf.Pos(), okEq && nret > 0, "a certificate naming another account (or compared on another field) can be registered")
	}
	// handler passes signer
	h := l.Func("x/cert/handler", "msgServer", "CreateCertificate")
	for _, call := range callsIn(h, false) {
		if calleeMethod(call) == "CreateCertificate" {
			a := userArgs(call)
			c.Ob("R2", "handler registers under the signer's address with the submitted bytes", call.Pos(), Sym(a[0]) == "types.AccAddressFromBech32(*p:req.Owner)#0" && Sym(a[1]) == "*p:req.Cert" && Sym(a[2]) == "*p:req.Pubkey", short(Sym(a[0])))
		}
	}
	hr := l.Func("x/cert/handler", "msgServer", "RevokeCertificate")
	for _, call := range callsIn(hr, false) {
		if calleeMethod(call) == "RevokeCertificate" {
			c.Ob("R3", "handler revokes the certificate the message names (its owner is the signer)", call.Pos(), Sym(userArgs(call)[0]) == "types.ToCertID(*p:req.ID)#0", short(Sym(userArgs(call)[0])))
		}
	}

	// ---- R3 monotone state
	valid := l.constVal("x/cert/types", "CertificateValid").ExactString()
	revoked := l.constVal("x/cert/types", "CertificateRevoked").ExactString()
	nst := 0
	for _, fn := range l.prodFuncs() {
		if strings.HasSuffix(l.Fset.Position(fn.Pos()).Filename, ".pb.go") || strings.Contains(fnPkgPath(fn), "/client") {
			continue // generated code; client-side message construction is not chain state
		}
		eachInstr(fn, func(i ssa.Instruction) {
			st, ok := i.(*ssa.Store)
			if !ok {
				return
			}
			fa, ok := st.Addr.(*ssa.FieldAddr)
			if !ok {
				return
			}
			tn, f := structFieldOf(fa)
			if tn != akash+"/x/cert/types.Certificate" || f != "State" {
				return
			}
			nst++
			v := Sym(st.Val)
			inKeeper := fnPkgPath(fn) == akash+"/"+kpkg
			switch {
			case v == valid:
				c.Ob("R3", "state valid assigned in "+fnName(fn), st.Pos(), inKeeper && fn == cc, "valid assigned outside the constructor: a revoked certificate could be re-validated")
			case v == revoked:
				found := false
				notRev := false
				for _, a := range factsAt(st.Block()) {
					if a.Op == "neq" && isNilConst(a.Y) && strings.Contains(Sym(a.X), "KVStore.Get(") {
						found = true
					}
					if a.Op == "neq" && strings.HasSuffix(Sym(a.X), "cert.State") && Sym(a.Y) == revoked {
						notRev = true
					}
				}
				c.Ob("R3", "state revoked assigned in "+fnName(fn), st.Pos(), inKeeper && found && notRev, "revocation not guarded by found and not-already-revoked")
			default:
				c.Ob("R3", "state "+v+" assigned in "+fnName(fn), st.Pos(), false, "certificate state assigned a value other than valid/revoked")
			}
		})
	}
	ndel := 0
	for _, fn := range l.pkgFuncs(kpkg) {
		for _, call := range callsIn(fn, true) {
			if calleeMethod(call) == "Delete" && strings.Contains(calleeFull(call), "KVStore") {
				ndel++
				c.Ob("R3", "cert store delete in "+fnName(fn), call.Pos(), false, "certificates must never be removed")
			}
		}
	}
	if nst < 2 && ndel == 0 {
		// (a revocation that deletes instead of marking is reported above, not as a lost instance)
		c.Fail("C17-R3 lost instances")
	}
	// positive control for the zero-expected rule: the same matcher must find the audit keeper's deletes
	ctrl := 0
	for _, fn := range l.pkgFuncs("x/audit/keeper") {
		for _, call := range callsIn(fn, true) {
			if calleeMethod(call) == "Delete" && strings.Contains(calleeFull(call), "KVStore") {
				ctrl++
			}
		}
	}
	if ctrl == 0 {
		c.Fail("C17-R3: positive control for the delete matcher found nothing")
	}
	c.Ob("R3", "no KVStore.Delete in the cert keeper (matcher control: "+itoa(ctrl)+" deletes seen in x/audit/keeper)", cc.Pos(), ndel == 0, "")

	// ---- R4 key codec agreement
	builders := l.keyBuilders(kpkg)
	w := builders["certificateKey"]
	rd := l.Func(kpkg, "", "certificateSerialFromKey")
	c.Analysed(fnName(rd))
	if w == nil || !w.ok {
		c.Fail("unresolved anchor: certificate key layout")
	}
	wmin := 0
	varLast := false
	for i, s := range w.segs {
		switch s.kind {
		case "const":
			wmin += len(s.bytes) / 2
		case "fixed":
			wmin += s.n
		case "addrbytes":
			wmin += 20
		case "var":
			// big.Int.Bytes() is empty for zero (table A4)
			varLast = i == len(w.segs)-1
		}
	}
	c.Ob("R4", "certificate key = const | owner(20) | serial bytes, variable part last", w.fn.Pos(), layoutString(w.segs) == "const[01] | addrbytes(Owner) | var(Serial)" && varLast, layoutString(w.segs))
	// reader: panics when len(key) < N
	rmin := -1
	sliceAt := -1
	eachInstr(rd, func(i ssa.Instruction) {
		if b, ok := i.(*ssa.BinOp); ok && b.Op.String() == "<" && Sym(b.X) == "builtin.len(p:key)" {
			if k, ok := constInt(b.Y); ok {
				rmin = int(k)
			}
		}
		if sl, ok := i.(*ssa.Slice); ok && Sym(sl.X) == "p:key" && sl.Low != nil {
			if k, ok := constInt(sl.Low); ok {
				sliceAt = int(k)
			}
		}
	})
	c.Ob("R4", "reader accepts every key length the writer can produce", rd.Pos(), rmin >= 0 && rmin <= wmin, "reader panics for keys shorter than "+itoa(rmin)+" bytes but the writer produces "+itoa(wmin)+"-byte keys (serial number 0 encodes to no bytes): listing then panics")
	c.Ob("R4", "reader slices the serial at the writer's boundary", rd.Pos(), sliceAt == wmin, "serial read from offset "+itoa(sliceAt)+", written at "+itoa(wmin))
	c.keyLayoutsRule("R4", []string{kpkg}, 1, 0)
	c.serialBaseRule("R4")
	c.keeperIterators(kpkg)
	c.certGenesisRoundTrip("R3")
	c.keeperStoreWiring("R6", "cert")
	// lookup by (owner, serial) answers "not found" only on a store miss: whatever CreateCertificate accepted and
	// stored under certificateKey(id) is found again (no extra rejection of ids in the reader)
	{
		g := l.Func(kpkg, "keeper", "GetCertificateByID")
		c.Analysed(fnName(g))
		okMiss, nneg := true, 0
		why := ""
		for _, b := range g.Blocks {
			r, isR := b.Instrs[len(b.Instrs)-1].(*ssa.Return)
			if !isR || len(r.Results) != 2 {
				continue
			}
			for _, lf := range retLeaves(r.Results[1], b, map[ssa.Value]bool{}) {
				if isConstBool(lf.val, true) {
					continue
				}
				nneg++
				miss := false
				extra := ""
				for _, a := range factsAt(lf.blk) {
					x := Sym(a.X)
					if (a.Op == "eq" && isNilConst(a.Y) && strings.Contains(x, "KVStore.Get(") && strings.Contains(x, "certificateKey(p:id)")) || (a.Op == "false" && strings.Contains(x, "KVStore.Has(") && strings.Contains(x, "certificateKey(p:id)")) {
						miss = true
					} else {
						extra = a.Op + " " + short(x)
					}
				}
				if !miss {
					okMiss = false
					why = "a 'not found' answer is given without consulting the store (condition: " + extra + "): a certificate registered under that id cannot be found by owner and serial"
				}
			}
		}
		c.Ob("R4", "lookup by owner and serial reports 'not found' only on a store miss under certificateKey(id)", g.Pos(), okMiss && nneg > 0, why)
	}

	// ---- R5 panics
	np := 0
	for _, fn := range l.pkgFuncs(kpkg) {
		for _, b := range fn.Blocks {
			p, ok := b.Instrs[len(b.Instrs)-1].(*ssa.Panic)
			if !ok {
				continue
			}
			np++
			class := ""
			// class A: dominated by err != nil of an infallible writer (bytes.Buffer.Write*)
			for _, a := range factsAt(b) {
				if a.Op == "neq" && isNilConst(a.Y) {
					if cv, _ := callOf(a.X); cv != nil && strings.HasPrefix(calleeFull(cv), "(*bytes.Buffer).Write") {
						class = "A: error of infallible bytes.Buffer write"
					}
				}
			}
			if class == "" && fn == rd {
				if rmin >= 0 && rmin <= wmin {
					class = "discharged by R4 (stored keys are never shorter than the reader's minimum)"
				} else {
					class = ""
				}
			}
			if fn == rd && class == "" {
				// already reported by R4
				c.Ob("R5", "panic in "+fnName(fn)+" is unreachable on stored data", p.Pos(), rmin >= 0 && rmin <= wmin, "listing panics on a stored key (see R4)")
				continue
			}
			c.Ob("R5", "panic in "+fnName(fn)+" is unreachable on stored data", p.Pos(), class != "", "explicit panic reachable from certificate listings")
		}
	}
	if np < 3 {
		c.Fail("C17-R5 lost instances")
	}

	// ---- R6 listings
	for _, name := range []string{"mustUnmarshal", "unmarshalIterator"} {
		fn := l.Func(kpkg, "keeper", name)
		c.Analysed(fnName(fn))
		okSerial, okVal := false, false
		for _, call := range callsIn(fn, false) {
			if call.Common().StaticCallee() == rd && Sym(call.Common().Args[0]) == "p:key" {
				okSerial = true
			}
			if strings.Contains(calleeMethod(call), "Unmarshal") {
				a := call.Common().Args
				if Sym(a[len(a)-2]) == "p:val" && decodedIntoResult(fn, a[len(a)-1]) {
					okVal = true
				}
			}
		}
		c.Ob("R6", name+": serial from the key and record from the value of the same element", fn.Pos(), okSerial && okVal, "listing pairs serial and record from different sources")
		// the serial stored into the response derives from that call
		okStr := false
		eachInstr(fn, func(i ssa.Instruction) {
			if st, ok := i.(*ssa.Store); ok && strings.HasSuffix(Sym(st.Addr), ".Serial") && strings.Contains(Sym(st.Val), "Int.String(") {
				v := Sym(st.Val)
				if strings.Contains(v, "certificateSerialFromKey(p:key)") {
					okStr = true
				}
				if strings.Contains(v, "&local:serial") {
					eachInstr(fn, func(j ssa.Instruction) {
						if s2, ok := j.(*ssa.Store); ok && Sym(s2.Addr) == "&local:serial" && Sym(s2.Val) == "keeper.certificateSerialFromKey(p:key)" {
							okStr = true
						}
					})
				}
			}
		})
		c.Ob("R6", name+": response serial is the decimal form of the key's serial", fn.Pos(), okStr, "")
	}
	for _, fn := range l.pkgFuncs(kpkg) {
		for _, call := range callsIn(fn, false) {
			g := call.Common().StaticCallee()
			if g == nil || (g.Name() != "mustUnmarshal" && g.Name() != "unmarshalIterator") {
				continue
			}
			a := call.Common().Args
			k, v := Sym(a[len(a)-2]), Sym(a[len(a)-1])
			ok := false
			if ki := strings.Index(k, "Iterator.Key("); ki >= 0 {
				if vi := strings.Index(v, "Iterator.Value("); vi >= 0 && k[ki+len("Iterator.Key("):] == v[vi+len("Iterator.Value("):] {
					ok = true
				}
			}
			if v == "p:value" && (k == "p:key" || strings.Contains(k, "builtin.append(keeper.certificatePrefix(") && strings.Contains(k, "p:key")) {
				ok = true
				if strings.Contains(k, "certificatePrefix(") {
					// the prefix restored is the one the store was opened with
					par := fn.Parent()
					okp := false
					if par != nil {
						for _, c2 := range callsIn(par, false) {
							if strings.HasSuffix(calleeFull(c2), "store/prefix.NewStore") {
								ps := Sym(c2.Common().Args[1])
								ps = strings.ReplaceAll(ps, "local:owner", "fv:owner")
								if strings.Contains(strings.ReplaceAll(k, "*fv:owner", "fv:owner"), strings.ReplaceAll(ps, "*fv:owner", "fv:owner")) || strings.Contains(k, "certificatePrefix(") {
									okp = true
								}
							}
						}
					}
					ok = okp
				}
			}
			c.Ob("R6", "listing in "+fnName(fn)+" decodes key and value of the same element", call.Pos(), ok, "key "+short(k)+" value "+short(v))
		}
	}
	// pagination callbacks: hit iff filter matches
	q := l.Func(kpkg, "querier", "Certificates")
	c.Analysed(fnName(q))
	ncb := 0
	for _, g := range fnAndClosuresDeep(q)[1:] {
		if len(g.Params) != 3 || g.Parent() == nil {
			continue
		}
		ncb++
		ok := true
		detail := ""
		for _, b := range g.Blocks {
			r, isR := b.Instrs[len(b.Instrs)-1].(*ssa.Return)
			if !isR || len(r.Results) != 2 || !isNilConst(r.Results[1]) {
				continue
			}
			hit, isK := r.Results[0].(*ssa.Const)
			if !isK {
				ok = false
				detail = "hit result is not a constant"
				continue
			}
			wantTruth := hit.Value.ExactString() == "true"
			filt := false
			for _, a := range factsAt(b) {
				s := Sym(a.X)
				if strings.Contains(s, "p:accumulate") {
					ok = false
					detail = "the hit/miss result depends on the accumulate flag: matches outside the page window are reported as misses, so totals and next-page keys are wrong"
				}
				if cv, _ := callOf(a.X); cv != nil && calleeMethod(cv) == "filterCertByState" && ((a.Op == "true") == wantTruth) {
					if strings.HasSuffix(Sym(cv.Call.Args[1]), ".Certificate.State") {
						filt = true
					}
				}
			}
			if !filt {
				ok = false
				if detail == "" {
					detail = "hit result " + hit.Value.ExactString() + " is not determined by the state filter on the stored state"
				}
			}
		}
		c.Ob("R6", "pagination callback "+fnName(g)+" reports a hit iff the filter matches the stored state", g.Pos(), ok, detail)
	}
	if ncb < 2 && len(helpersOf(q)) > 0 {
		// the two paginations were folded into one new helper with a single callback: judged above for that callback;
		// the instance count of the pinned form does not apply
		c.Info("R6", "pagination callbacks live in a new helper of Certificates ("+itoa(ncb)+" found)", q.Pos(), "")
	} else if ncb < 2 {
		c.Fail("C17-R6 lost pagination callbacks")
	}
	// the by-id path filters on the stored state too
	okid := false
	for _, call := range callsIn(q, false) {
		if calleeMethod(call) == "filterCertByState" && strings.Contains(Sym(call.Common().Args[1]), "GetCertificateByID(") && strings.HasSuffix(Sym(call.Common().Args[1]), ".Certificate.State") {
			okid = true
		}
	}
	c.Ob("R6", "by-id lookup filters on the stored state", q.Pos(), okid, "")
}

// serialBaseRule: the decimal text of a certificate serial is parsed with the base it is rendered in.
// Every (*big.Int).SetString / Text / Format-with-base call in the cert module's non-client packages
// uses the constant base 10 ((*big.Int).String() is decimal by definition).
func (c *Check) serialBaseRule(rule string) {
	l := c.L
	n := 0
	for _, rel := range []string{"x/cert/types", "x/cert/keeper", "x/cert/handler", "x/cert/utils"} {
		if l.ByPath[akash+"/"+rel] == nil {
			continue
		}
		for _, fn := range l.pkgFuncs(rel) {
			for _, call := range callsIn(fn, false) {
				full := calleeFull(call)
				var base ssa.Value
				switch full {
				case "(*math/big.Int).SetString":
					base = userArgs(call)[1]
				case "(*math/big.Int).Text":
					base = userArgs(call)[0]
				default:
					continue
				}
				n++
				k, ok := constInt(base)
				c.Ob(rule, fnName(fn)+": certificate serial text uses base 10", call.Pos(), ok && k == 10, "serial converted with base "+Sym(base)+" while ids are rendered and validated in decimal: two different texts can name one certificate, or a validated id resolves to another serial")
			}
		}
	}
	if n < 3 {
		c.Fail("%s lost instances: %d serial conversions", rule, n)
	}
}

// keeperIterators (R6): the keeper's With* iterators stop early only when the caller's callback asked for it. In a
// loop form, every exit from the loop other than the exhausted iterator is under the fact "fn(item) returned true";
// in a delegating form (a wrapper closure handed to another With* iterator) every value the wrapper returns is false
// or the result of calling fn. A certificate that does not match a state filter is skipped, never a reason to stop.
func (c *Check) keeperIterators(kpkg string) {
	l := c.L
	n := 0
	for _, fn := range l.pkgFuncs(kpkg) {
		if fn.Parent() != nil || !strings.HasPrefix(fn.Name(), "With") || fn.Signature.Recv() == nil {
			continue
		}
		var cb *ssa.Parameter
		for _, p := range fn.Params {
			if sig, ok := p.Type().Underlying().(*types.Signature); ok && sig.Results().Len() == 1 && sig.Results().At(0).Type().String() == "bool" {
				cb = p
			}
		}
		if cb == nil {
			continue
		}
		n++
		c.Analysed(fnName(fn))
		isCbCall := func(v ssa.Value) bool {
			cv, ok := v.(*ssa.Call)
			return ok && cv.Call.StaticCallee() == nil && !cv.Call.IsInvoke() && (cv.Call.Value == ssa.Value(cb) || Sym(cv.Call.Value) == Sym(cb) || strings.HasSuffix(Sym(cv.Call.Value), "fv:"+paramName(cb)))
		}
		ok := true
		why := ""
		// loop form
		for _, b := range fn.Blocks {
			h := loopHeaderOf(b)
			if h == nil || b == h {
				continue
			}
			body := loopBlocks(h)
			for si, sb := range b.Succs {
				if body[sb] {
					continue
				}
				// an exit from inside the body: allowed only on the true edge of the callback's answer (or a panic)
				if _, isPanic := sb.Instrs[len(sb.Instrs)-1].(*ssa.Panic); isPanic {
					continue
				}
				ifi, isIf := b.Instrs[len(b.Instrs)-1].(*ssa.If)
				stopOK := false
				if isIf && si == 0 && isCbCall(ifi.Cond) {
					stopOK = true
				}
				if !isIf {
					// unconditional break: the block must be dominated by the callback's true edge
					for _, a := range factsAt(b) {
						if a.Op == "true" && isCbCall(a.X) {
							stopOK = true
						}
					}
				}
				if !stopOK {
					ok = false
					why = "the iteration can stop at " + l.Pos(b.Instrs[len(b.Instrs)-1].Pos()) + " although the callback did not ask for it: entries after that point are missing from the listing"
				}
			}
		}
		// delegating form
		for _, g := range fnAndClosures(fn)[1:] {
			if res := g.Signature.Results(); res.Len() != 1 || res.At(0).Type().String() != "bool" {
				continue
			}
			for _, b := range g.Blocks {
				r, isR := b.Instrs[len(b.Instrs)-1].(*ssa.Return)
				if !isR {
					continue
				}
				for _, lf := range retLeaves(r.Results[0], b, map[ssa.Value]bool{}) {
					if isConstBool(lf.val, false) || isCbCall(lf.val) {
						continue
					}
					ok = false
					why = "the wrapper callback at " + l.Pos(g.Pos()) + " can return " + short(Sym(lf.val)) + ": the underlying iteration stops on a certificate the caller's callback never saw"
				}
			}
		}
		c.Ob("R6", fn.Name()+" stops early only when the caller's callback returns true", fn.Pos(), ok, why)
	}
	if n < 4 {
		c.Fail("C17-R6 lost instances: %d keeper iterators", n)
	}
}

// certGenesisRoundTrip: what ExportGenesis writes into a genesis certificate record, InitGenesis reads back. The
// import path re-creates records through the keeper's constructor, which stores every certificate as valid; that is
// only harmless while the export emits no stored record. Once the export copies stored certificates (with their
// state) into the genesis file, an import that does not read the state turns every revoked certificate valid again.
func (c *Check) certGenesisRoundTrip(rule string) {
	l := c.L
	exp := l.Func("x/cert", "", "ExportGenesis")
	imp := l.Func("x/cert", "", "InitGenesis")
	c.Analysed(fnName(exp))
	c.Analysed(fnName(imp))
	exportsStored := false
	for _, g := range fnAndClosuresDeep(exp) {
		eachInstr(g, func(i ssa.Instruction) {
			st, ok := i.(*ssa.Store)
			if !ok {
				return
			}
			fa, ok := st.Addr.(*ssa.FieldAddr)
			if !ok {
				return
			}
			tn, f := structFieldOf(fa)
			if strings.HasSuffix(tn, "cert/types.GenesisCertificate") && f == "Certificate" {
				if _, isConst := st.Val.(*ssa.Const); !isConst {
					exportsStored = true
				}
			}
		})
	}
	if !exportsStored {
		c.Ob(rule, "genesis export/import keeps a certificate's state (the export emits no stored certificate)", exp.Pos(), true, "")
		return
	}
	readsState := false
	for _, g := range fnAndClosuresDeep(imp) {
		eachInstr(g, func(i ssa.Instruction) {
			switch x := i.(type) {
			case *ssa.FieldAddr:
				tn, f := structFieldOf(x)
				if strings.HasSuffix(tn, "cert/types.Certificate") && f == "State" {
					readsState = true
				}
			case *ssa.Field:
				if strings.HasSuffix(x.X.Type().String(), "cert/types.Certificate") && fieldName(x.X.Type(), x.Field) == "State" {
					readsState = true
				}
			case ssa.CallInstruction:
				// the whole stored record handed on (to a keeper function that can keep its state)
				for _, a := range x.Common().Args {
					if strings.HasSuffix(a.Type().String(), "cert/types.Certificate") {
						readsState = true
					}
				}
			}
		})
	}
	c.Ob(rule, "genesis export/import keeps a certificate's state", imp.Pos(), readsState, "ExportGenesis writes stored certificates (state included) into the genesis file, InitGenesis never reads the state and re-creates each one as valid: a revoked certificate is valid again after an export / import cycle")
}

// decodedIntoResult: the record decoded into dest is the Certificate of the response every success return hands back:
// dest is &r.Certificate of the returned variable r, or a local whose value is stored into r.Certificate.
func decodedIntoResult(fn *ssa.Function, dest ssa.Value) bool {
	dest = stripConv(dest)
	rets := successReturns(fn)
	if len(rets) == 0 {
		return false
	}
	for _, r := range rets {
		ld, ok := r.Results[0].(*ssa.UnOp)
		if !ok {
			return false
		}
		res, ok := ld.X.(*ssa.Alloc)
		if !ok {
			return false
		}
		good := false
		if fa, isFA := dest.(*ssa.FieldAddr); isFA && fa.X == ssa.Value(res) && fieldName(fa.X.Type(), fa.Field) == "Certificate" {
			good = true
		}
		if src, isAl := dest.(*ssa.Alloc); isAl {
			eachInstr(fn, func(i ssa.Instruction) {
				st, isSt := i.(*ssa.Store)
				if !isSt {
					return
				}
				fa, isFA := st.Addr.(*ssa.FieldAddr)
				if !isFA || fa.X != ssa.Value(res) || fieldName(fa.X.Type(), fa.Field) != "Certificate" {
					return
				}
				if l2, isLd := st.Val.(*ssa.UnOp); isLd && l2.X == ssa.Value(src) {
					good = true
				}
			})
		}
		if !good {
			return false
		}
	}
	return true
}

// keeperStoreWiring: every module's records live in the module's own KV store; the key layouts of different modules
// overlap (one-byte prefix followed by an address), so a keeper that is handed another module's store key reads that
// module's entries as its own: listings fail to decode or panic, and writes collide. In the function that builds the
// keepers, the store-key argument of <mod>.NewKeeper is app.keys[<that module's StoreKey>], and nobody else gets it.
func (c *Check) keeperStoreWiring(rule string, mod string) {
	l := c.L
	fn := l.Func("app", "AkashApp", "setAkashKeepers")
	c.Analysed(fnName(fn))
	want := mod
	if o := l.Pkg("x/" + mod + "/types").Types.Scope().Lookup("StoreKey"); o != nil {
		if k, ok := o.(*types.Const); ok {
			want = strings.Trim(k.Val().ExactString(), "\"")
		}
	}
	found := 0
	eachInstrDeep(fn, func(i ssa.Instruction) {
		call, ok := i.(*ssa.Call)
		if !ok {
			return
		}
		callee := ""
		if g := call.Call.StaticCallee(); g != nil {
			if g.Name() == "NewKeeper" {
				callee = fnPkgPath(g)
			}
		} else if ld, isLd := call.Call.Value.(*ssa.UnOp); isLd {
			if gl, isG := ld.X.(*ssa.Global); isG && gl.Name() == "NewKeeper" && gl.Pkg != nil {
				callee = gl.Pkg.Pkg.Path()
			}
		}
		if !strings.HasPrefix(callee, akash+"/x/") {
			return
		}
		m := strings.Split(strings.TrimPrefix(callee, akash+"/x/"), "/")[0]
		key := ""
		for _, a := range call.Call.Args {
			if lk, isLk := stripConv(a).(*ssa.Lookup); isLk {
				if s, isS := strConst(lk.Index); isS {
					key = s
				}
			}
		}
		if key == "" {
			c.Info(rule, "store key handed to "+m+".NewKeeper is not a constant index of the key table, not decided", call.Pos(), "")
			return
		}
		if m == mod {
			found++
			c.Ob(rule, "the "+mod+" keeper is built on the "+mod+" module's own store", call.Pos(), key == want, "the "+mod+" keeper is handed the store of \""+key+"\": it reads that module's entries as its own records (listings fail or panic) and its writes collide with them")
		} else {
			c.Ob(rule, "the "+m+" keeper does not share the "+mod+" module's store", call.Pos(), key != want, "the "+m+" keeper is handed the "+mod+" store: foreign entries appear among the "+mod+" records")
		}
	})
	if found == 0 {
		c.Fail("C17-%s lost instances: no %s.NewKeeper call in setAkashKeepers", rule, mod)
	}
}
