package main

import (
	"go/types"
	"strconv"
	"strings"

	"golang.org/x/tools/go/ssa"
)

func init() { registry["C01"] = checkC01 }

var bankMutators = map[string]bool{
	"SendCoins": true, "SendCoinsFromModuleToAccount": true, "SendCoinsFromAccountToModule": true,
	"SendCoinsFromModuleToModule": true, "MintCoins": true, "BurnCoins": true,
	"DelegateCoins": true, "UndelegateCoins": true, "DelegateCoinsFromAccountToModule": true,
	"UndelegateCoinsFromModuleToAccount": true, "SetBalance": true, "SetBalances": true,
	"AddCoins": true, "SubtractCoins": true, "InputOutputCoins": true, "SetSupply": true,
}

const escrowKeeperPkg = akash + "/x/escrow/keeper"
const escrowTypesPkg = akash + "/x/escrow/types"

func isBankMutatorCall(c ssa.CallInstruction) bool {
	m := calleeMethod(c)
	if !bankMutators[m] {
		return false
	}
	full := calleeFull(c)
	// receiver must be a bank keeper (SDK bank package or an interface named *BankKeeper*)
	return strings.Contains(full, "/x/bank/") || strings.Contains(full, "BankKeeper") || strings.Contains(full, "bankkeeper")
}

func checkC01(c *Check) {
	c.Explanation = "Ledger discipline behind conservation, decided for all call sites and all CFG paths: (R1) who-may-call — bank mutators are called only in x/escrow/keeper with the constant escrow module name; (R2) double entry at each of the send sites — the amount sent is the same SSA value as the amount credited/zeroed in the record, the record write sits on the ok-edge of the send and nothing is written before it; (R3) settlement helpers are pure and the settle core reaches the bank only through the payment withdraw helper; (R4) the four balance fields are stored only inside x/escrow/keeper and Save* is reachable only from genesis; (R5) the escrow module account has no mint/burn permission and is blocked from receiving external transfers; (R6) a record paid out or persisted after a settlement was loaded after that settlement (a stale copy written back would destroy the credit just booked). The genesis import order handed to the module manager names the escrow module."
	c.NotDecided = "the numeric identity sum(recorded balances) = module balance over histories (arithmetic of the settle helpers)"
	l := c.L
	modName := l.constVal("x/escrow/types", "ModuleName").ExactString()

	// ---- R1 who-may-call
	sites := 0
	for _, fn := range l.prodFuncs() {
		for _, call := range callsIn(fn, false) {
			c.CallSites++
			if !isBankMutatorCall(call) {
				continue
			}
			sites++
			inEscrow := fnPkgPath(fn) == escrowKeeperPkg
			c.Ob("R1", "bank-mutator-call in "+fnName(fn)+" -> "+calleeMethod(call), call.Pos(), inEscrow,
				"bank mutator called outside x/escrow/keeper: only the escrow keeper may move coins")
			if inEscrow {
				// module name argument must be the escrow module constant
				ok := false
				for _, a := range call.Common().Args {
					if k, isC := a.(*ssa.Const); isC && k.Value != nil && k.Value.ExactString() == modName {
						ok = true
					}
				}
				c.Ob("R1", "module-arg of "+calleeMethod(call)+" in "+fnName(fn), call.Pos(), ok,
					"module account argument is not the constant escrow ModuleName")
			}
		}
	}
	c.Floor("R1", 8)

	// ---- R2 double entry at the send sites
	kfuncs := l.pkgFuncs("x/escrow/keeper")
	nsend := 0
	for _, fn := range kfuncs {
		if isNewFunc(fn) && fn.Parent() == nil && len(l.callSitesOf(fn)) > 0 {
			continue // a new helper's sends are accounted with the pinned function that calls it
		}
		c.Analysed(fnName(fn))
		for _, call := range callsIn(fn, false) {
			if !isBankMutatorCall(call) {
				continue
			}
			nsend++
			switch calleeMethod(call) {
			case "SendCoinsFromAccountToModule":
				c.depositSite(fn, call.(*ssa.Call))
			case "SendCoinsFromModuleToAccount":
				c.withdrawSite(fn, call.(*ssa.Call))
			default:
				c.Ob("R2", "unknown-send-kind "+calleeMethod(call)+" in "+fnName(fn), call.Pos(), false, "bank mutator kind without a double-entry rule")
			}
		}
	}
	if nsend < 4 {
		c.Fail("C01-R2: only %d send sites (floor 4)", nsend)
	}

	// ---- R3 settlement is bank-free / helpers pure
	settle := l.settleCore()
	c.Analysed(fnName(settle))
	for _, call := range callsIn(settle, true) {
		c.Ob("R3", "settle-core direct bank call "+calleeMethod(call), call.Pos(), !isBankMutatorCall(call), "settle core moves coins directly")
	}
	// reach bank only through the payment withdraw helper
	pw := l.Func("x/escrow/keeper", "keeper", "paymentWithdraw")
	// static calls inside the escrow keeper package only: the hook lists invoked at the end of an
	// overdraft are other modules' reactions (they may close further escrow accounts) and are
	// subject to R1/R2 themselves.
	reach := l.staticReach(settle, func(f *ssa.Function) bool { return f != pw && fnPkgPath(f) == escrowKeeperPkg })
	for f, path := range reach {
		for _, call := range callsIn(f, false) {
			if isBankMutatorCall(call) {
				c.Ob("R3", "settle reaches bank via "+fnName(f), call.Pos(), false, "settlement reaches a bank mutator other than through the payment withdraw helper: "+pathString(path, f))
			}
		}
	}
	c.Ob("R3", "settle-core bank reach only via payment withdraw", settle.Pos(), true, "")
	nh := 0
	for _, fn := range kfuncs {
		if fn.Signature.Recv() != nil || fn.Parent() != nil || !strings.HasPrefix(fn.Name(), "accountSettle") {
			continue
		}
		nh++
		pure := true
		detail := ""
		for _, call := range callsIn(fn, true) {
			full := calleeFull(call)
			if strings.Contains(full, "KVStore") || isBankMutatorCall(call) || strings.Contains(full, "keeper.keeper)") || strings.Contains(full, "Context)") {
				pure = false
				detail = "calls " + full
			}
		}
		c.Ob("R3", "pure helper "+fnName(fn), fn.Pos(), pure, "settle arithmetic helper touches store/bank/context: "+detail)
	}
	if nh < 3 {
		c.Fail("C01-R3: settle helpers not found (%d)", nh)
	}

	// ---- R4 no other writer of balance fields
	bal := map[string]bool{
		escrowTypesPkg + ".Account.Balance": true, escrowTypesPkg + ".Account.Transferred": true,
		escrowTypesPkg + ".Payment.Balance": true, escrowTypesPkg + ".Payment.Withdrawn": true,
	}
	nst := 0
	for _, fn := range l.prodFuncs() {
		eachInstr(fn, func(i ssa.Instruction) {
			st, ok := i.(*ssa.Store)
			if !ok {
				return
			}
			fa := baseFieldAddr(st.Addr)
			if fa == nil {
				return
			}
			tn, f := structFieldOf(fa)
			if !bal[tn+"."+f] {
				return
			}
			// composite literals of fresh objects are not mutations of stored records
			if a, ok := fa.X.(*ssa.Alloc); ok && (a.Comment == "complit") {
				return
			}
			nst++
			in := fnPkgPath(fn) == escrowKeeperPkg
			c.Ob("R4", "store to "+shortName(tn)+"."+f+" in "+fnName(fn), st.Pos(), in, "escrow balance field written outside x/escrow/keeper")
		})
	}
	c.Floor("R4", 8)
	// Save* only from genesis
	for _, name := range []string{"SaveAccount", "SavePayment"} {
		for _, fn := range l.prodFuncs() {
			for _, call := range callsIn(fn, false) {
				if calleeMethod(call) == name && strings.Contains(calleeFull(call), "x/escrow/keeper") {
					ok := fnName(fn) == "x/escrow.InitGenesis" || fnPkgPath(fn) == escrowKeeperPkg
					if !ok && isNewFunc(fn) {
						if ig := l.Func("x/escrow", "", "InitGenesis"); ig != nil && inCodeOf(ig, fn) {
							ok = true // a new helper of the genesis import
						}
					}
					if !ok && call.Parent() != fn {
						continue // enumerated with the function it belongs to
					}
					c.Ob("R4", name+" called from "+fnName(fn), call.Pos(), ok, "raw escrow record overwrite outside genesis import")
				}
			}
		}
	}

	// ---- R6 records written back after a settlement were loaded after it
	mut := mutatingFuncs(l, kfuncs)
	for _, name := range settlingEntryPoints(l, kfuncs, settle) {
		fn := l.Func("x/escrow/keeper", "keeper", name)
		scs := settleCallsIn(l, fn, settle)
		c.Ob("R6", name+": settles", fn.Pos(), len(scs) > 0, "no settlement before acting")
		if len(scs) > 0 {
			c.staleRecordRule("R6", fn, scs[0], mut)
		}
	}
	c.Floor("R6", 8)

	// ---- R7 no lost update: a record changed after its last save
	c.lostUpdateRule("R7", kfuncs)
	// records decoded in a loop do not share amount pointers (a balance that appears in two records is counted twice
	// or paid out without a debit); shared with C02-R8
	c.decodeTargetRule("R9", []string{"x/escrow/keeper"})
	// an export / import cycle carries every account and payment over (what is left out stays in the module account
	// with no record to pay it out to); shared with C02 / C03
	c.escrowExportComplete("R9")

	// ---- R8 double entry inside settlement (shared with C02-R4): what a payee is credited is what the account is
	// debited; otherwise recorded balances and the module balance drift apart without any bank call
	c.As("R4", "R8", func() {
		for _, fn := range kfuncs {
			if fn.Signature.Recv() != nil || fn.Parent() != nil || !strings.HasPrefix(fn.Name(), "accountSettle") {
				continue
			}
			c.Analysed(fnName(fn))
			c.doubleEntryHelper(fn)
		}
	})
	c.Floor("R8", 9)

	// ---- R5 configuration
	c.macPerms(modName)
	c.genesisOrderRule("R5", []string{"escrow"})
}

// genesisOrderRule: the SDK's module manager imports the genesis state only of the modules named in the order it is
// given (a module left out is skipped without an error, while export still writes its state and the bank still
// restores the module account's coins). The order handed to SetOrderInitGenesis must therefore come from
// akashInitGenesisOrder and that list must name each module whose records the property is about.
func (c *Check) genesisOrderRule(rule string, mods []string) {
	l := c.L
	fn := l.Func("app", "AkashApp", "akashInitGenesisOrder")
	c.Analysed(fnName(fn))
	names := map[string]bool{}
	eachInstrDeep(fn, func(i ssa.Instruction) {
		var ops [10]*ssa.Value
		for _, op := range i.Operands(ops[:0]) {
			if op != nil && *op != nil {
				if s, ok := strConst(*op); ok {
					names[s] = true
				}
			}
		}
	})
	for _, m := range mods {
		c.Ob(rule, "genesis import order names the "+m+" module", fn.Pos(), names[m], "module "+m+" is missing from akashInitGenesisOrder: after an export/import its records are not restored while the bank restores the coins its module account held")
	}
	used := false
	for _, g := range l.pkgFuncs("app") {
		setsOrder, callsList := false, false
		for _, call := range callsIn(g, false) {
			if calleeMethod(call) == "SetOrderInitGenesis" {
				setsOrder = true
			}
			if call.Common().StaticCallee() == fn {
				callsList = true
			}
		}
		if setsOrder && callsList {
			used = true
		}
	}
	c.Ob(rule, "the module manager's genesis order includes akashInitGenesisOrder()", fn.Pos(), used, "SetOrderInitGenesis is not given the akash module list")
}

// baseFieldAddr: for stores to x.F or x.F.G returns the outermost FieldAddr whose struct is an escrow record.
func baseFieldAddr(addr ssa.Value) *ssa.FieldAddr {
	for {
		fa, ok := addr.(*ssa.FieldAddr)
		if !ok {
			return nil
		}
		tn, _ := structFieldOf(fa)
		if strings.HasPrefix(tn, escrowTypesPkg+".") {
			return fa
		}
		addr = fa.X
	}
}

func (l *Loaded) pkgFuncs(rel string) []*ssa.Function {
	var out []*ssa.Function
	for _, f := range l.prodFuncs() {
		if fnPkgPath(f) == akash+"/"+rel {
			out = append(out, f)
		}
	}
	if len(out) == 0 {
		panic(Undecided{"no functions in " + rel})
	}
	return out
}

// settleCore: the unique function of the escrow keeper package that returns ([]Payment, bool, error)-like
// results and is called by the implementation of Keeper.AccountSettle.
func (l *Loaded) settleCore() *ssa.Function {
	as := l.Func("x/escrow/keeper", "keeper", "AccountSettle")
	var cand []*ssa.Function
	for _, call := range callsIn(as, false) {
		f := call.Common().StaticCallee()
		if f == nil || fnPkgPath(f) != escrowKeeperPkg {
			continue
		}
		res := f.Signature.Results()
		for i := 0; i < res.Len(); i++ {
			if sl, ok := res.At(i).Type().(*types.Slice); ok && strings.HasSuffix(sl.Elem().String(), "types.Payment") {
				cand = append(cand, f)
			}
		}
	}
	if len(cand) != 1 {
		panic(Undecided{"unresolved anchor: settle core"})
	}
	return cand[0]
}

// coinsArgElem: for an argument NewCoins(x) returns x.
func coinsArgElem(v ssa.Value) ssa.Value {
	call, ok := v.(*ssa.Call)
	if !ok || !strings.HasSuffix(calleeFull(call), "cosmos-sdk/types.NewCoins") || len(call.Call.Args) != 1 {
		return nil
	}
	sl, ok := call.Call.Args[0].(*ssa.Slice)
	if !ok {
		return nil
	}
	a, ok := sl.X.(*ssa.Alloc)
	if !ok {
		return nil
	}
	el := arrayStores(a)
	if len(el) != 1 {
		return nil
	}
	return el[0]
}

func isStoreSet(c ssa.CallInstruction) bool {
	return calleeMethod(c) == "Set" && strings.Contains(calleeFull(c), "KVStore")
}

func (c *Check) depositSite(fn *ssa.Function, send *ssa.Call) {
	inst := "deposit in " + fnName(fn)
	args := send.Call.Args // ctx, sender, module, coins
	if len(args) != 4 {
		c.Fail("deposit call shape")
	}
	amt := coinsArgElem(args[3])
	c.Ob("R2", inst+": amount is a single coin value", send.Pos(), amt != nil, "sent amount is not NewCoins(<one coin>): "+Sym(args[3]))
	if amt == nil {
		return
	}
	// every store.Set in the function is on the ok-edge of the send
	nset := 0
	for _, call := range callsIn(fn, false) {
		if !isStoreSet(call) {
			continue
		}
		nset++
		ok := okEdgeAt(call.Block(), send)
		c.Ob("R2", inst+": record write on ok-edge of send", call.Pos(), ok, "store.Set is not dominated by the success edge of the bank send (credit without/ before debit)")
	}
	c.Ob("R2", inst+": record is written", send.Pos(), nset > 0, "no record write after deposit")
	// credited amount is the same value: a store to field Balance either of `amt` itself (new record)
	// or of Balance.Add(amt)
	credited := false
	nbal := 0
	// (send, credit and write may sit in different new helpers of fn: values are read with each helper's
	// parameters replaced by the arguments of its call)
	amtS := symInCaller(amt)
	eachInstrDeep(fn, func(i ssa.Instruction) {
		st, ok := i.(*ssa.Store)
		if !ok {
			return
		}
		fa, ok := st.Addr.(*ssa.FieldAddr)
		if !ok {
			return
		}
		tn, f := structFieldOf(fa)
		if tn != escrowTypesPkg+".Account" || f != "Balance" {
			return
		}
		nbal++
		if symInCaller(st.Val) == amtS {
			credited = true
			return
		}
		if call, ok := st.Val.(*ssa.Call); ok && strings.HasSuffix(calleeFull(call), "types.Coin).Add") {
			a := call.Call.Args
			// receiver = load of the same field, arg = amt
			if len(a) == 2 && symInCaller(a[1]) == amtS && Sym(a[0]) == strings.TrimPrefix(Sym(st.Addr), "&") {
				credited = true
				return
			}
		}
		c.Ob("R2", inst+": stray balance store", st.Pos(), false, "Account.Balance assigned "+Sym(st.Val)+" which is not the deposited amount")
	})
	c.Ob("R2", inst+": credited amount == sent amount", send.Pos(), credited && nbal == 1, "Account.Balance is not credited with exactly the value handed to the bank ("+Sym(amt)+")")
	// sender: the owner recorded in the account
	sender := symInCaller(args[1])
	okSender := false
	if strings.Contains(sender, "AccAddressFromBech32(local:obj.Owner)#0") || strings.HasPrefix(sender, "types.AccAddressFromBech32(") && strings.Contains(sender, ".Owner)#0") {
		okSender = true // existing account: debit its recorded owner
	}
	if p, ok := args[1].(*ssa.Parameter); ok {
		// new account: the owner recorded must be this parameter
		eachInstr(fn, func(i ssa.Instruction) {
			if st, ok := i.(*ssa.Store); ok {
				if fa, ok := st.Addr.(*ssa.FieldAddr); ok {
					if _, f := structFieldOf(fa); f == "Owner" {
						if call, ok := st.Val.(*ssa.Call); ok && calleeMethod(call) == "String" && len(call.Call.Args) == 1 && call.Call.Args[0] == p {
							okSender = true
						}
					}
				}
			}
		})
	}
	c.Ob("R2", inst+": debited party == recorded owner", send.Pos(), okSender, "sender "+sender+" is not the owner recorded in the account")
}

func (c *Check) withdrawSite(fn *ssa.Function, send *ssa.Call) {
	inst := "withdraw in " + fnName(fn)
	args := send.Call.Args // ctx, module, recipient, coins
	if len(args) != 4 || len(fn.Params) < 3 {
		c.Fail("withdraw call shape in %s", fnName(fn))
	}
	obj := fn.Params[len(fn.Params)-1]
	amt := coinsArgElem(args[3])
	balExpr := "*p:" + paramName(obj) + ".Balance"
	c.Ob("R2", inst+": amount sent == recorded balance", send.Pos(), amt != nil && Sym(amt) == balExpr, "amount sent is not exactly the record's Balance: "+Sym(args[3]))
	c.Ob("R2", inst+": recipient == recorded owner", send.Pos(),
		Sym(args[2]) == "types.AccAddressFromBech32(*p:"+paramName(obj)+".Owner)#0", "recipient "+Sym(args[2])+" is not the record's Owner")
	// no store to obj.Balance between entry and the send (so the loaded value is the recorded one)
	var zeroStore *ssa.Store
	var persist ssa.Instruction
	eachInstr(fn, func(i ssa.Instruction) {
		switch x := i.(type) {
		case *ssa.Store:
			if Sym(x.Addr) == "&"+balExpr {
				isZero := strings.HasPrefix(Sym(x.Val), "types.NewCoin(") && strings.HasSuffix(Sym(x.Val), ", types.ZeroInt())")
				if isZero && okEdgeAt(x.Block(), send) {
					zeroStore = x
				} else {
					c.Ob("R2", inst+": stray balance store", x.Pos(), false, "Balance assigned "+Sym(x.Val)+" (not a zeroing on the ok-edge of the send)")
				}
			}
		case *ssa.Call:
			if f := x.Call.StaticCallee(); f != nil && persistsParam(f) >= 0 {
				pi := persistsParam(f)
				if pi < len(x.Call.Args) && x.Call.Args[pi] == ssa.Value(obj) {
					persist = x
				}
			}
		}
	})
	c.Ob("R2", inst+": balance zeroed on ok-edge of send", send.Pos(), zeroStore != nil, "record balance is not set to zero after a successful payout")
	okPersist := false
	if zeroStore != nil && persist != nil {
		// every success return that can follow the zeroing passes a persist of the record after it (whether the persist
		// is the branch's own or a shared tail after the branches join)
		okPersist = true
		isPersist := func(i ssa.Instruction) bool {
			x, isC := i.(*ssa.Call)
			if !isC {
				return false
			}
			f := x.Call.StaticCallee()
			if f == nil || persistsParam(f) < 0 {
				return false
			}
			pi := persistsParam(f)
			return pi < len(x.Call.Args) && x.Call.Args[pi] == ssa.Value(obj)
		}
		n := 0
		for _, r := range successReturns(fn) {
			if !reachableFrom(zeroStore, r) {
				continue
			}
			n++
			if !mustPassFrom(fn, zeroStore, r, isPersist) {
				okPersist = false
			}
		}
		if n == 0 {
			okPersist = false
		}
	}
	c.Ob("R2", inst+": zeroed record persisted after payout", send.Pos(), okPersist, "after a successful payout the zeroed record is not persisted on every success path")
	// Withdrawn bookkeeping for payments
	if strings.HasSuffix(obj.Type().String(), "types.Payment") {
		ok := false
		eachInstr(fn, func(i ssa.Instruction) {
			if st, isSt := i.(*ssa.Store); isSt && Sym(st.Addr) == "&*p:"+paramName(obj)+".Withdrawn" {
				if Sym(st.Val) == "types.Coin.Add(*p:"+paramName(obj)+".Withdrawn, "+balExpr+")" && zeroStore != nil && instrDominates(st, zeroStore) && okEdgeAt(st.Block(), send) {
					ok = true
				}
			}
		})
		c.Ob("R2", inst+": Withdrawn += paid amount before zeroing", send.Pos(), ok, "Payment.Withdrawn is not increased by the paid balance before it is zeroed")
	}
}

// persistsParam: if fn calls KVStore.Set with a value marshalled from one of its pointer parameters on all
// paths, return that parameter's index in the ssa parameter list (including receiver); else -1.
func persistsParam(fn *ssa.Function) int {
	if fn.Blocks == nil {
		return -1
	}
	for _, call := range callsIn(fn, false) {
		if !isStoreSet(call) {
			continue
		}
		args := call.Common().Args
		if len(args) != 2 {
			continue
		}
		m, ok := args[1].(*ssa.Call)
		if !ok || !strings.HasPrefix(calleeMethod(m), "MustMarshal") {
			continue
		}
		margs := m.Common().Args
		if len(margs) == 0 {
			continue
		}
		v := stripConv(margs[len(margs)-1])
		for i, p := range fn.Params {
			if v == ssa.Value(p) {
				// Set must be executed on every path to return
				all := true
				for _, r := range successReturns(fn) {
					if !mustPass(fn, r, func(in ssa.Instruction) bool { return in == call.(ssa.Instruction) }) {
						all = false
					}
				}
				if all {
					return i
				}
			}
		}
	}
	return -1
}

func (c *Check) macPerms(modName string) {
	// the permission table, whether written as a composite literal or filled by assignments: every entry put under
	// the escrow module's name is nil / empty
	fd, _ := c.L.FuncDecl("app", "", "MacPerms")
	mp := c.L.Func("app", "", "MacPerms")
	found := false
	eachInstrDeep(mp, func(i ssa.Instruction) {
		mu, ok := i.(*ssa.MapUpdate)
		if !ok {
			return
		}
		k, isK := strConst(mu.Key)
		if !isK || strconv.Quote(k) != modName {
			return
		}
		found = true
		empty := isNilConst(stripConv(mu.Value))
		if sl, isSl := mu.Value.(*ssa.Slice); isSl {
			if al, isAl := sl.X.(*ssa.Alloc); isAl {
				if at, isArr := al.Type().(*types.Pointer).Elem().Underlying().(*types.Array); isArr && at.Len() == 0 {
					empty = true
				}
			}
		}
		if mk, isMk := mu.Value.(*ssa.MakeSlice); isMk {
			if n, isN := constInt(mk.Len); isN && n == 0 {
				empty = true
			}
		}
		c.Ob("R5", "escrow module account permissions empty", mu.Pos(), empty, "escrow module account is given mint/burn/staking permissions")
	})
	c.Ob("R5", "escrow module account registered", fd.Pos(), found, "escrow module account missing from MacPerms")
	// allowedReceivingModAcc must not allow escrow
	app := c.L.Pkg("app")
	ok := true
	var pos = fd.Pos()
	for _, f := range app.Syntax {
		astInspectKVFile(f, "allowedReceivingModAcc", func(k, v astExpr) {
			tv := app.TypesInfo.Types[k]
			vv := app.TypesInfo.Types[v]
			if tv.Value != nil && tv.Value.ExactString() == modName && vv.Value != nil && vv.Value.ExactString() == "true" {
				ok = false
				pos = k.Pos()
			}
		})
	}
	c.Ob("R5", "escrow module account blocked from external receipts", pos, ok, "allowedReceivingModAcc enables external transfers into the escrow module account")
	// BlockedAddrs derives from MacPerms and !allowedReceivingModAcc
	ba := c.L.FuncOpt("app", "AkashApp", "BlockedAddrs")
	if ba == nil {
		c.Fail("unresolved anchor: app.BlockedAddrs")
	}
	usesPerms, usesAllowed := false, false
	for _, call := range callsIn(ba, false) {
		if calleeMethod(call) == "MacPerms" {
			usesPerms = true
		}
	}
	eachInstr(ba, func(i ssa.Instruction) {
		if lk, ok := i.(*ssa.Lookup); ok && strings.Contains(Sym(lk.X), "allowedReceivingModAcc") {
			usesAllowed = true
		}
	})
	c.Ob("R5", "BlockedAddrs built from MacPerms and allowedReceivingModAcc", ba.Pos(), usesPerms && usesAllowed, "BlockedAddrs no longer covers every module account")
}

// escrowExportComplete: ExportGenesis hands each of the keeper's two enumerations a callback that records the element
// on every path and never stops the enumeration: every account and every payment in the store is in the export.
func (c *Check) escrowExportComplete(rule string) {
	l := c.L
	exp := l.Func("x/escrow", "", "ExportGenesis")
	c.Analysed(fnName(exp))
	n := 0
	for _, g0 := range fnAndClosuresDeep(exp) {
		for _, call := range callsInOwn(g0) {
			m := calleeMethod(call)
			if m != "WithAccounts" && m != "WithPayments" {
				continue
			}
			n++
			args := call.Common().Args
			cb := callbackFunc(args[len(args)-1])
			if cb == nil {
				c.Info(rule, "genesis export: callback of "+m+" not resolved, completeness not decided", call.Pos(), "")
				continue
			}
			c.Analysed(fnName(cb))
			field := "Accounts"
			if m == "WithPayments" {
				field = "Payments"
			}
			okStop, okRec := true, true
			for _, b := range cb.Blocks {
				r, isR := b.Instrs[len(b.Instrs)-1].(*ssa.Return)
				if !isR || len(r.Results) != 1 {
					continue
				}
				for _, lf := range retLeaves(r.Results[0], b, map[ssa.Value]bool{}) {
					if !isConstBool(lf.val, false) {
						okStop = false
					}
				}
				// the element is recorded before every return: appended to the exported list (whatever holds it)
				if !mustPassFrom(cb, nil, r, func(in ssa.Instruction) bool {
					x, isC := in.(*ssa.Call)
					if !isC || calleeFull(x) != "builtin.append" || len(x.Call.Args) != 2 {
						return false
					}
					return strings.Contains(Sym(x.Call.Args[1]), "p:"+paramName(cb.Params[len(cb.Params)-1]))
				}) {
					okRec = false
				}
			}
			c.Ob(rule, "genesis export: the "+field+" enumeration is never stopped by its callback", call.Pos(), okStop, "the callback can return true: the export ends at that element and every later record is missing from the exported state")
			c.Ob(rule, "genesis export: every enumerated element of "+field+" is recorded", call.Pos(), okRec, "a path through the callback returns without appending the element: the exported state lacks records the store holds (their coins stay in the module account)")
		}
	}
	if n < 2 {
		c.Ob(rule, "genesis export enumerates accounts and payments", exp.Pos(), false, "ExportGenesis no longer walks both record kinds")
	}
}

// callbackFunc: the function behind a callback argument: a closure, a function value, or a bound method value.
func callbackFunc(v ssa.Value) *ssa.Function {
	switch x := v.(type) {
	case *ssa.MakeClosure:
		f, _ := x.Fn.(*ssa.Function)
		if f != nil && f.Synthetic != "" {
			// bound method wrapper: the method it forwards to
			for _, call := range callsInOwn(f) {
				if g := call.Common().StaticCallee(); g != nil && g.Blocks != nil {
					return g
				}
			}
		}
		return f
	case *ssa.Function:
		return x
	}
	return nil
}
