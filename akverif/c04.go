package main

import (
	"sort"
	"strings"

	"golang.org/x/tools/go/ssa"
)

func init() { registry["C04"] = checkC04 }

var allowedTransitions = map[string]map[string][]string{
	"Order":      {"OrderActive": {"OrderOpen"}, "OrderClosed": {"OrderOpen", "OrderActive"}},
	"Bid":        {"BidActive": {"BidOpen"}, "BidLost": {"BidOpen"}, "BidClosed": {"BidOpen", "BidActive"}},
	"Lease":      {"LeaseClosed": {"LeaseActive"}, "LeaseInsufficientFunds": {"LeaseActive"}},
	"Group":      {"GroupPaused": {"GroupOpen"}, "GroupOpen": {"GroupPaused"}, "GroupClosed": {"GroupOpen", "GroupPaused", "GroupInsufficientFunds"}, "GroupInsufficientFunds": {"GroupOpen", "GroupPaused"}},
	"Deployment": {"DeploymentClosed": {"DeploymentActive"}},
}

var initialState = map[string]string{"Order": "OrderOpen", "Bid": "BidOpen", "Lease": "LeaseActive", "Group": "GroupOpen", "Deployment": "DeploymentActive"}

// isConstruction: the State store targets a local record that is built field by field (never assigned as a whole).
func isConstruction(sa *stateAssign) bool {
	fa := sa.st.Addr.(*ssa.FieldAddr)
	a, ok := fa.X.(*ssa.Alloc)
	if !ok {
		return false
	}
	for _, r := range *a.Referrers() {
		if st, ok := r.(*ssa.Store); ok && st.Addr == ssa.Value(a) {
			return false
		}
	}
	return true
}

// ---- call matching helpers -------------------------------------------------------------

// callIs: call of a method named m whose (first non-context) argument types contain argType suffixes in order.
func callIs(call ssa.CallInstruction, m string, recvHint string, argTypes ...string) bool {
	if calleeMethod(call) != m {
		return false
	}
	if recvHint != "" && !strings.Contains(calleeFull(call), recvHint) {
		return false
	}
	args := call.Common().Args
	if !call.Common().IsInvoke() && call.Common().StaticCallee() != nil && call.Common().StaticCallee().Signature.Recv() != nil && len(args) > 0 {
		args = args[1:]
	}
	var ts []string
	for _, a := range args {
		t := a.Type().String()
		if strings.HasSuffix(t, "types.Context") {
			continue
		}
		ts = append(ts, t)
	}
	if len(argTypes) > len(ts) {
		return false
	}
	for i, want := range argTypes {
		if !strings.HasSuffix(ts[i], want) {
			return false
		}
	}
	return true
}

// userArgs: arguments without receiver and sdk.Context.
func userArgs(call ssa.CallInstruction) []ssa.Value {
	args := call.Common().Args
	if !call.Common().IsInvoke() && call.Common().StaticCallee() != nil && call.Common().StaticCallee().Signature.Recv() != nil && len(args) > 0 {
		args = args[1:]
	}
	var out []ssa.Value
	for _, a := range args {
		if strings.HasSuffix(a.Type().String(), "types.Context") {
			continue
		}
		out = append(out, a)
	}
	return out
}

// loopHeaderOf: the innermost loop header block dominating b (nil if b is not in a loop): a dominator d of b
// that has a back edge (a predecessor dominated by d) from which b is reachable, and that ends in a conditional.
func loopHeaderOf(b *ssa.BasicBlock) *ssa.BasicBlock {
	for d := b; d != nil; d = d.Idom() {
		if len(d.Instrs) == 0 {
			continue
		}
		if _, ok := d.Instrs[len(d.Instrs)-1].(*ssa.If); !ok {
			continue
		}
		for _, p := range d.Preds {
			if !d.Dominates(p) {
				continue
			}
			// back edge p->d; b must be inside the natural loop: b reaches p without leaving through d
			if b == p || b == d || blockReachesAvoiding(b, p, d) {
				return d
			}
		}
	}
	return nil
}

func blockReaches(from, to *ssa.BasicBlock) bool {
	seen := map[*ssa.BasicBlock]bool{}
	stack := append([]*ssa.BasicBlock{}, from.Succs...)
	for len(stack) > 0 {
		x := stack[len(stack)-1]
		stack = stack[:len(stack)-1]
		if seen[x] {
			continue
		}
		seen[x] = true
		if x == to {
			return true
		}
		stack = append(stack, x.Succs...)
	}
	return false
}

// requireAfterEdge: on every path that takes successor idx of conditional `ifi`, a call matching `match` is
// passed before the function returns.
func (c *Check) requireAfterEdge(rule, inst string, fn *ssa.Function, ifi *ssa.If, idx int, match func(ssa.CallInstruction) bool, detail string) {
	var m []ssa.CallInstruction
	for _, call := range callsIn(fn, false) {
		if match(call) {
			m = append(m, call)
		}
	}
	ok := len(m) > 0 && ifi != nil
	if ok {
		start := ifi.Block().Succs[idx]
		pred := passPred(m)
		first := start.Instrs[0]
		if !pred(first) {
			for _, b := range fn.Blocks {
				if r, isR := b.Instrs[len(b.Instrs)-1].(*ssa.Return); isR {
					if (b == start || blockReaches(start, b)) && !(first == ssa.Instruction(r)) && !mustPassFrom(fn, first, r, pred) {
						ok = false
					}
					if first == ssa.Instruction(r) {
						ok = false
					}
				}
			}
		}
	}
	pos := fn.Pos()
	if ifi != nil {
		pos = ifi.Pos()
	}
	c.Ob(rule, inst, pos, ok, detail)
}

// ifOn: the conditional in fn whose condition is the idx-th result of a call to method m.
func ifOn(fn *ssa.Function, m string, idx int) *ssa.If {
	var out *ssa.If
	eachInstr(fn, func(i ssa.Instruction) {
		if ifi, ok := i.(*ssa.If); ok {
			if call, k := callOf(ifi.Cond); call != nil && calleeMethod(call) == m && k == idx {
				out = ifi
			}
		}
	})
	return out
}

// passPred: instruction is one of calls, or the terminator of a loop header enclosing one of them
// (a loop over zero elements discharges the obligation for its body).
func passPred(calls []ssa.CallInstruction) func(ssa.Instruction) bool {
	set := map[ssa.Instruction]bool{}
	for _, call := range calls {
		set[call] = true
		if h := loopHeaderOf(call.Block()); h != nil {
			set[h.Instrs[len(h.Instrs)-1]] = true
		}
	}
	return func(in ssa.Instruction) bool { return set[in] }
}

// requireFollows: after every call matching a, every path to the end of the enclosing loop iteration
// (the loop header) and to every return in rets passes a call matching b.
func (c *Check) requireFollows(rule, inst string, fn *ssa.Function, rets []*ssa.Return, a, b func(ssa.CallInstruction) bool, detail string) {
	n := 0
	for _, call := range callsIn(fn, false) {
		if !a(call) {
			continue
		}
		n++
		pred := func(in ssa.Instruction) bool {
			x, ok := in.(ssa.CallInstruction)
			return ok && b(x)
		}
		ok := true
		why := detail
		var targets []ssa.Instruction
		if h := loopHeaderOf(call.Block()); h != nil {
			targets = append(targets, h.Instrs[len(h.Instrs)-1])
		}
		for _, r := range rets {
			targets = append(targets, r)
		}
		for _, t := range targets {
			if !blockReaches(call.Block(), t.Block()) && call.Block() != t.Block() {
				continue
			}
			if !mustPassFrom(fn, call, t, pred) {
				ok = false
				why = detail + " (" + c.L.Pos(t.Pos()) + " is reachable from the first call without the second)"
			}
		}
		c.Ob(rule, inst, call.Pos(), ok, why)
	}
	if n == 0 {
		c.Ob(rule, inst, fn.Pos(), false, detail+" (first call not found in "+fnName(fn)+")")
	}
}

// requireOnPaths: every return in rets must pass through one of the calls matching `match` in fn.
func (c *Check) requireOnPaths(rule, inst string, fn *ssa.Function, rets []*ssa.Return, match func(ssa.CallInstruction) bool, detail string) []ssa.CallInstruction {
	var m []ssa.CallInstruction
	for _, call := range callsIn(fn, false) {
		c.CallSites++
		if match(call) {
			m = append(m, call)
		}
	}
	ok := len(m) > 0
	pos := fn.Pos()
	why := detail
	if ok {
		pred := passPred(m)
		for _, r := range rets {
			if !mustPass(fn, r, pred) {
				ok = false
				pos = r.Pos()
				why = detail + " (success return at " + c.L.Pos(r.Pos()) + " is reachable without it)"
			}
		}
		if len(rets) == 0 {
			ok = false
			why = "no success path selected"
		}
	} else {
		why = detail + " (no such call in " + fnName(fn) + ")"
	}
	c.Ob(rule, inst, pos, ok, why)
	return m
}

// requireWhen: on every path to a nil-error return on which the condition `holds` becomes true (it is established by
// taking a conditional edge: holds(facts before the branch + the edge's atom) but not holds(facts before)), a call
// matching `match` is passed after that edge. Unlike a selection of return blocks by their dominating facts this is
// indifferent to how the returns are laid out (early return vs nested if with one shared return).
func (c *Check) requireWhen(rule, inst string, fn *ssa.Function, holds func([]Atom) bool, match func(ssa.CallInstruction) bool, detail string) []ssa.CallInstruction {
	var m []ssa.CallInstruction
	for _, call := range callsIn(fn, false) {
		c.CallSites++
		if match(call) {
			m = append(m, call)
		}
	}
	ok := len(m) > 0
	why := detail
	pos := fn.Pos()
	if !ok {
		why = detail + " (no such call in " + fnName(fn) + ")"
	} else {
		pred := passPred(m)
		rets := successReturns(fn)
		nEdges := 0
		check := func(start *ssa.BasicBlock) {
			first := start.Instrs[0]
			if pred(first) || transparentPass(first, pred, 0) {
				return
			}
			for _, r := range rets {
				if first == ssa.Instruction(r) || ((start == r.Block() || blockReaches(start, r.Block())) && !mustPassFrom(fn, first, r, pred)) {
					ok = false
					pos = r.Pos()
					why = detail + " (the nil-error return at " + c.L.Pos(r.Pos()) + " is reachable on that path without it)"
				}
			}
		}
		if holds(nil) {
			nEdges++
			check(fn.Blocks[0])
		} else {
			scan := []*ssa.Function{fn}
			for _, hfn := range helpersOf(fn) {
				if hfn.Parent() == nil {
					scan = append(scan, hfn)
				}
			}
			for _, sf := range scan {
				sf := sf
				if sf != fn {
					// the condition may be established inside a new helper: the obligation is then judged inside it —
					// provided the required call lives there too; a helper that only establishes the condition and
					// hands a verdict back is judged at its caller, through the facts its verdict carries
					has := false
					for _, mc := range m {
						top := mc.Parent()
						for top.Parent() != nil {
							top = top.Parent()
						}
						if inCodeOf(sf, top) {
							has = true
						}
					}
					if !has {
						continue
					}
					rets = successReturns(sf)
					inner := sf
					check = func(start *ssa.BasicBlock) {
						first := start.Instrs[0]
						if pred(first) || transparentPass(first, pred, 0) {
							return
						}
						for _, r := range rets {
							if first == ssa.Instruction(r) || ((start == r.Block() || blockReaches(start, r.Block())) && !mustPassFrom(inner, first, r, pred)) {
								ok = false
								pos = r.Pos()
								why = detail + " (the return at " + c.L.Pos(r.Pos()) + " is reachable on that path without it)"
							}
						}
					}
				}
				for _, b := range sf.Blocks {
					ifi, isIf := b.Instrs[len(b.Instrs)-1].(*ssa.If)
					if !isIf {
						continue
					}
					before := factsAt(b)
					if holds(before) {
						continue
					}
					for idx := 0; idx < 2; idx++ {
						a := condAtom(ifi.Cond, idx == 0)
						a.If = ifi
						with := append(append([]Atom{}, before...), a)
						with = append(with, helperBoolFacts(a, 0)...)
						with = append(with, helperSuccessFacts(a, 0)...)
						if holds(with) {
							nEdges++
							check(b.Succs[idx])
						}
					}
				}
			}
		}
		if nEdges == 0 {
			ok = false
			why = "the condition under which this is required is never established in " + fnName(fn)
		}
	}
	c.Ob(rule, inst, pos, ok, why)
	return m
}

// retsWhere: success returns of fn filtered by a predicate on their dominating facts.
func retsWhere(fn *ssa.Function, keep func(facts []Atom) bool) []*ssa.Return {
	var out []*ssa.Return
	for _, r := range successReturns(fn) {
		if keep == nil || keep(factsAt(r.Block())) {
			out = append(out, r)
		}
	}
	return out
}

// hasStateFact: facts contain (rec.State op K) where rec's Sym contains recHint.
func hasStateFact(facts []Atom, op string, recHint string, k int64) bool {
	for _, a := range facts {
		if a.Op != op {
			continue
		}
		x, y := a.X, a.Y
		if _, isC := x.(*ssa.Const); isC {
			x, y = y, x
		}
		if kk, ok := constInt(y); ok && kk == k {
			s := Sym(x)
			if strings.HasSuffix(s, ".State") && strings.Contains(s, recHint) {
				return true
			}
		}
	}
	return false
}

func (l *Loaded) msgServerMethod(rel, name string) *ssa.Function {
	return l.Func(rel, "msgServer", name)
}

// constArgIs: argument is the named constant of package rel
func (l *Loaded) constArgIs(v ssa.Value, rel, name string) bool {
	k, ok := constInt(v)
	if !ok {
		return false
	}
	want, _ := constantInt2(l, rel, name)
	return k == want
}

// constArgIn: every value v can take (constant or phi of constants) is one of the named constants.
func (l *Loaded) constArgIn(v ssa.Value, rel string, names ...string) bool {
	cs := constSet(v, map[ssa.Value]bool{})
	if len(cs) == 0 {
		return false
	}
	for k := range cs {
		ok := false
		for _, n := range names {
			if want, _ := constantInt2(l, rel, n); want == k {
				ok = true
			}
		}
		if !ok {
			return false
		}
	}
	return true
}

func constantInt2(l *Loaded, rel, name string) (int64, bool) {
	cv := l.constVal(rel, name)
	s := cv.ExactString()
	var n int64
	for _, ch := range s {
		if ch < '0' || ch > '9' {
			return 0, false
		}
		n = n*10 + int64(ch-'0')
	}
	return n, true
}

func checkC04(c *Check) {
	c.Explanation = "Code-shape conditions of marketplace lifecycle consistency, decided for every state assignment, handler path and call site: (R1) every assignment to Order/Bid/Lease/Group/Deployment.State is extracted with the set of prior states admitted by its dominating guards (in the function and at every resolved call site one level up, incl. the filter-then-act idiom and Validate* helpers) and must be included in the lifecycle's transition table; terminal states are absorbing; new records start in their initial state; (R2) each Msg handler / escrow hook passes, on every nil-error path, through the full set of record updates its action implies (loops over zero elements discharge their body); (R3) lease creation is dominated by bid-open, order-open, group-open; a new order is stored only when every earlier order of the group is closed and the key is free; (R4) lease price = price of the matched bid = escrow payment rate; bid price = message price that passed the not-above-order-maximum guard; (R5) no record fetched before a call that can fire escrow hooks on the deployment account is used for a decision or write after it; (R6) cascade iterator callbacks never stop the iteration early. A function that assigns a terminal state refuses no live state by its own guards; the ids' Equals cover every field."
	c.NotDecided = "the global store-wide invariant over arbitrary histories (e.g. 'matched iff exactly one active lease' as a counting statement)"
	l := c.L
	kinds := l.recordKinds()

	// ---- R1 transition table
	sas := l.stateAssignments(kinds)
	floorAdj := 0
	for _, sa := range sas {
		c.Analysed(fnName(sa.fn))
		if !isConstruction(sa) && sa.valPar != nil && isNewFunc(sa.fn) {
			// a new helper shared by several transitions assigns whatever state it is handed: which prior states go
			// with which new state is decided per caller on the pinned tree's functions, not for the merged helper
			nsites := len(l.callSitesOf(sa.fn))
			if nsites > 1 {
				c.Info("R1", sa.rk.name+".State assigned from a parameter in the new helper "+fnName(sa.fn)+" ("+itoa(nsites)+" callers): transitions not decided", sa.st.Pos(), "value "+sa.valSym)
				floorAdj += nsites
				continue
			}
		}
		if isConstruction(sa) {
			want := sa.rk.byName[initialState[sa.rk.name]]
			ok := sa.vals != nil && len(sa.vals) == 1 && sa.vals[want]
			c.Ob("R1", "new "+sa.rk.name+" constructed in "+fnName(sa.fn)+" starts as "+initialState[sa.rk.name], sa.st.Pos(), ok, "new record starts in state "+sa.rk.setString(sa.vals))
			continue
		}
		inst := sa.rk.name + ".State <- " + sa.rk.setString(sa.vals) + " in " + fnName(sa.fn)
		if sa.vals == nil {
			c.Ob("R1", sa.rk.name+".State <- non-constant in "+fnName(sa.fn), sa.st.Pos(), false, "assigned state "+sa.valSym+" is not a resolvable constant at every call site")
			continue
		}
		// a function that closes a record must not itself turn away a record in a live state: its callers (handlers and
		// escrow hooks, which drop the error) rely on the close taking effect, and whatever stays live stays under a
		// closed parent
		if live, isClose := liveStatesIfClose(sa); isClose {
			miss := ""
			for _, n := range live {
				if !sa.own[sa.rk.byName[n]] {
					miss += n + " "
				}
			}
			c.Ob("R1", "closing "+sa.rk.name+" in "+fnName(sa.fn)+" takes effect from every live state", sa.st.Pos(), miss == "", "the guards of "+fnName(sa.fn)+" refuse a "+sa.rk.name+" that is "+miss+": a close requested through it (also by the escrow hooks, which ignore its error) leaves that record live")
		}
		pre := sa.pre
		// frozen cross-record implication (see DESIGN.md C04-R1): deployment keeper OnBidClosed pauses the group of an
		// active lease; the group being open follows from the lease being active, which CloseBid checks.
		if fnName(sa.fn) == "x/deployment/keeper.(Keeper).OnPauseGroup" {
			pre = c.refineOnBidClosed(kinds, sa)
		}
		bad := ""
		for to := range sa.vals {
			toName := sa.rk.states[to]
			allowed := map[string]bool{toName: true}
			for _, f := range allowedTransitions[sa.rk.name][toName] {
				allowed[f] = true
			}
			var froms []string
			for from := range pre {
				if !allowed[sa.rk.states[from]] {
					froms = append(froms, sa.rk.states[from])
				}
			}
			sort.Strings(froms)
			for _, f := range froms {
				bad += f + "->" + toName + " "
			}
		}
		c.Ob("R1", inst, sa.st.Pos(), bad == "", "guards admit the transition(s) "+bad+"which the lifecycle forbids; admitted prior states "+sa.rk.setString(pre)+" via "+strings.Join(sa.sites, " ; "))
	}
	c.Floor("R1", 14-floorAdj)

	c.handlerEffects(kinds)
	c.leaseGuards(kinds)
	c.priceFlow()
	c.staleAcrossHooks(kinds)
	c.cascadeCallbacks()
}

// refineOnBidClosed: OnPauseGroup call site inside deployment keeper OnBidClosed has no group guard; accept {GroupOpen}
// for that site iff every production caller of deployment OnBidClosed is dominated by lease.State == LeaseActive.
func (c *Check) refineOnBidClosed(kinds map[string]*recKind, sa *stateAssign) map[int64]bool {
	return c.refineOnBidClosedQ(kinds, sa, false)
}

func (c *Check) refineOnBidClosedQ(kinds map[string]*recKind, sa *stateAssign, quiet bool) map[int64]bool {
	l := c.L
	obc := l.Func("x/deployment/keeper", "Keeper", "OnBidClosed")
	leaseActive, _ := constantInt2(l, "x/market/types", "LeaseActive")
	okAll := true
	n := 0
	fires := c.hookFiring()
	stalePos, staleBy := obc.Pos(), ""
	for _, call := range l.callSitesOf(obc) {
		n++
		if !hasStateFact(factsAt(call.Block()), "eq", "GetLease(", leaseActive) {
			okAll = false
		}
		// the "lease active => group open" argument needs the lease fact to be current: no call that can
		// run the escrow hooks (which close leases and move groups to insufficient_funds) may come first
		for _, e := range callsIn(call.Parent(), false) {
			if fires(e) && reachableFrom(e.(ssa.Instruction), call.(ssa.Instruction)) {
				stalePos, staleBy = call.Pos(), calleeMethod(e)
			}
		}
	}
	if !quiet {
		c.Ob("R1", "deployment OnBidClosed (pauses group without its own guard) runs before any escrow-hook-firing call of its caller", stalePos, staleBy == "", "group is paused on a lease-active fact that predates "+staleBy+", whose hooks may already have moved the group to insufficient_funds/closed")
		c.Ob("R1", "deployment OnBidClosed (pauses group without its own guard) is only called for an active lease", obc.Pos(), okAll && n > 0, "group is paused from an unguarded path: caller does not establish lease.State == LeaseActive")
	}
	union := map[int64]bool{}
	for _, call := range l.callSitesOf(sa.fn) {
		caller := call.Parent()
		if caller == obc && okAll && staleBy == "" {
			union[sa.rk.byName["GroupOpen"]] = true
			continue
		}
		arg := argFor(call, sa.fn, paramIndex(sa.fn, sa.param))
		set, _ := l.preStateAtCall(kinds, sa.rk, caller, call, arg)
		for k := range set {
			union[k] = true
		}
	}
	return union
}

func (c *Check) handlerEffects(kinds map[string]*recKind) {
	l := c.L
	mk := "x/market/types"
	// the winner is told from the losing bids (and a manager's lease from another) by Equals: it must compare every field
	c.idEqualsComplete("R2")
	// -- CreateLease
	{
		fn := l.msgServerMethod("x/market/handler", "CreateLease")
		c.Analysed(fnName(fn))
		rets := successReturns(fn)
		h := "CreateLease"
		pc := c.requireOnPaths("R2", h+": escrow payment opened", fn, rets, func(x ssa.CallInstruction) bool { return callIs(x, "PaymentCreate", "EscrowKeeper") }, "lease created without opening its payment stream")
		for _, p := range pc {
			// all record writes after PaymentCreate are on its ok-edge
			for _, call := range callsIn(fn, false) {
				if callIs(call, "CreateLease", "IKeeper") || callIs(call, "OnOrderMatched", "") || callIs(call, "OnBidMatched", "") {
					c.Ob("R2", h+": "+calleeMethod(call)+" only after PaymentCreate succeeded", call.Pos(), okEdgeAt(call.Block(), p.(*ssa.Call)), "record written although the payment stream could not be opened")
				}
			}
		}
		c.requireOnPaths("R2", h+": lease record created", fn, rets, func(x ssa.CallInstruction) bool { return callIs(x, "CreateLease", "IKeeper", "types.Bid") }, "no lease record")
		c.requireOnPaths("R2", h+": order -> active", fn, rets, func(x ssa.CallInstruction) bool { return callIs(x, "OnOrderMatched", "", "types.Order") }, "order not marked matched")
		c.requireOnPaths("R2", h+": bid -> active", fn, rets, func(x ssa.CallInstruction) bool { return callIs(x, "OnBidMatched", "", "types.Bid") }, "bid not marked matched")
		c.requireOnPaths("R2", h+": other open bids enumerated", fn, rets, func(x ssa.CallInstruction) bool { return callIs(x, "WithBidsForOrder", "", "types.OrderID") }, "losing bids are not enumerated")
		lost := c.requireOnPaths("R2", h+": every other open bid -> lost", fn, rets, func(x ssa.CallInstruction) bool { return callIs(x, "OnBidLost", "", "types.Bid") }, "losing bids stay open under a matched order")
		// the enumeration covers the order of the matched bid and skips only the winner / non-open bids
		for _, call := range callsIn(fn, false) {
			if callIs(call, "WithBidsForOrder", "", "types.OrderID") {
				a := userArgs(call)
				c.Ob("R2", h+": losing bids enumerated for the matched bid's order", call.Pos(), Sym(a[0]) == "types.BidID.OrderID(*p:msg.BidID)" || strings.HasSuffix(Sym(a[0]), ".OrderID(*p:msg.BidID)"), "enumerates "+Sym(a[0]))
			}
		}
		for _, x := range lost {
			a := userArgs(x)
			if vals, sites, ok := appendSources(x.Parent(), a[0]); ok {
				for i, v := range vals {
					// the only bids not appended: the winner and non-open ones -> at the append site facts are exactly
					// neq(Equals(winner)) and eq(State, open); any other dominating condition narrows the set
					extra := 0
					for _, f := range factsAt(sites[i].Block()) {
						s := Sym(f.X)
						isWinner := strings.Contains(s, ".Equals(") && strings.Contains(s, "msg.BidID")
						isOpen := strings.HasSuffix(s, ".State") && f.Op == "eq"
						if !isWinner && !isOpen {
							extra++
						}
					}
					c.Ob("R2", h+": lost-bid filter excludes only the winner and non-open bids", sites[i].Pos(), extra == 0, "additional condition narrows the set of bids marked lost: "+Sym(v))
				}
			} else {
				if s := Sym(a[0]); strings.Contains(s, "next(range(make:map[") {
					// collected in a map of the handler's own first: which bids end up in it is not followed
					c.Info("R2", h+": lost bids are taken from a map filled by the handler, filter not decided", x.Pos(), "OnBidLost argument "+short(s))
				} else {
					c.Ob("R2", h+": lost bids come from the enumeration", x.Pos(), false, "OnBidLost argument "+Sym(a[0])+" is not an element of the filtered enumeration")
				}
			}
		}
	}
	// -- CloseLease
	{
		fn := l.msgServerMethod("x/market/handler", "CloseLease")
		c.Analysed(fnName(fn))
		rets := successReturns(fn)
		h := "CloseLease"
		for _, call := range c.requireOnPaths("R2", h+": lease -> closed", fn, rets, func(x ssa.CallInstruction) bool { return callIs(x, "OnLeaseClosed", "IKeeper", "types.Lease") }, "lease stays active") {
			a := userArgs(call)
			c.Ob("R2", h+": lease closed with state LeaseClosed", call.Pos(), len(a) == 2 && l.constArgIs(a[1], mk, "LeaseClosed"), "lease closed with state "+Sym(a[len(a)-1]))
		}
		c.requireOnPaths("R2", h+": bid -> closed", fn, rets, func(x ssa.CallInstruction) bool { return callIs(x, "OnBidClosed", "IKeeper", "types.Bid") }, "bid stays matched")
		c.requireOnPaths("R2", h+": order -> closed", fn, rets, func(x ssa.CallInstruction) bool { return callIs(x, "OnOrderClosed", "", "types.Order") }, "order stays matched")
		c.requireOnPaths("R2", h+": escrow payment closed", fn, rets, func(x ssa.CallInstruction) bool { return callIs(x, "PaymentClose", "EscrowKeeper") }, "payment stream stays open")
		// new order iff the group is open: every success return not dominated by group.State != open passes CreateOrder
		gopen, _ := constantInt2(l, "x/deployment/types", "GroupOpen")
		for _, call := range c.requireWhen("R2", h+": new order when the group is still open", fn, func(f []Atom) bool { return hasStateFact(f, "eq", "OnLeaseClosed(", gopen) }, func(x ssa.CallInstruction) bool { return callIs(x, "CreateOrder", "", "types.GroupID") }, "an open group of an active deployment is left without an order") {
			c.Ob("R2", h+": new order only for an open group", call.Pos(), hasStateFact(factsAt(call.Block()), "eq", "OnLeaseClosed(", gopen), "order created although the group is not open")
		}
	}
	// -- CloseBid
	{
		fn := l.msgServerMethod("x/market/handler", "CloseBid")
		c.Analysed(fnName(fn))
		h := "CloseBid"
		bopen, _ := constantInt2(l, mk, "BidOpen")
		openRets := func(f []Atom) bool { return hasStateFact(f, "eq", "GetBid(", bopen) }
		actRets := func(f []Atom) bool { return hasStateFact(f, "neq", "GetBid(", bopen) }
		c.requireWhen("R2", h+" (open bid): bid -> closed", fn, openRets, func(x ssa.CallInstruction) bool { return callIs(x, "OnBidClosed", "IKeeper", "types.Bid") }, "open bid not closed")
		c.requireWhen("R2", h+" (matched bid): group -> paused", fn, actRets, func(x ssa.CallInstruction) bool { return callIs(x, "OnBidClosed", "DeploymentKeeper", "types.GroupID") }, "group stays open without an order")
		for _, call := range c.requireWhen("R2", h+" (matched bid): lease -> closed", fn, actRets, func(x ssa.CallInstruction) bool { return callIs(x, "OnLeaseClosed", "IKeeper", "types.Lease") }, "lease stays active") {
			a := userArgs(call)
			c.Ob("R2", h+": lease closed with state LeaseClosed", call.Pos(), len(a) == 2 && l.constArgIs(a[1], mk, "LeaseClosed"), "")
		}
		c.requireWhen("R2", h+" (matched bid): bid -> closed", fn, actRets, func(x ssa.CallInstruction) bool { return callIs(x, "OnBidClosed", "IKeeper", "types.Bid") }, "bid stays matched")
		c.requireWhen("R2", h+" (matched bid): order -> closed", fn, actRets, func(x ssa.CallInstruction) bool { return callIs(x, "OnOrderClosed", "", "types.Order") }, "order stays matched")
		c.requireWhen("R2", h+" (matched bid): escrow payment closed", fn, actRets, func(x ssa.CallInstruction) bool { return callIs(x, "PaymentClose", "EscrowKeeper") }, "payment stream stays open")
	}
	// -- deployment handlers
	dk := "x/deployment/types"
	{
		fn := l.msgServerMethod("x/deployment/handler", "CloseGroup")
		c.Analysed(fnName(fn))
		rets := successReturns(fn)
		for _, call := range c.requireOnPaths("R2", "CloseGroup: group -> closed", fn, rets, func(x ssa.CallInstruction) bool { return callIs(x, "OnCloseGroup", "", "types.Group") }, "group not closed") {
			a := userArgs(call)
			c.Ob("R2", "CloseGroup: closes with state GroupClosed", call.Pos(), len(a) == 2 && l.constArgIs(a[1], dk, "GroupClosed"), "")
		}
		c.requireOnPaths("R2", "CloseGroup: market cascade", fn, rets, func(x ssa.CallInstruction) bool { return callIs(x, "OnGroupClosed", "", "types.GroupID") }, "orders/bids/leases of the closed group stay live")
	}
	{
		fn := l.msgServerMethod("x/deployment/handler", "PauseGroup")
		c.Analysed(fnName(fn))
		rets := successReturns(fn)
		c.requireOnPaths("R2", "PauseGroup: group -> paused", fn, rets, func(x ssa.CallInstruction) bool { return callIs(x, "OnPauseGroup", "", "types.Group") }, "group not paused")
		c.requireOnPaths("R2", "PauseGroup: market cascade", fn, rets, func(x ssa.CallInstruction) bool { return callIs(x, "OnGroupClosed", "", "types.GroupID") }, "orders/bids/leases of the paused group stay live")
	}
	{
		fn := l.msgServerMethod("x/deployment/handler", "StartGroup")
		c.Analysed(fnName(fn))
		rets := successReturns(fn)
		c.requireOnPaths("R2", "StartGroup: group -> open", fn, rets, func(x ssa.CallInstruction) bool { return callIs(x, "OnStartGroup", "", "types.Group") }, "group not opened")
		c.requireOnPaths("R2", "StartGroup: new order", fn, rets, func(x ssa.CallInstruction) bool { return callIs(x, "CreateOrder", "", "types.GroupID") }, "open group without an order")
	}
	{
		fn := l.msgServerMethod("x/deployment/handler", "CreateDeployment")
		c.Analysed(fnName(fn))
		rets := successReturns(fn)
		c.requireOnPaths("R2", "CreateDeployment: deployment and groups stored", fn, rets, func(x ssa.CallInstruction) bool { return callIs(x, "Create", "IKeeper", "types.Deployment") }, "")
		c.requireOnPaths("R2", "CreateDeployment: one order per group", fn, rets, func(x ssa.CallInstruction) bool { return callIs(x, "CreateOrder", "", "types.GroupID") }, "open group without an order")
	}
	// -- market keeper cascade
	c.groupCascade("R2")
	// -- hooks
	{
		fn := l.Func("x/market/hooks", "hooks", "OnEscrowAccountClosed")
		c.Analysed(fnName(fn))
		dact, _ := constantInt2(l, dk, "DeploymentActive")
		// the acting path: deployment found and active
		rets := func(f []Atom) bool { return hasStateFact(f, "eq", "GetDeployment(", dact) }
		c.requireWhen("R2", "account-closed hook: deployment -> closed", fn, rets, func(x ssa.CallInstruction) bool { return callIs(x, "CloseDeployment", "", "types.Deployment") }, "deployment stays active although its escrow account is closed")
		c.requireWhen("R2", "account-closed hook: all groups enumerated", fn, rets, func(x ssa.CallInstruction) bool { return callIs(x, "GetGroups", "", "types.DeploymentID") }, "")
		og := c.requireWhen("R2", "account-closed hook: groups closed", fn, rets, func(x ssa.CallInstruction) bool { return callIs(x, "OnCloseGroup", "", "types.Group") }, "groups stay open under a closed deployment")
		for _, call := range og {
			// guard is exactly ValidateClosable()==nil
			n := 0
			for _, f := range factsAt(call.Block()) {
				if h := loopHeaderOf(call.Block()); h != nil && f.If != nil && f.If.Block() != h && domSame(h, f.If.Block()) {
					n++
					cv, _ := callOf(f.X)
					if cv == nil || calleeMethod(cv) != "ValidateClosable" {
						n += 100
					}
				}
			}
			c.Ob("R2", "account-closed hook: every closable group is closed", call.Pos(), n == 1, "group closing inside the hook is skipped under an extra condition")
			// state argument: closed, or insufficient_funds iff account overdrawn
			a := userArgs(call)
			cs := l.constSetThroughCallers(a[1], 0)
			gc, _ := constantInt2(l, dk, "GroupClosed")
			gi, _ := constantInt2(l, dk, "GroupInsufficientFunds")
			c.Ob("R2", "account-closed hook: groups end closed or insufficient_funds", call.Pos(), cs != nil && len(cs) == 2 && cs[gc] && cs[gi], "group state argument "+Sym(a[1]))
		}
		c.requireFollows("R2", "account-closed hook: every group closed by the hook is cascaded to the market", fn, successReturns(fn),
			func(x ssa.CallInstruction) bool { return callIs(x, "OnCloseGroup", "", "types.Group") },
			func(x ssa.CallInstruction) bool { return callIs(x, "OnGroupClosed", "", "types.GroupID") },
			"orders/bids/leases stay live under a group the hook closed")
		c.requireWhen("R2", "account-closed hook: market cascade per group", fn, rets, func(x ssa.CallInstruction) bool { return callIs(x, "OnGroupClosed", "", "types.GroupID") }, "orders/bids/leases stay live under a closed deployment")
	}
	{
		fn := l.Func("x/market/hooks", "hooks", "OnEscrowPaymentClosed")
		c.Analysed(fnName(fn))
		bact, _ := constantInt2(l, mk, "BidActive")
		rets := func(f []Atom) bool {
			if !hasStateFact(f, "eq", "GetBid(", bact) {
				return false
			}
			// order and lease found
			nfound := 0
			for _, a := range f {
				if a.Op == "true" {
					if call, idx := callOf(a.X); call != nil && idx == 1 && (calleeMethod(call) == "GetOrder" || calleeMethod(call) == "GetLease") {
						nfound++
					}
				}
			}
			return nfound == 2
		}
		c.requireWhen("R2", "payment-closed hook: order -> closed", fn, rets, func(x ssa.CallInstruction) bool { return callIs(x, "OnOrderClosed", "", "types.Order") }, "order stays matched after its payment closed")
		c.requireWhen("R2", "payment-closed hook: bid -> closed", fn, rets, func(x ssa.CallInstruction) bool { return callIs(x, "OnBidClosed", "", "types.Bid") }, "bid stays matched after its payment closed")
		for _, call := range c.requireWhen("R2", "payment-closed hook: lease -> closed/insufficient_funds", fn, rets, func(x ssa.CallInstruction) bool { return callIs(x, "OnLeaseClosed", "", "types.Lease") }, "lease stays active after its payment closed") {
			a := userArgs(call)
			c.Ob("R2", "payment-closed hook: lease end state is a constant close state", call.Pos(), l.constArgIn(a[1], mk, "LeaseClosed", "LeaseInsufficientFunds"), Sym(a[1]))
		}
	}
	c.Floor("R2", 40)
}

// nil2: identity (readability helper for "same return set")
func nil2(r []*ssa.Return) []*ssa.Return { return r }

func (c *Check) leaseGuards(kinds map[string]*recKind) {
	l := c.L
	// an open bid implies an open order: the bid record is created only behind a validator of the fetched order that
	// answers nil exactly for OrderOpen
	{
		cb := l.msgServerMethod("x/market/handler", "CreateBid")
		c.Analysed(fnName(cb))
		n := 0
		for _, call := range callsIn(cb, false) {
			if !callIs(call, "CreateBid", "IKeeper") {
				continue
			}
			n++
			ok := false
			for _, a := range factsAt(call.Block()) {
				if a.Op == "eq" && isNilConst(a.Y) {
					if cv, _ := callOf(a.X); cv != nil && strings.Contains(Sym(cv), "GetOrder(") {
						if g := cv.Call.StaticCallee(); g != nil && strings.HasPrefix(g.Name(), "Validate") {
							rk := kinds[akash+"/x/market/types.Order"]
							ns := l.validatorNilStates(kinds, rk, g)
							if len(ns) == 1 && ns[rk.byName["OrderOpen"]] {
								ok = true
							}
						}
					}
				}
			}
			c.Ob("R3", "CreateBid: a bid is stored only for an order that is open", call.Pos(), ok, "a bid can be stored (open) on an order that is matched or closed: it stays open when that order later closes")
		}
		if n == 0 {
			c.Ob("R3", "CreateBid: a bid is stored only for an order that is open", cb.Pos(), false, "no bid creation found")
		}
	}
	fn := l.msgServerMethod("x/market/handler", "CreateLease")
	bopen, _ := constantInt2(l, "x/market/types", "BidOpen")
	oopen, _ := constantInt2(l, "x/market/types", "OrderOpen")
	gopen, _ := constantInt2(l, "x/deployment/types", "GroupOpen")
	for _, call := range callsIn(fn, false) {
		if !(callIs(call, "PaymentCreate", "EscrowKeeper") || callIs(call, "CreateLease", "IKeeper")) {
			continue
		}
		f := factsAt(call.Block())
		c.Ob("R3", "CreateLease: "+calleeMethod(call)+" dominated by bid open", call.Pos(), hasStateFact(f, "eq", "GetBid(", bopen), "a lease can be created on a bid that is not open")
		c.Ob("R3", "CreateLease: "+calleeMethod(call)+" dominated by order open", call.Pos(), hasStateFact(f, "eq", "GetOrder(", oopen), "a lease can be created on an order that is not open")
		c.Ob("R3", "CreateLease: "+calleeMethod(call)+" dominated by group open", call.Pos(), hasStateFact(f, "eq", "GetGroup(", gopen), "a lease can be created under a group that is not open")
	}
	// the bid, order and group checked are the ones named by the message
	for _, call := range callsIn(fn, false) {
		a := userArgs(call)
		switch {
		case callIs(call, "GetBid", ""):
			c.Ob("R3", "CreateLease: bid looked up by the message's bid id", call.Pos(), Sym(a[0]) == "*p:msg.BidID", Sym(a[0]))
		case callIs(call, "GetOrder", ""):
			c.Ob("R3", "CreateLease: order looked up from the message's bid id", call.Pos(), strings.HasSuffix(Sym(a[0]), "BidID.OrderID(*p:msg.BidID)"), Sym(a[0]))
		case callIs(call, "GetGroup", ""):
			c.Ob("R3", "CreateLease: group looked up from the order", call.Pos(), strings.Contains(Sym(a[0]), "GroupID(") && strings.Contains(Sym(a[0]), "GetOrder("), Sym(a[0]))
		}
	}
	// CreateOrder keeper: Set dominated by free key and by "no active/open earlier order"
	co := l.Func("x/market/keeper", "Keeper", "CreateOrder")
	c.Analysed(fnName(co))
	for _, call := range callsIn(co, false) {
		if !isStoreSet(call) {
			continue
		}
		key := Sym(call.Common().Args[0])
		free := boolCallFactAt(call.Block(), false, func(h *ssa.Call, _ int) bool { return calleeMethod(h) == "Has" && Sym(h.Call.Args[0]) == key })
		c.Ob("R3", "CreateOrder: stored only under a free key", call.Pos(), free, "an existing order can be overwritten")
		// err == nil fact on the variable written by the scan callback
		scanOK := false
		for _, a := range factsAt(call.Block()) {
			if a.Op == "eq" && isNilConst(a.Y) && strings.HasPrefix(Sym(a.X), "local:err") {
				scanOK = true
			}
		}
		c.Ob("R3", "CreateOrder: stored only if the scan of earlier orders reported no live order", call.Pos(), scanOK, "a second non-closed order can be created for the group")
	}
	// the scan: WithOrdersForGroup(gid) callback sets err from ValidateInactive and that validator accepts only closed
	cl := fnAndClosuresDeep(co) // the scan may sit in a new helper of CreateOrder
	okScan := false
	for _, g := range cl[1:] {
		for _, call := range callsIn(g, false) {
			if calleeMethod(call) == "ValidateInactive" {
				if vf := call.Common().StaticCallee(); vf != nil {
					rk := kinds[akash+"/x/market/types.Order"]
					ns := l.validatorNilStates(kinds, rk, vf)
					if len(ns) == 1 && ns[rk.byName["OrderClosed"]] {
						okScan = true
					}
				}
			}
		}
	}
	c.Ob("R3", "CreateOrder: earlier orders must all be closed", co.Pos(), okScan, "scan accepts a non-closed earlier order")
	for _, call := range callsIn(co, false) {
		if callIs(call, "WithOrdersForGroup", "") {
			a := userArgs(call)
			c.Ob("R3", "CreateOrder: scan covers the group of the new order", call.Pos(), Sym(a[0]) == "p:gid", Sym(a[0]))
		}
	}
	c.Floor("R3", 12)
}

func (c *Check) priceFlow() {
	l := c.L
	// lease price = bid price
	cl := l.Func("x/market/keeper", "Keeper", "CreateLease")
	n := 0
	eachInstr(cl, func(i ssa.Instruction) {
		st, ok := i.(*ssa.Store)
		if !ok {
			return
		}
		if fa, ok := st.Addr.(*ssa.FieldAddr); ok {
			tn, f := structFieldOf(fa)
			if strings.HasSuffix(tn, "market/types.Lease") && f == "Price" {
				n++
				c.Ob("R4", "lease price is the matched bid's price", st.Pos(), strings.HasSuffix(Sym(st.Val), "bid.Price") && strings.Contains(Sym(st.Val), "bid"), "Lease.Price <- "+Sym(st.Val))
			}
			if strings.HasSuffix(tn, "market/types.Lease") && f == "LeaseID" {
				c.Ob("R4", "lease id is the matched bid's id", st.Pos(), strings.Contains(Sym(st.Val), "Bid.ID("), "Lease.LeaseID <- "+Sym(st.Val))
			}
		}
	})
	if n == 0 {
		c.Fail("C04-R4: lease price store not found")
	}
	// escrow rate = bid price in handler; the bid passed to keeper CreateLease is the fetched bid
	h := l.msgServerMethod("x/market/handler", "CreateLease")
	for _, call := range callsIn(h, false) {
		if callIs(call, "PaymentCreate", "EscrowKeeper") {
			a := userArgs(call)
			c.Ob("R4", "payment rate is the matched bid's price", call.Pos(), strings.HasSuffix(Sym(a[3]), "GetBid(*p:ms.keepers.Market, "+ctxSym(h)+", *p:msg.BidID)#0.Price") || (strings.Contains(Sym(a[3]), "GetBid(") && strings.HasSuffix(Sym(a[3]), "#0.Price")), "rate "+Sym(a[3]))
		}
		if callIs(call, "CreateLease", "IKeeper") {
			a := userArgs(call)
			c.Ob("R4", "lease is created from the fetched bid", call.Pos(), strings.Contains(Sym(a[0]), "GetBid(") && strings.HasSuffix(Sym(a[0]), "#0"), Sym(a[0]))
		}
	}
	// bid price = message price under the not-above-maximum guard
	cb := l.msgServerMethod("x/market/handler", "CreateBid")
	for _, call := range callsIn(cb, false) {
		if callIs(call, "CreateBid", "IKeeper") {
			a := userArgs(call)
			c.Ob("R4", "bid stored with the message price", call.Pos(), Sym(a[2]) == "*p:msg.Price", Sym(a[2]))
			ok := boolCallFactAt(call.Block(), false, func(hc *ssa.Call, _ int) bool {
				return calleeMethod(hc) == "IsLT" && Sym(hc.Call.Args[1]) == "*p:msg.Price" && strings.Contains(Sym(hc.Call.Args[0]), "Order.Price(")
			})
			c.Ob("R4", "bid price not above the order's maximum", call.Pos(), ok, "bid stored without the order.Price().IsLT(price) guard")
		}
	}
	kb := l.Func("x/market/keeper", "Keeper", "CreateBid")
	eachInstr(kb, func(i ssa.Instruction) {
		if st, ok := i.(*ssa.Store); ok {
			if fa, ok := st.Addr.(*ssa.FieldAddr); ok {
				if tn, f := structFieldOf(fa); strings.HasSuffix(tn, "market/types.Bid") && f == "Price" {
					c.Ob("R4", "bid record price is the price argument", st.Pos(), Sym(st.Val) == "p:price", Sym(st.Val))
				}
			}
		}
	})
	c.Floor("R4", 6)
}

func ctxSym(fn *ssa.Function) string { return "" }

// ---- R5 stale records across hook-firing calls -------------------------------------------

func isEscrowHookFiringDirect(call ssa.CallInstruction) bool {
	m := calleeMethod(call)
	if m != "AccountClose" && m != "PaymentClose" && m != "PaymentWithdraw" && m != "AccountSettle" {
		return false
	}
	full := calleeFull(call)
	if !strings.Contains(full, "EscrowKeeper") && !strings.Contains(full, "escrow/keeper") {
		return false
	}
	a := userArgs(call)
	return len(a) > 0 && strings.Contains(Sym(a[0]), "EscrowAccountForDeployment(")
}

// hookFiring: predicate "this call may run the escrow hooks" (a direct AccountClose/PaymentClose/... on the
// escrow keeper, or a market/deployment keeper function that contains one).
func (c *Check) hookFiring() func(ssa.CallInstruction) bool {
	l := c.L
	// functions (market/deployment keepers) that directly contain a hook-firing escrow call
	hf := map[*ssa.Function]bool{}
	for _, rel := range []string{"x/market/keeper", "x/deployment/keeper"} {
		for _, fn := range l.pkgFuncs(rel) {
			for _, call := range callsIn(fn, false) {
				if isEscrowHookFiringDirect(call) {
					root := fn
					for root.Parent() != nil {
						root = root.Parent()
					}
					hf[root] = true
				}
			}
		}
	}
	return func(call ssa.CallInstruction) bool {
		if isEscrowHookFiringDirect(call) {
			return true
		}
		for _, g := range l.prodCalleesOf(call) {
			if hf[g] {
				return true
			}
		}
		return false
	}
}

func (c *Check) staleAcrossHooks(kinds map[string]*recKind) {
	c.staleAcrossHooksRule("R5", kinds)
	// the cascades (close a deployment -> its groups, orders, bids, leases, payments) enumerate children by key prefix:
	// the prefix of one parent must select that parent's records only (key layouts, shared with C06-R5)
	c.keyLayoutsRule("R6", []string{"x/market/keeper", "x/deployment/keeper", "x/escrow/keeper"}, 4, 6)
	// the lease handler writes lease / order / bid from copies read before PaymentCreate; that is only sound because
	// PaymentCreate fails whenever its settlement fired the close hooks (shared with C03 / C05)
	c.paymentCreateGuards("R5", c.L.settleCore(), mutatingFuncs(c.L, c.L.pkgFuncs("x/escrow/keeper")))
}

func (c *Check) staleAcrossHooksRule(rule string, kinds map[string]*recKind) {
	l := c.L
	fires := c.hookFiring()
	var subjects []*ssa.Function
	for _, rel := range []string{"x/market/handler", "x/deployment/handler"} {
		for _, fn := range l.pkgFuncs(rel) {
			if fn.Signature.Recv() != nil && strings.Contains(fn.Signature.Recv().Type().String(), "msgServer") && fn.Parent() == nil {
				subjects = append(subjects, fn)
			}
		}
	}
	nE := 0
	for _, fn := range subjects {
		c.Analysed(fnName(fn))
		for _, e := range callsIn(fn, false) {
			if !fires(e) {
				continue
			}
			nE++
			stale := ""
			var pos = e.Pos()
			check := func(u ssa.Instruction, rec ssa.Value, what string) {
				if recordTypeOf(kinds, rec.Type()) == nil {
					return
				}
				// a local variable holding the record: every value ever stored in it must be fresh
				srcs := []ssa.Value{rec}
				if ld, isLd := rec.(*ssa.UnOp); isLd {
					if a, isA := ld.X.(*ssa.Alloc); isA {
						srcs = nil
						for _, r := range *a.Referrers() {
							if st, isSt := r.(*ssa.Store); isSt && st.Addr == ssa.Value(a) {
								srcs = append(srcs, st.Val)
							}
						}
					}
				}
				if len(srcs) == 0 {
					return
				}
				for _, src := range srcs {
					d, _ := callOf(src)
					if d == nil || ssa.Instruction(d) == e.(ssa.Instruction) {
						return
					}
					if !instrDominates(d, e.(ssa.Instruction)) {
						return // (re)loaded after or independently of the hook-firing call
					}
				}
				stale += what + " of " + short(Sym(rec)) + " at " + l.Pos(u.Pos()) + "; "
				pos = u.Pos()
			}
			eachInstr(fn, func(u ssa.Instruction) {
				if u == e.(ssa.Instruction) || !reachableFrom(e.(ssa.Instruction), u) {
					return
				}
				switch x := u.(type) {
				case ssa.CallInstruction:
					cc := x.Common()
					if cc.IsInvoke() || (cc.StaticCallee() != nil && strings.Contains(fnPkgPath(cc.StaticCallee()), "/keeper")) {
						for _, a := range cc.Args {
							check(u, a, "record passed to "+calleeMethod(x))
						}
					}
				case *ssa.Field:
					if fieldName(x.X.Type(), x.Field) == "State" {
						check(u, x.X, "State read")
					}
				case *ssa.UnOp:
					if fa, isFA := x.X.(*ssa.FieldAddr); isFA && x.Op.String() == "*" && fieldName(fa.X.Type(), fa.Field) == "State" {
						if a, isA := fa.X.(*ssa.Alloc); isA {
							// synthesize a load of the variable
							for _, r := range *a.Referrers() {
								if ld, isLd := r.(*ssa.UnOp); isLd && ld.X == ssa.Value(a) {
									check(u, ld, "State read")
									return
								}
							}
							// no whole load exists: check the stores directly
							var any ssa.Value
							allBefore := true
							for _, r := range *a.Referrers() {
								if st, isSt := r.(*ssa.Store); isSt && st.Addr == ssa.Value(a) {
									any = st.Val
									d, _ := callOf(st.Val)
									if d == nil || ssa.Instruction(d) == e.(ssa.Instruction) || !instrDominates(d, e.(ssa.Instruction)) {
										allBefore = false
									}
								}
							}
							if any != nil && allBefore && recordTypeOf(kinds, any.Type()) != nil {
								stale += "State read of local:" + a.Comment + " at " + l.Pos(u.Pos()) + "; "
								pos = u.Pos()
							}
						}
					}
				}
			})
			c.Ob(rule, fnName(fn)+": no record fetched before "+calleeMethod(e)+" (may fire escrow hooks) is used after it", pos, stale == "", "stale use after a call that can close the deployment/groups/leases through escrow hooks: "+stale)
		}
	}
	if nE < 4 {
		c.Fail("%s lost instances: %d hook-firing calls", rule, nE)
	}
}

// ---- R6 cascade callbacks never stop early --------------------------------------------------

func (c *Check) cascadeCallbacks() {
	l := c.L
	subjects := []*ssa.Function{l.msgServerMethod("x/market/handler", "CreateLease"), l.Func("x/market/keeper", "Keeper", "OnGroupClosed")}
	n := 0
	for _, fn := range subjects {
		for _, g := range fnAndClosuresDeep(fn)[1:] {
			// iterator callbacks: func(record) bool
			if res := g.Signature.Results(); g.Parent() == nil || res.Len() != 1 || res.At(0).Type().String() != "bool" {
				continue
			}
			n++
			ok := true
			for _, b := range g.Blocks {
				if r, isR := b.Instrs[len(b.Instrs)-1].(*ssa.Return); isR {
					if len(r.Results) != 1 {
						ok = false
						continue
					}
					if !alwaysFalse(r.Results[0], 0) {
						ok = false
					}
				}
			}
			c.Ob("R6", "iterator callback "+fnName(g)+" never stops the enumeration", g.Pos(), ok, "callback can return true (stop): records after the first match are skipped by the cascade")
		}
	}
	if n < 3 {
		c.Fail("C04-R6 lost instances")
	}
}

func blockReachesAvoiding(from, to, avoid *ssa.BasicBlock) bool {
	seen := map[*ssa.BasicBlock]bool{avoid: true}
	stack := append([]*ssa.BasicBlock{}, from.Succs...)
	for len(stack) > 0 {
		x := stack[len(stack)-1]
		stack = stack[:len(stack)-1]
		if seen[x] {
			continue
		}
		seen[x] = true
		if x == to {
			return true
		}
		stack = append(stack, x.Succs...)
	}
	return false
}

// alwaysFalse: v is the constant false, or the result of a new helper (see transparent.go) that only returns false.
func alwaysFalse(v ssa.Value, depth int) bool {
	if k, isK := v.(*ssa.Const); isK {
		return k.Value != nil && k.Value.ExactString() == "false"
	}
	if cv, isC := v.(*ssa.Call); isC && depth < 3 {
		if g := newHelperCallee(cv); g != nil {
			rets := helperReturns(g, 0)
			for _, rv := range rets {
				if !alwaysFalse(rv, depth+1) {
					return false
				}
			}
			return len(rets) > 0
		}
	}
	return false
}

// liveStatesIfClose: when every state sa assigns is a terminal one of its record kind, the live states of that kind.
func liveStatesIfClose(sa *stateAssign) ([]string, bool) {
	terminal := map[string][]string{
		"Group":      {"GroupClosed", "GroupInsufficientFunds"},
		"Order":      {"OrderClosed"},
		"Bid":        {"BidClosed"},
		"Lease":      {"LeaseClosed", "LeaseInsufficientFunds"},
		"Deployment": {"DeploymentClosed"},
	}
	live := map[string][]string{
		"Group":      {"GroupOpen", "GroupPaused"},
		"Order":      {"OrderOpen", "OrderActive"},
		"Bid":        {"BidOpen", "BidActive"},
		"Lease":      {"LeaseActive"},
		"Deployment": {"DeploymentActive"},
	}
	if len(sa.vals) == 0 {
		return nil, false
	}
	for v := range sa.vals {
		ok := false
		for _, n := range terminal[sa.rk.name] {
			if sa.rk.byName[n] == v {
				ok = true
			}
		}
		if !ok {
			return nil, false
		}
	}
	return live[sa.rk.name], true
}

// groupCascade: closing (or pausing) a group closes every order of the group, every bid of those orders and, where
// a bid has a lease, that lease and its payment stream (shared by C04-R2 and C05-R1: a lease left active, or a
// payment left open, under a closed bid keeps charging / never records the closure).
func (c *Check) groupCascade(rule string) {
	l := c.L
	fn := l.Func("x/market/keeper", "Keeper", "OnGroupClosed")
	c.Analysed(fnName(fn))
	// the two callbacks by role: what is handed to the order enumeration and to the bid enumeration (closures,
	// method values, or closures that call a new helper)
	var oc, bc *ssa.Function
	for _, g := range fnAndClosuresDeep(fn) {
		for _, call := range callsInOwn(g) {
			a := call.Common().Args
			if len(a) == 0 {
				continue
			}
			switch {
			case callIs(call, "WithOrdersForGroup", "", "types.GroupID"):
				oc = callbackFunc(a[len(a)-1])
			case callIs(call, "WithBidsForOrder", "", "types.OrderID"):
				bc = callbackFunc(a[len(a)-1])
			}
		}
	}
	if oc == nil || bc == nil {
		c.Fail("OnGroupClosed: order / bid enumeration callbacks not found")
	}
	c.requireOnPaths(rule, "group cascade: orders of the group enumerated", fn, successReturns(fn), func(x ssa.CallInstruction) bool { return callIs(x, "WithOrdersForGroup", "", "types.GroupID") }, "")
	c.requireOnPaths(rule, "group cascade: every order -> closed", oc, successReturns(oc), func(x ssa.CallInstruction) bool { return callIs(x, "OnOrderClosed", "", "types.Order") }, "order stays live under a closed/paused group")
	c.requireOnPaths(rule, "group cascade: bids of every order enumerated", oc, successReturns(oc), func(x ssa.CallInstruction) bool { return callIs(x, "WithBidsForOrder", "", "types.OrderID") }, "")
	c.requireOnPaths(rule, "group cascade: every bid -> closed", bc, successReturns(bc), func(x ssa.CallInstruction) bool { return callIs(x, "OnBidClosed", "", "types.Bid") }, "bid stays live under a closed/paused group")
	// lease: if GetLease found -> OnLeaseClosed + PaymentClose
	leaseFound := func(f []Atom) bool {
		for _, a := range f {
			if a.Op == "true" {
				if cv, k := callOf(a.X); cv != nil && k == 1 && calleeMethod(cv) == "GetLease" {
					return true
				}
			}
		}
		return false
	}
	c.requireWhen(rule, "group cascade: existing lease -> closed", bc, leaseFound, func(x ssa.CallInstruction) bool { return callIs(x, "OnLeaseClosed", "", "types.Lease") }, "lease stays active under a closed/paused group")
	c.requireWhen(rule, "group cascade: existing lease's payment closed", bc, leaseFound, func(x ssa.CallInstruction) bool { return callIs(x, "PaymentClose", "EscrowKeeper") }, "payment keeps streaming for a closed lease")
}
