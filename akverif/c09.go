package main

import (
	"go/token"
	"go/types"
	"sort"
	"strings"

	"golang.org/x/tools/go/ssa"
)

func init() { registry["C09"] = checkC09 }

func checkC09(c *Check) {
	c.Explanation = "Decided on all paths of the gateway's TLS verifier and router: (R1) trust source — the certificate pool used as verification roots (or an equality test against the presented bytes) is populated from the on-chain query response, never only from the peer-presented certificate; (R2) in the client-certificate branch every return that can be nil passes through the success edge of x509 Verify, which is dominated by: exactly one certificate, parse ok, subject CN is an address, chain query ok with filter (owner = that address, serial = presented serial, state valid), exactly one valid result; verification uses ClientAuth key usage and the wall clock; rejections built with Wrap(nil, ..) count as nil returns; TLS requests client certs and at least TLS 1.2; (R3) every route whose handler reads the authenticated owner / lease id / deployment id sits behind requireOwner and the matching id middleware; (R4) the owner context value is set only from the verified peer certificate's CN after rejecting requests without one, the provider value only from the server's own address, lease/deployment ids are assembled from those two plus numeric path variables only, and every id passed to the cluster/manifest clients comes from those context values; (R5) the gateway packages keep no memo across requests (no sync.Map, no shared map access) and the TLS verifier is handed the chain query client itself. removeLease hands the closed lease to the manager without a default case; every Leases request of ActiveLeasesForProvider is filtered by provider and state."
	c.NotDecided = "cryptographic soundness of x509.Verify and the TLS stack; expiry arithmetic inside Verify"
	l := c.L
	cfgFn := l.Func("provider/gateway/utils", "", "NewServerTLSConfig")
	c.Analysed(fnName(cfgFn))
	// the closure stored in VerifyPeerCertificate and the other config fields
	var vf *ssa.Function
	cfg := map[string]string{}
	eachInstr(cfgFn, func(i ssa.Instruction) {
		st, ok := i.(*ssa.Store)
		if !ok {
			return
		}
		fa, ok := st.Addr.(*ssa.FieldAddr)
		if !ok {
			return
		}
		tn, f := structFieldOf(fa)
		if tn != "crypto/tls.Config" {
			return
		}
		cfg[f] = Sym(st.Val)
		if f == "VerifyPeerCertificate" {
			if mc, ok := st.Val.(*ssa.MakeClosure); ok {
				vf = mc.Fn.(*ssa.Function)
			}
		}
	})
	if vf == nil {
		c.Fail("unresolved anchor: VerifyPeerCertificate closure")
	}
	c.Analysed(fnName(vf))
	c.Ob("R2", "server requests a client certificate", cfgFn.Pos(), cfg["ClientAuth"] != "" && cfg["ClientAuth"] != "0", "ClientAuth="+cfg["ClientAuth"])
	mv := cfg["MinVersion"]
	c.Ob("R2", "minimum TLS version is at least 1.2", cfgFn.Pos(), mv == "771" || mv == "772", "MinVersion="+mv)

	// locate Verify
	var verify *ssa.Call
	for _, call := range callsIn(vf, false) {
		if calleeFull(call) == "(*crypto/x509.Certificate).Verify" {
			verify = call.(*ssa.Call)
		}
	}
	c.Ob("R2", "verifier calls x509 Verify on the presented certificate", vf.Pos(), verify != nil, "no cryptographic verification")
	if verify == nil {
		return
	}
	presented := Sym(verify.Call.Args[0])
	c.Ob("R1", "the certificate verified is the one the peer presented", verify.Pos(), strings.Contains(presented, "x509.ParseCertificate(*p:certificates[0])#0"), presented)
	// options
	opts := map[string]ssa.Value{}
	eachInstrDeep(vf, func(i ssa.Instruction) {
		if st, ok := i.(*ssa.Store); ok {
			if fa, ok := st.Addr.(*ssa.FieldAddr); ok {
				if tn, f := structFieldOf(fa); tn == "crypto/x509.VerifyOptions" {
					opts[f] = st.Val
				}
			}
		}
	})
	// ---- R1 trust source
	var query *ssa.Call
	for _, call := range callsIn(vf, false) {
		if calleeMethod(call) == "Certificates" && strings.Contains(calleeFull(call), "QueryClient") {
			query = call.(*ssa.Call)
		}
	}
	c.Ob("R2", "verifier looks the certificate up on chain", vf.Pos(), query != nil, "no chain lookup")
	fromChain := func(v ssa.Value) bool {
		return query != nil && strings.Contains(Sym(v), "QueryClient.Certificates(")
	}
	trusted := false
	detail := "verification roots are not populated from the chain response"
	if pool, ok := opts["Roots"]; ok {
		n := 0
		for _, call := range callsIn(vf, false) {
			full := calleeFull(call)
			if (full == "(*crypto/x509.CertPool).AddCert" || full == "(*crypto/x509.CertPool).AppendCertsFromPEM") && call.Common().Args[0] == pool {
				n++
				arg := call.Common().Args[1]
				if fromChain(arg) {
					trusted = true
				} else {
					detail = "the verification pool is filled with " + short(Sym(arg)) + " (peer-presented data): a self-made certificate with the same subject and serial verifies against itself"
				}
			}
		}
		if n == 0 {
			detail = "verification pool is never populated"
		}
	}
	// alternative: explicit equality of presented bytes with on-chain bytes on the ok path
	if !trusted {
		for _, call := range callsIn(vf, false) {
			full := calleeFull(call)
			if full == "bytes.Equal" || full == "(*crypto/x509.Certificate).Equal" {
				a := allArgs(call)
				s0, s1 := Sym(a[0]), Sym(a[1])
				chain0, chain1 := fromChain(a[0]), fromChain(a[1])
				peer0 := strings.Contains(s0, "p:certificates")
				peer1 := strings.Contains(s1, "p:certificates")
				if (chain0 && peer1) || (chain1 && peer0) {
					// failing edge must reject
					for _, rr := range *call.(*ssa.Call).Referrers() {
						if ifi, ok := rr.(*ssa.If); ok {
							if errReturnBlock(ifi.Block().Succs[1]) {
								trusted = true
							}
						}
						if u, ok := rr.(*ssa.UnOp); ok && u.Op.String() == "!" {
							for _, r2 := range *u.Referrers() {
								if ifi, ok := r2.(*ssa.If); ok && errReturnBlock(ifi.Block().Succs[0]) {
									trusted = true
								}
							}
						}
					}
				}
			}
		}
	}
	c.Ob("R1", "verification is anchored in the certificate published on chain", verify.Pos(), trusted, detail)

	// ---- R2 must-pass
	var okBlk *ssa.BasicBlock
	var vif *ssa.If
	for _, rr := range *verify.Referrers() {
		if ex, ok := rr.(*ssa.Extract); ok && ex.Index == 1 {
			for _, r2 := range *ex.Referrers() {
				if b, ok := r2.(*ssa.BinOp); ok && b.Op.String() == "!=" {
					for _, r3 := range *b.Referrers() {
						if ifi, ok := r3.(*ssa.If); ok && errReturnBlock(ifi.Block().Succs[0]) {
							vif = ifi
							okBlk = ifi.Block() // facts at the test block hold on its success edge too
						}
					}
				}
			}
		}
	}
	c.Ob("R2", "the result of Verify is checked and a failure rejects", verify.Pos(), okBlk != nil, "Verify error ignored")
	if okBlk != nil {
		f := factsAt(okBlk)
		has := func(pred func(a Atom) bool) bool {
			for _, a := range f {
				if pred(a) {
					return true
				}
			}
			return false
		}
		c.Ob("R2", "exactly one certificate presented", verify.Pos(), has(func(a Atom) bool { return a.Op == "eq" && Sym(a.X) == "builtin.len(p:certificates)" && Sym(a.Y) == "1" }), "")
		c.Ob("R2", "certificate parsed successfully", verify.Pos(), has(func(a Atom) bool {
			return a.Op == "eq" && isNilConst(a.Y) && Sym(a.X) == "x509.ParseCertificate(*p:certificates[0])#1"
		}), "")
		c.Ob("R2", "subject common name is an account address", verify.Pos(), has(func(a Atom) bool {
			return a.Op == "eq" && isNilConst(a.Y) && strings.HasPrefix(Sym(a.X), "types.AccAddressFromBech32(") && strings.Contains(Sym(a.X), ".Subject.CommonName)#1")
		}), "")
		c.Ob("R2", "chain query succeeded", verify.Pos(), query != nil && has(func(a Atom) bool {
			cv, idx := callOf(a.X)
			return a.Op == "eq" && isNilConst(a.Y) && cv == query && idx == 1
		}), "")
		c.Ob("R2", "exactly one certificate returned by the chain", verify.Pos(), has(func(a Atom) bool {
			return a.Op == "eq" && strings.HasPrefix(Sym(a.X), "builtin.len(") && strings.Contains(Sym(a.X), "QueryClient.Certificates(") && strings.HasSuffix(Sym(a.X), ".Certificates)") && Sym(a.Y) == "1"
		}), "")
		validK := l.constVal("x/cert/types", "CertificateValid").ExactString()
		c.Ob("R2", "the returned certificate is in state valid", verify.Pos(), has(func(a Atom) bool {
			if a.Op != "true" {
				return false
			}
			cv, _ := callOf(a.X)
			return cv != nil && calleeMethod(cv) == "IsState" && strings.Contains(Sym(cv.Call.Args[0]), "QueryClient.Certificates(") && Sym(cv.Call.Args[1]) == validK
		}), "")
		if query != nil {
			req := Sym(query.Call.Args[len(query.Call.Args)-1])
			if len(allArgs(query)) >= 3 {
				req = Sym(allArgs(query)[2])
			}
			okF := strings.Contains(req, "Filter.Owner: types.Address.String(types.AccAddressFromBech32(") && strings.Contains(req, ".Subject.CommonName)#0)") &&
				strings.Contains(req, "Filter.Serial: big.Int.String(") && strings.Contains(req, ".SerialNumber)") && strings.Contains(req, "Filter.State: \"valid\"")
			c.Ob("R2", "chain query filters on owner = subject address, serial = presented serial, state = valid", query.Pos(), okF, short(req))
		}
		ku := ""
		if v, ok := opts["KeyUsages"]; ok {
			ku = Sym(v)
		}
		c.Ob("R2", "verification requires the client-auth key usage", verify.Pos(), ku == "[2]", "KeyUsages="+ku)
		ct := ""
		if v, ok := opts["CurrentTime"]; ok {
			ct = Sym(v)
		}
		c.Ob("R2", "validity period is checked against the wall clock", verify.Pos(), ct == "time.Now()", "CurrentTime="+ct+" (a time derived from the presented certificate disables expiry checking)")
		// every possibly-nil return reachable in the client-cert branch passes the ok block
		var branch *ssa.If
		eachInstrDeep(vf, func(i ssa.Instruction) {
			if ifi, ok := i.(*ssa.If); ok && Sym(ifi.Cond) == "(builtin.len(p:certificates) > 0)" {
				branch = ifi
			}
		})
		if branch == nil {
			c.Fail("unresolved anchor: client certificate branch")
		}
		start := branch.Block().Succs[0]
		first := start.Instrs[0]
		okFirst := ssa.Instruction(vif)
		bad := ""
		pos := vf.Pos()
		for _, r := range successReturns(vf) {
			if !(r.Block() == start || blockReaches(start, r.Block())) {
				continue
			}
			if ssa.Instruction(r) == first {
				bad = "immediate return"
				continue
			}
			if !mustPassFrom(vf, first, r, func(in ssa.Instruction) bool { return in == okFirst }) {
				// which value is returned on the offending path?
				for _, lf := range retLeaves(r.Results[0], r.Block(), map[ssa.Value]bool{}) {
					if !definitelyNonNilErr(lf.val, lf.blk, map[ssa.Value]bool{}) && !(vif.Block().Succs[1] == lf.blk || edgeDominates(vif.Block(), vif.Block().Succs[1], lf.blk)) {
						bad += "return of " + short(Sym(lf.val)) + " at " + l.Pos(r.Pos()) + " can be nil without verification; "
						pos = r.Pos()
					}
				}
				if bad == "" {
					bad = "a nil return is reachable without passing verification"
				}
			}
		}
		c.Ob("R2", "with a client certificate, acceptance (nil) is only returned after successful verification", pos, bad == "", bad)
	}

	// ---- R3 route coverage
	c.routeCoverage()
	// ---- R4 scope provenance
	c.scopeProvenance()
}

func (c *Check) routeCoverage() {
	l := c.L
	nr := l.Func("provider/gateway/rest", "", "newRouter")
	c.Analysed(fnName(nr))
	parent := map[ssa.Value]ssa.Value{}
	uses := map[ssa.Value][]string{}
	type route struct {
		router  ssa.Value
		path    string
		handler *ssa.Function
		pos     ssa.Instruction
	}
	var routes []route
	mwName := func(v ssa.Value) string {
		if call, ok := v.(*ssa.Call); ok {
			if g := call.Call.StaticCallee(); g != nil {
				return g.Name()
			}
		}
		if mc, ok := v.(*ssa.MakeClosure); ok {
			return "closure:" + mc.Fn.Name()
		}
		return Sym(v)
	}
	for _, b := range nr.Blocks {
		for _, in := range b.Instrs {
			call, ok := in.(*ssa.Call)
			if !ok {
				continue
			}
			full := calleeFull(call)
			switch full {
			case "(*github.com/gorilla/mux.Route).Subrouter":
				// receiver is PathPrefix(...) on some router
				if pp, ok := call.Call.Args[0].(*ssa.Call); ok && calleeFull(pp) == "(*github.com/gorilla/mux.Router).PathPrefix" {
					parent[call] = pp.Call.Args[0]
				}
			case "(*github.com/gorilla/mux.Router).Use":
				r := call.Call.Args[0]
				if sl, ok := call.Call.Args[1].(*ssa.Slice); ok {
					if arr, ok := sl.X.(*ssa.Alloc); ok {
						for _, e := range arrayStores(arr) {
							uses[r] = append(uses[r], mwName(stripConv(e)))
						}
					}
				}
			case "(*github.com/gorilla/mux.Router).HandleFunc":
				r := call.Call.Args[0]
				p, _ := strConst(call.Call.Args[1])
				var h *ssa.Function
				hv := stripConv(call.Call.Args[2])
				if hc, ok := hv.(*ssa.Call); ok {
					h = hc.Call.StaticCallee()
				} else if mc, ok := hv.(*ssa.MakeClosure); ok {
					h = mc.Fn.(*ssa.Function)
				}
				routes = append(routes, route{r, p, h, call})
			}
		}
	}
	reads := func(h *ssa.Function) map[string]bool {
		out := map[string]bool{}
		if h == nil {
			return out
		}
		seen := map[*ssa.Function]bool{}
		var walk func(f *ssa.Function, d int)
		walk = func(f *ssa.Function, d int) {
			if f == nil || seen[f] || f.Blocks == nil || d > 6 {
				return
			}
			seen[f] = true
			for _, g := range fnAndClosures(f) {
				for _, call := range callsIn(g, false) {
					callee := call.Common().StaticCallee()
					if callee == nil {
						continue
					}
					switch callee.Name() {
					case "requestLeaseID", "requestDeploymentID", "requestOwner":
						out[callee.Name()] = true
					}
					if fnPkgPath(callee) == fnPkgPath(h) {
						walk(callee, d+1)
					}
				}
			}
		}
		walk(h, 0)
		return out
	}
	nscoped := 0
	for _, rt := range routes {
		var chain []string
		var rs []ssa.Value
		for r := rt.router; r != nil; r = parent[r] {
			rs = append([]ssa.Value{r}, rs...)
		}
		for _, r := range rs {
			chain = append(chain, uses[r]...)
		}
		rd := reads(rt.handler)
		hn := "?"
		if rt.handler != nil {
			hn = rt.handler.Name()
			c.Analysed(fnName(rt.handler))
		}
		inst := "route " + rt.path + " (" + hn + ")"
		if len(rd) == 0 {
			c.Info("R3", inst+" is unscoped", rt.pos.Pos(), "handler reads no authenticated identity; middleware chain "+strings.Join(chain, ","))
			continue
		}
		nscoped++
		idx := func(n string) int {
			for i, m := range chain {
				if m == n {
					return i
				}
			}
			return -1
		}
		ok := idx("requireOwner") >= 0
		detail := "middleware chain [" + strings.Join(chain, ",") + "]"
		var need []string
		for k := range rd {
			need = append(need, k)
		}
		sort.Strings(need)
		for _, k := range need {
			switch k {
			case "requestLeaseID":
				if !(idx("requireLeaseID") > idx("requireOwner") && idx("requireOwner") >= 0) {
					ok = false
				}
			case "requestDeploymentID":
				if !(idx("requireDeploymentID") > idx("requireOwner") && idx("requireOwner") >= 0) {
					ok = false
				}
			}
		}
		c.Ob("R3", inst+" reads "+strings.Join(need, ",")+" behind requireOwner and the id middleware", rt.pos.Pos(), ok, "handler uses the authenticated identity but "+detail+" does not establish it (owner before id)")
	}
	if nscoped < 6 {
		c.Fail("C09-R3 lost instances: %d scoped routes", nscoped)
	}
}

func (c *Check) scopeProvenance() {
	l := c.L
	keys := map[string]string{}
	for _, k := range []string{"leaseContextKey", "deploymentContextKey", "ownerContextKey", "providerContextKey"} {
		keys[l.constVal("provider/gateway/rest", k).ExactString()] = k
	}
	nset := 0
	for _, fn := range l.pkgFuncs("provider/gateway/rest") {
		for _, call := range callsIn(fn, false) {
			if calleeFull(call) != "github.com/gorilla/context.Set" {
				continue
			}
			a := call.Common().Args
			kn := keys[Sym(a[1])]
			if kn == "" {
				continue
			}
			nset++
			val := Sym(a[2])
			root := fn
			for root.Parent() != nil {
				root = root.Parent()
			}
			switch kn {
			case "ownerContextKey":
				okv := val == "types.AccAddressFromBech32(*p:r.TLS.PeerCertificates[0].Subject.CommonName)#0" || strings.ReplaceAll(val, "*", "") == "types.AccAddressFromBech32(p:r.TLS.PeerCertificates[0].Subject.CommonName)#0"
				f := factsAt(call.Block())
				hasTLS, hasCert, okErr := false, false, false
				for _, at := range f {
					x := strings.ReplaceAll(Sym(at.X), "*", "")
					if at.Op == "neq" && x == "p:r.TLS" && isNilConst(at.Y) {
						hasTLS = true
					}
					if x == "builtin.len(p:r.TLS.PeerCertificates)" && at.Y != nil && (((at.Op == "neq" || at.Op == ">") && Sym(at.Y) == "0") || (at.Op == ">=" && Sym(at.Y) == "1")) {
						hasCert = true
					}
					if at.Op == "eq" && isNilConst(at.Y) && strings.HasPrefix(x, "types.AccAddressFromBech32(") && strings.HasSuffix(x, "#1") {
						okErr = true
					}
				}
				c.Ob("R4", "owner identity set in "+root.Name()+" from the verified peer certificate's CN", call.Pos(), root.Name() == "requireOwner" && okv, "owner context value = "+short(val))
				c.Ob("R4", "owner identity requires a TLS peer certificate and a valid address", call.Pos(), hasTLS && hasCert && okErr, "owner can be set for a request without a verified client certificate")
			case "providerContextKey":
				okProv := root.Name() == "newRouter" && val == "fv:addr"
				if !okProv {
					// a handler type of the package carrying the address in a field: every construction of that field
					// must receive newRouter's own address parameter (new helpers are looked through by Sym)
					if fld, isF := stripLoad(a[2]).(*ssa.FieldAddr); isF {
						tn, f := structFieldOf(fld)
						nst, okAll := 0, true
						for _, g := range l.pkgFuncs("provider/gateway/rest") {
							eachInstr(g, func(i ssa.Instruction) {
								st, isSt := i.(*ssa.Store)
								if !isSt {
									return
								}
								fa, isFA := st.Addr.(*ssa.FieldAddr)
								if !isFA {
									return
								}
								if t2, f2 := structFieldOf(fa); t2 != tn || f2 != f {
									return
								}
								nst++
								if sv := Sym(st.Val); sv != "p:addr" && sv != "fv:addr" {
									okAll = false
								}
							})
						}
						okProv = nst > 0 && okAll && strings.HasPrefix(tn, akash+"/provider/gateway/rest.")
					}
				}
				c.Ob("R4", "provider identity set in "+root.Name()+" from the server's own address", call.Pos(), okProv, "provider context value = "+val)
			case "leaseContextKey":
				okLease := root.Name() == "requireLeaseID" && val == "rest.parseLeaseID(p:req)#0" && okEdgeAt(call.Block(), mustCallOf(a[2]))
				if cv := mustCallOf(a[2]); !okLease && cv != nil && calleeMethod(cv) == "ParseLeasePath" && len(cv.Call.Args) > 0 {
					// the parse helper was inlined: the id is parsed in place from the same five parts
					okLease = root.Name() == "requireLeaseID" && strings.ReplaceAll(Sym(cv.Call.Args[0]), "*", "") == leasePathParts && okEdgeAt(call.Block(), cv)
				}
				c.Ob("R4", "lease id set in "+root.Name()+" from parseLeaseID", call.Pos(), okLease, val)
			case "deploymentContextKey":
				c.Ob("R4", "deployment id set in "+root.Name()+" from parseDeploymentID", call.Pos(), root.Name() == "requireDeploymentID" && val == "rest.parseDeploymentID(p:req)#0" && okEdgeAt(call.Block(), mustCallOf(a[2])), val)
			}
		}
	}
	if nset < 4 {
		c.Fail("C09-R4 lost instances: %d context sets", nset)
	}
	// parse functions
	if pl := l.FuncOpt("provider/gateway/rest", "", "parseLeaseID"); pl != nil {
		for _, call := range callsIn(pl, false) {
			if calleeMethod(call) == "ParseLeasePath" {
				s := strings.ReplaceAll(Sym(call.Common().Args[0]), "*", "")
				c.Ob("R4", "lease id = (authenticated owner, dseq, gseq, oseq from the path, this provider)", call.Pos(), s == leasePathParts, s)
			}
		}
	}
	pd := l.Func("provider/gateway/rest", "", "parseDeploymentID")
	for _, call := range callsIn(pd, false) {
		if calleeMethod(call) == "ParseDeploymentPath" {
			s := strings.ReplaceAll(Sym(call.Common().Args[0]), "*", "")
			ok := strings.Contains(s, "types.Address.String(rest.requestOwner(p:req))") && strings.Contains(s, `mux.Vars(p:req)["dseq"]`) && strings.Index(s, "requestOwner") < strings.Index(s, `"dseq"`) && strings.Count(s, "mux.Vars") == 1
			c.Ob("R4", "deployment id = (authenticated owner, dseq from the path)", call.Pos(), ok, s)
		}
	}
	// getters read the matching keys
	for getter, key := range map[string]string{"requestOwner": "ownerContextKey", "requestProvider": "providerContextKey", "requestLeaseID": "leaseContextKey", "requestDeploymentID": "deploymentContextKey"} {
		g := l.Func("provider/gateway/rest", "", getter)
		ok := false
		for _, call := range callsIn(g, false) {
			if calleeFull(call) == "github.com/gorilla/context.Get" && keys[Sym(call.Common().Args[1])] == key {
				ok = true
			}
		}
		c.Ob("R4", getter+" reads "+key, g.Pos(), ok, "")
	}
	// ids passed to the cluster / manifest clients
	nid := 0
	for _, fn := range l.pkgFuncs("provider/gateway/rest") {
		file := l.Fset.Position(fn.Pos()).Filename
		if !strings.Contains(file, "router") {
			continue
		}
		for _, call := range callsIn(fn, false) {
			cc := call.Common()
			if !cc.IsInvoke() {
				continue
			}
			full := calleeFull(call)
			if !strings.Contains(full, "provider/cluster.") && !strings.Contains(full, "provider/manifest.") {
				continue
			}
			for _, a := range cc.Args {
				t := a.Type().String()
				if !strings.HasSuffix(t, "types.LeaseID") && !strings.HasSuffix(t, "types.DeploymentID") {
					continue
				}
				nid++
				s := Sym(a)
				ok := strings.Contains(s, "rest.requestLeaseID(") || strings.Contains(s, "rest.requestDeploymentID(")
				if !ok && (strings.Contains(s, ".lid") || strings.Contains(s, "fv:") || strings.Contains(s, "p:")) {
					ok = idFieldFromContext(l, fn, a)
				}
				c.Ob("R4", calleeMethod(call)+" in "+fnName(fn)+" receives the id from the authenticated request context", call.Pos(), ok, "id argument "+short(s)+" does not come from requestLeaseID/requestDeploymentID")
			}
		}
	}
	if nid < 5 {
		c.Fail("C09-R4 lost instances: %d client calls with ids", nid)
	}
	c.noRequestMemo()
	c.leaseClosedRouting("R4")
	c.shellOnlyOnActiveLease("R4")
	c.activeLeaseQueryFiltered("R4")
	// the lease id the gateway assembled scopes the cluster calls through the namespace derived from it: that
	// derivation covers every field of the id, the owner included (shared with C11-R4)
	c.leaseNamespaceRule("R4")
	// "valid" on chain means never revoked: a genesis export / import cycle must not turn revoked certificates valid
	// (shared with C17-R3)
	c.certGenesisRoundTrip("R2")
}

// noRequestMemo (R5): every request is answered from the chain / cluster as it is now, for the caller it came from.
// The gateway packages keep no memo that outlives a request: no sync.Map, no map reached through a captured variable,
// a package variable or a struct field is read or written there; and the TLS verifier is handed the caller's chain
// query client itself, not a type of the gateway packages wrapped around it (a cached "valid" answer survives
// revocation; a cached reply keyed by the URL is served to another tenant).
func (c *Check) noRequestMemo() {
	l := c.L
	n := 0
	bad := 0
	for _, rel := range []string{"provider/gateway/rest", "provider/gateway/utils"} {
		for _, fn := range l.pkgFuncs(rel) {
			if strings.HasSuffix(l.Fset.Position(fn.Pos()).Filename, "client.go") {
				continue // the tenant-side client kept in the same package is not part of the server
			}
			eachInstr(fn, func(i ssa.Instruction) {
				n++
				switch x := i.(type) {
				case ssa.CallInstruction:
					if full := calleeFull(x); strings.HasPrefix(full, "(*sync.Map).") {
						bad++
						c.Ob("R5", "sync.Map used in "+fnName(fn), x.Pos(), false, "the gateway remembers something across requests ("+full+"): answers may outlive a revocation or be served to another tenant")
					}
				case *ssa.MapUpdate:
					if src := sharedMap(x.Map, 0); src != "" {
						bad++
						c.Ob("R5", "shared map written in "+fnName(fn), x.Pos(), false, "a map reached through "+src+" is written while serving a request")
					}
				case *ssa.Lookup:
					if _, isMap := x.X.Type().Underlying().(*types.Map); isMap {
						if src := sharedMap(x.X, 0); src != "" {
							bad++
							c.Ob("R5", "shared map read in "+fnName(fn), x.Pos(), false, "a map reached through "+src+" is read while serving a request")
						}
					}
				}
			})
		}
	}
	// request handlers write nothing that outlives the request: no store through a variable captured from the function
	// that built the handler (it is shared by all concurrent requests, of all tenants)
	nh := 0
	for _, fn := range l.pkgFuncs("provider/gateway/rest") {
		if fn.Parent() == nil || strings.HasSuffix(l.Fset.Position(fn.Pos()).Filename, "client.go") {
			continue
		}
		sig := fn.Signature
		if sig.Params().Len() != 2 || !strings.HasSuffix(sig.Params().At(0).Type().String(), "http.ResponseWriter") || !strings.HasSuffix(sig.Params().At(1).Type().String(), "http.Request") {
			continue
		}
		nh++
		for _, g := range fnAndClosures(fn) {
			eachInstr(g, func(i ssa.Instruction) {
				st, ok := i.(*ssa.Store)
				if !ok {
					return
				}
				addr := st.Addr
				for {
					switch x := addr.(type) {
					case *ssa.FieldAddr:
						addr = x.X
						continue
					case *ssa.IndexAddr:
						addr = x.X
						continue
					}
					break
				}
				if fv, isFV := addr.(*ssa.FreeVar); isFV && fv.Parent() == fn {
					bad++
					c.Ob("R5", "request handler "+fnName(fn)+" writes captured variable "+fv.Name(), st.Pos(), false, "state shared by all requests is written while serving one: a concurrent request of another tenant can be answered with this request's lease id / parameters")
				}
			})
		}
	}
	c.Ob("R5", "the gateway packages keep no memo across requests (see violations otherwise)", token.NoPos, bad == 0 && n > 1000 && nh >= 8, "")
	// the verifier gets the chain client itself
	ncs := 0
	for _, fn := range l.prodFuncs() {
		for _, call := range callsInOwn(fn) {
			g := call.Common().StaticCallee()
			if g == nil || g.Name() != "NewServerTLSConfig" || !strings.HasSuffix(fnPkgPath(g), "provider/gateway/utils") {
				continue
			}
			ncs++
			args := call.Common().Args
			q := args[len(args)-1]
			ok := true
			why := ""
			if mi, isMI := q.(*ssa.MakeInterface); isMI {
				if strings.Contains(mi.X.Type().String(), akash+"/provider/gateway") {
					ok = false
					why = "the chain query client is wrapped in " + mi.X.Type().String() + " before it reaches the verifier: what the verifier sees is no longer the chain's current answer"
				}
			}
			c.Ob("R5", "TLS verifier in "+fnName(fn)+" is handed the chain query client itself", call.Pos(), ok, why)
		}
	}
	if ncs < 1 {
		c.Fail("C09-R5 lost instances: no production call of NewServerTLSConfig")
	}
}

// sharedMap: the map value is reached through a captured variable, a package variable or a struct field (not a map
// made or received within the request); returns a description of the path or "".
func sharedMap(v ssa.Value, depth int) string {
	if depth > 6 {
		return ""
	}
	switch x := v.(type) {
	case *ssa.UnOp:
		switch y := x.X.(type) {
		case *ssa.FreeVar:
			return "captured variable " + y.Name()
		case *ssa.Global:
			return "package variable " + y.Name()
		case *ssa.FieldAddr:
			return "struct field " + fieldName(y.X.Type(), y.Field)
		case *ssa.Alloc:
			return ""
		}
		return sharedMap(x.X, depth+1)
	case *ssa.Field:
		return "struct field " + fieldName(x.X.Type(), x.Field)
	case *ssa.Phi:
		for _, e := range x.Edges {
			if s := sharedMap(e, depth+1); s != "" {
				return s
			}
		}
	}
	return ""
}

func mustCallOf(v ssa.Value) *ssa.Call {
	c, _ := callOf(stripConv(v))
	return c
}

// idFieldFromContext: the id reaches this function through a struct field / parameter; accept when every
// construction of that struct in the package fills the field from requestLeaseID / requestDeploymentID.
func idFieldFromContext(l *Loaded, fn *ssa.Function, v ssa.Value) bool {
	s := Sym(v)
	// field name
	field := lastField(s)
	ok := false
	bad := false
	for _, g := range l.pkgFuncs("provider/gateway/rest") {
		eachInstr(g, func(i ssa.Instruction) {
			st, isSt := i.(*ssa.Store)
			if !isSt {
				return
			}
			fa, isFA := st.Addr.(*ssa.FieldAddr)
			if !isFA {
				return
			}
			_, f := structFieldOf(fa)
			if f != field || !(strings.HasSuffix(st.Val.Type().String(), "types.LeaseID") || strings.HasSuffix(st.Val.Type().String(), "types.DeploymentID")) {
				return
			}
			if strings.Contains(Sym(st.Val), "rest.requestLeaseID(") || strings.Contains(Sym(st.Val), "rest.requestDeploymentID(") {
				ok = true
			} else {
				bad = true
			}
		})
	}
	return ok && !bad
}

// stripLoad: the address a loaded (and possibly converted / boxed) value was read from, else the value itself.
func stripLoad(v ssa.Value) ssa.Value {
	for {
		switch x := v.(type) {
		case *ssa.MakeInterface:
			v = x.X
		case *ssa.ChangeInterface:
			v = x.X
		case *ssa.ChangeType:
			v = x.X
		case *ssa.UnOp:
			if x.Op == token.MUL {
				return x.X
			}
			return v
		case *ssa.Field:
			return v
		default:
			return v
		}
	}
}

// shellOnlyOnActiveLease: the shell route runs a command in the cluster only for a deployment the manifest service
// reports as active at this provider: the Exec call (wherever it sits among the handler and its new helpers) is
// dominated by "IsActive returned no error" and "IsActive returned true", and IsActive is asked about the deployment
// of the request's lease id.
func (c *Check) shellOnlyOnActiveLease(rule string) {
	l := c.L
	hf := l.Func("provider/gateway/rest", "", "leaseShellHandler")
	c.Analysed(fnName(hf))
	nexec := 0
	for _, g := range fnAndClosuresDeep(hf) {
		for _, call := range callsInOwn(g) {
			if calleeMethod(call) != "Exec" || !call.Common().IsInvoke() {
				continue
			}
			nexec++
			okErr, okAct, okID := false, false, false
			for _, a := range factsAt(call.Block()) {
				s := Sym(a.X)
				if !strings.Contains(s, "IsActive(") {
					continue
				}
				if strings.Contains(s, "DeploymentID(") && strings.Contains(s, "requestLeaseID(") {
					okID = true
				}
				switch {
				case strings.HasSuffix(s, "#1") && a.Op == "eq" && isNilConst(a.Y):
					okErr = true
				case strings.HasSuffix(s, "#0") && a.Op == "true":
					okAct = true
				}
			}
			c.Ob(rule, "shell command is run only after IsActive answered without error, with true, for the request's own deployment", call.Pos(), okErr && okAct && okID, "Exec is reachable for a deployment the manifest service does not report as active here (closed, never leased, or the check failed): a command runs against workloads that are no longer the caller's lease")
		}
	}
	if nexec == 0 {
		c.Info(rule, "shell route: no Exec call found in the handler, activity guard not decided", hf.Pos(), "")
	}
}

// activeLeaseQueryFiltered: on start the manifest and cluster services learn "the leases held at this provider" from
// client.ActiveLeasesForProvider; the gateway then accepts manifests and shell requests for exactly those. Every
// request that function sends to the Leases query must carry the provider filter built from its argument and a
// state filter: a follow-up request (pagination, retry) built without them returns other providers' and closed
// leases as this provider's active ones.
func (c *Check) activeLeaseQueryFiltered(rule string) {
	l := c.L
	fn := l.Func("client", "qclient", "ActiveLeasesForProvider")
	c.Analysed(fnName(fn))
	n := 0
	for _, call := range callsIn(fn, false) {
		if calleeMethod(call) != "Leases" {
			continue
		}
		var req ssa.Value
		for _, a := range call.Common().Args {
			if strings.HasSuffix(a.Type().String(), "types.QueryLeasesRequest") {
				req = a
			}
		}
		if req == nil {
			continue
		}
		n++
		var leaves []ssa.Value
		seen := map[ssa.Value]bool{}
		var walk func(v ssa.Value)
		walk = func(v ssa.Value) {
			if seen[v] {
				return
			}
			seen[v] = true
			if ph, ok := v.(*ssa.Phi); ok {
				for _, e := range ph.Edges {
					walk(e)
				}
				return
			}
			leaves = append(leaves, v)
		}
		walk(req)
		bad, undec := "", false
		for _, lf := range leaves {
			al, isAl := lf.(*ssa.Alloc)
			if !isAl {
				undec = true
				continue
			}
			pv := storedAtPath(al, []string{"Filters", "Provider"})
			sv := storedAtPath(al, []string{"Filters", "State"})
			prov := pv != nil && strings.Contains(Sym(pv), "p:"+paramName(fn.Params[1]))
			if !prov || sv == nil {
				bad = "a request without the provider / state filter"
			}
		}
		switch {
		case bad != "":
			c.Ob(rule, "every Leases request of ActiveLeasesForProvider is filtered by this provider and a state", call.Pos(), false, "a request is sent as "+bad+": leases of other providers (or closed ones) come back as this provider's active leases, and the gateway serves them")
		case undec:
			c.Info(rule, "ActiveLeasesForProvider: request not built in place, filters not decided", call.Pos(), short(Sym(req)))
		default:
			c.Ob(rule, "every Leases request of ActiveLeasesForProvider is filtered by this provider and a state", call.Pos(), true, "")
		}
	}
	if n == 0 {
		c.Fail("C09-%s lost instances: no Leases query in ActiveLeasesForProvider", rule)
	}
}

// storedAtPath: the value stored into field path (e.g. Filters.Provider) of the struct allocated by al, or nil.
func storedAtPath(al ssa.Value, path []string) ssa.Value {
	if al.Referrers() == nil {
		return nil
	}
	for _, r := range *al.Referrers() {
		fa, ok := r.(*ssa.FieldAddr)
		if !ok || fieldName(fa.X.Type(), fa.Field) != path[0] {
			continue
		}
		if len(path) > 1 {
			if v := storedAtPath(fa, path[1:]); v != nil {
				return v
			}
			continue
		}
		for _, rr := range *fa.Referrers() {
			if st, isSt := rr.(*ssa.Store); isSt && st.Addr == ssa.Value(fa) {
				return st.Val
			}
		}
	}
	return nil
}

const leasePathParts = `[types.Address.String(rest.requestOwner(p:req)), mux.Vars(p:req)["dseq"], mux.Vars(p:req)["gseq"], mux.Vars(p:req)["oseq"], types.Address.String(rest.requestProvider(p:req))]`
