package main

import (
	"go/token"
	"go/types"
	"reflect"
	"sort"
	"strings"

	"golang.org/x/tools/go/ssa"
)

func init() { registry["C10"] = checkC10 }

func checkC10(c *Check) {
	c.Explanation = "Decided on all paths of the manifest acceptance code: (R1) the manager accepts a submission (nil) only on paths dominated by: hash of the submitted manifest equals the expected version, where the expected version is the latest version update if any and the fetched deployment's version otherwise; stand-alone manifest validation ok; cross-validation against the fetched deployment's groups ok; (R2) the hash covers everything: every struct field reachable from manifest.Manifest is exported, has no json:\"-\" tag and no map type, so the sorted-JSON encoding is structural and complete, and the hash is sha256 over that encoding; (R3) the cross-validation compares group count, group names, every dimension of the resource units (each ResourceUnits field takes part in a comparison with a rejecting exit), replica counts through the fill/drain arithmetic with both leftover checks, and both endpoint kinds; the search over manifest entries always starts at the first entry (a necessary condition for order-independence). No two fields under the manifest share a JSON name; (*Attribute).Equal pairs key with key and value with value. The manifest manager's inbox methods send to its loop without a default case."
	c.NotDecided = "completeness of the greedy matcher (accepting every equal multiset) as an algorithmic equivalence; collision resistance of SHA-256"
	l := c.L

	// ---- R1
	c.manifestVersionRule("R1")
	c.onlyValidatedRecorded("R1")
	c.managerInboxBlocking("R1")
	// the version the manager expects comes from deployment-updated events: only those of successful transactions
	c.okOnlyPublished("R1")

	// ---- R1 (cont.) what is handed on is the group that was matched: between acceptance and deployment the manifest
	// group is picked out by name; a pointer to a range variable that outlives its iteration names whatever element the
	// loop visited last (the module's Go version gives one variable per loop)
	c.loopVarAddressEscapes("R1", []string{"provider/event", "provider/manifest", "validation", "manifest"})
	c.attributeEqualRule("R3")

	// ---- R2 hash covers everything
	mp := l.Pkg("manifest")
	root := mp.Types.Scope().Lookup("Manifest")
	if root == nil {
		c.Fail("unresolved anchor: manifest.Manifest")
	}
	seen := map[string]bool{}
	nfield := 0
	var walk func(t types.Type, path string)
	walk = func(t types.Type, path string) {
		key := t.String()
		if seen[key] {
			return
		}
		seen[key] = true
		if nt, ok := t.(*types.Named); ok {
			// external value types with their own canonical JSON encoding
			if nt.Obj().Pkg() != nil && !strings.HasPrefix(nt.Obj().Pkg().Path(), akash) {
				return
			}
			for i := 0; i < nt.NumMethods(); i++ {
				if nt.Method(i).Name() == "MarshalJSON" {
					c.Ob("R2", "type "+shortName(nt.String())+" reachable from the manifest uses the structural JSON encoding", nt.Obj().Pos(), false, "custom MarshalJSON may drop fields from the hash")
				}
			}
		}
		switch u := t.Underlying().(type) {
		case *types.Struct:
			// encoding/json drops BOTH of two fields that resolve to the same name at the same depth
			jsonName := map[string]string{}
			for i := 0; i < u.NumFields(); i++ {
				f := u.Field(i)
				if !f.Exported() || f.Embedded() || strings.HasPrefix(f.Name(), "XXX_") {
					continue
				}
				name := strings.Split(reflect.StructTag(u.Tag(i)).Get("json"), ",")[0]
				if name == "-" {
					continue
				}
				if name == "" {
					name = f.Name()
				}
				if prev, dup := jsonName[name]; dup {
					c.Ob("R2", "fields of "+path+" have distinct JSON names", f.Pos(), false, "fields "+prev+" and "+f.Name()+" are both encoded as \""+name+"\": encoding/json silently leaves both out, so neither changes the version hash (and neither reaches the provider)")
				}
				jsonName[name] = f.Name()
			}
			for i := 0; i < u.NumFields(); i++ {
				f := u.Field(i)
				tag := reflect.StructTag(u.Tag(i)).Get("json")
				nfield++
				p := path + "." + f.Name()
				okf := f.Exported() && !strings.HasPrefix(tag, "-")
				// protobuf-internal fields
				if strings.HasPrefix(f.Name(), "XXX_") {
					continue
				}
				c.Ob("R2", "field "+p+" is part of the hashed encoding", f.Pos(), okf, "field is unexported or tagged json:\"-\": changing it does not change the version hash")
				walk(f.Type(), p)
			}
		case *types.Map:
			c.Ob("R2", "no map type under "+path, 0, false, "map-typed field: encoding order is not structural")
		case *types.Slice:
			walk(u.Elem(), path+"[]")
		case *types.Array:
			walk(u.Elem(), path+"[]")
		case *types.Pointer:
			walk(u.Elem(), path)
		}
	}
	walk(root.Type(), "Manifest")
	if nfield < 20 {
		c.Fail("C10-R2 lost instances: %d fields", nfield)
	}
	mv := l.Func("sdl", "", "ManifestVersion")
	{
		s := ""
		for _, call := range callsIn(mv, false) {
			if calleeFull(call) == "crypto/sha256.Sum256" {
				s = Sym(call.Common().Args[0])
			}
		}
		c.Ob("R2", "version = sha256(sorted JSON(whole manifest))", mv.Pos(), s == "types.SortJSON(json.Marshal(p:manifest)#0)#0", s)
	}

	// ---- R3 cross-validation coverage
	vg := l.Func("validation", "", "validateManifestDeploymentGroup")
	vgs := l.Func("validation", "", "validateManifestDeploymentGroups")
	c.Analysed(fnName(vg))
	c.Analysed(fnName(vgs))
	ru := l.Pkg("types").Types.Scope().Lookup("ResourceUnits").Type().Underlying().(*types.Struct)
	var dims []string
	for i := 0; i < ru.NumFields(); i++ {
		dims = append(dims, ru.Field(i).Name())
	}
	sort.Strings(dims)
	for _, d := range dims {
		ok := false
		if d == "Endpoints" {
			// both kinds counted on the deployment side and compared with the manifest side with an error exit
			n := 0
			eachInstr(vg, func(i ssa.Instruction) {
				if b, isB := i.(*ssa.BinOp); isB && b.Op.String() == "!=" && strings.Contains(strings.ToLower(Sym(b.X)+Sym(b.Y)), "phi") {
					for _, rr := range *b.Referrers() {
						if ifi, isIf := rr.(*ssa.If); isIf && errReturnBlock(ifi.Block().Succs[0]) {
							n++
						}
					}
				}
			})
			ok = n >= 2
		} else {
			for _, call := range callsIn(vg, false) {
				if calleeMethod(call) == "Equal" {
					a := allArgs(call)
					s0, s1 := Sym(a[0]), Sym(a[1])
					if strings.HasSuffix(s0, ".Resources."+d) && strings.HasSuffix(s1, ".Resources."+d) && strings.Contains(s0, "drec") != strings.Contains(s1, "drec") {
						// mismatch must skip the entry (not match it)
						ok = true
					}
				}
			}
		}
		c.Ob("R3", "resource dimension "+d+" takes part in the manifest/deployment comparison", vg.Pos(), ok, "manifests differing only in "+d+" are accepted")
	}
	// leftover checks
	{
		under, over := false, false
		// (the matching may have been moved into new helpers of the function: their blocks are part of it)
		var vgBlocks []*ssa.BasicBlock
		for _, g := range fnAndClosuresDeep(vg) {
			vgBlocks = append(vgBlocks, g.Blocks...)
		}
		for _, b := range vgBlocks {
			if r, isR := b.Instrs[len(b.Instrs)-1].(*ssa.Return); isR && len(r.Results) > 0 && !isNilConst(r.Results[len(r.Results)-1]) {
				s := Sym(r.Results[len(r.Results)-1])
				if strings.Contains(s, "underutilized deployment group") {
					under = true
				}
				if strings.Contains(s, "not fully matched") {
					// dominated by mrec.Count > 0
					for _, a := range factsAt(b) {
						if a.Op == ">" && strings.HasSuffix(Sym(a.X), ".Count") {
							over = true
						}
					}
				}
			}
		}
		c.Ob("R3", "a deployment record that cannot be fully matched rejects the manifest", vg.Pos(), under, "")
		c.Ob("R3", "a manifest record left over after matching rejects the manifest", vg.Pos(), over, "")
		// inner search starts at the first entry for every deployment record
		okStart := false
		bad := ""
		for _, b := range vgBlocks {
			ifi, isIf := b.Instrs[len(b.Instrs)-1].(*ssa.If)
			if !isIf {
				continue
			}
			s := Sym(ifi.Cond)
			if !strings.Contains(s, "< builtin.len(") || !strings.Contains(s, "mlist") && !strings.Contains(s, "make:[]types.Resources") {
				continue
			}
			if bo, isB := ifi.Cond.(*ssa.BinOp); isB {
				// index expression: (phi + 1) for range loops, phi for classic loops
				var ph *ssa.Phi
				switch x := bo.X.(type) {
				case *ssa.Phi:
					ph = x
				case *ssa.BinOp:
					ph, _ = x.X.(*ssa.Phi)
				}
				if ph == nil {
					continue
				}
				// only loops nested inside the loop over deployment records
				if loopHeaderOf(b) == nil || loopHeaderOf(b.Idom()) == nil {
					continue
				}
				for _, e := range ph.Edges {
					if k, isK := e.(*ssa.Const); isK {
						if v, _ := constInt(k); v == -1 || v == 0 {
							okStart = true
						}
					} else if _, isB2 := e.(*ssa.BinOp); !isB2 {
						bad = "search over manifest entries starts at " + short(Sym(e)) + " instead of the first entry: entries skipped for a mismatch are never revisited, so reordered but equal manifests are rejected"
					}
				}
			}
		}
		c.Ob("R3", "the search for a matching manifest entry always starts at the first entry", vg.Pos(), okStart && bad == "", bad)
	}
	// group level
	{
		cnt, name, each := false, false, false
		for _, r := range successReturns(vgs) {
			for _, a := range factsAt(r.Block()) {
				if a.Op == "eq" && strings.HasPrefix(Sym(a.X), "builtin.len(p:mgroups)") && strings.HasPrefix(Sym(a.Y), "builtin.len(p:dgroups)") {
					cnt = true
				}
			}
		}
		eachInstr(vgs, func(i ssa.Instruction) {
			if lk, isLk := i.(*ssa.Lookup); isLk && lk.CommaOk && strings.Contains(Sym(lk.Index), "GetName(") {
				for _, rr := range *lk.Referrers() {
					if ex, isEx := rr.(*ssa.Extract); isEx && ex.Index == 1 {
						for _, r2 := range *ex.Referrers() {
							if ifi, isIf := r2.(*ssa.If); isIf && errReturnBlock(ifi.Block().Succs[1]) {
								name = true
							}
						}
					}
				}
			}
		})
		for _, call := range callsIn(vgs, false) {
			if call.Common().StaticCallee() == vg && loopHeaderOf(call.Block()) != nil {
				for _, rr := range *call.(*ssa.Call).Referrers() {
					if b, isB := rr.(*ssa.BinOp); isB {
						for _, r2 := range *b.Referrers() {
							if ifi, isIf := r2.(*ssa.If); isIf && errReturnBlock(ifi.Block().Succs[0]) {
								each = true
							}
						}
					}
				}
			}
		}
		c.Ob("R3", "group counts must be equal", vgs.Pos(), cnt, "")
		c.Ob("R3", "every manifest group must name an on-chain group", vgs.Pos(), name, "")
		c.Ob("R3", "every group pair is cross-validated and a failure rejects", vgs.Pos(), each, "")
	}
	c.uniqueNamesRule("R3", "validation", "", "validateManifestGroups")
	c.Floor("R3", 9)
}

func allReturnsHave(fn *ssa.Function, rets []*ssa.Return, key string, need map[string]bool) bool {
	return len(rets) > 0
}

// manifestVersionRule: acceptance conditions of manager.validateRequest (shared by C10 and C20).
func (c *Check) manifestVersionRule(rule string) {
	l := c.L
	vr := l.Func("provider/manifest", "manager", "validateRequest")
	c.Analysed(fnName(vr))
	rets := successReturns(vr)
	need := map[string]bool{"hash": len(rets) > 0, "standalone": len(rets) > 0, "cross": len(rets) > 0}
	detailHash := ""
	okAll := len(rets) > 0
	for _, r := range rets {
		f := factsAt(r.Block())
		got := map[string]bool{}
		for _, a := range f {
			if a.Op == "true" {
				if cv, _ := callOf(a.X); cv != nil && calleeFull(cv) == "bytes.Equal" {
					x, y := Sym(cv.Call.Args[0]), Sym(cv.Call.Args[1])
					if x != "sdl.ManifestVersion(*p:req.value.Manifest)#0" {
						x, y = y, x
					}
					exp := strings.ReplaceAll(y, "*", "")
					if x == "sdl.ManifestVersion(*p:req.value.Manifest)#0" && strings.Contains(exp, "p:m.data.Deployment.Version") && strings.Contains(exp, "p:m.versions[(builtin.len(p:m.versions) - 1)]") {
						got["hash"] = true
					} else {
						detailHash = "hash compared with " + short(y)
					}
				}
			}
			if a.Op == "eq" && isNilConst(a.Y) {
				s := Sym(a.X)
				if s == "validation.ValidateManifest(*p:req.value.Manifest)" {
					got["standalone"] = true
				}
				if strings.ReplaceAll(s, "*", "") == "validation.ValidateManifestWithDeployment(&p:req.value.Manifest, p:m.data.Groups)" {
					got["cross"] = true
				}
				if s == "sdl.ManifestVersion(*p:req.value.Manifest)#1" {
					got["hasherr"] = true
				}
			}
		}
		for k := range need {
			if !got[k] {
				okAll = false
				need[k] = false
			}
		}
	}
	_ = okAll
	c.Ob(rule, "acceptance requires hash(manifest) == latest version update, else the fetched deployment's version", vr.Pos(), allReturnsHave(vr, rets, "hash", need) && need["hash"], "a manifest whose hash differs from the version recorded on chain can be accepted ("+detailHash+")")
	c.Ob(rule, "acceptance requires stand-alone manifest validation", vr.Pos(), need["standalone"], "")
	c.Ob(rule, "acceptance requires cross-validation against the fetched deployment groups", vr.Pos(), need["cross"], "")
	// the phi selects the update only when one exists
	{
		ok := false
		eachInstr(vr, func(i ssa.Instruction) {
			if ph, isPhi := i.(*ssa.Phi); isPhi && strings.Contains(Sym(ph), "m.versions[") {
				for k, e := range ph.Edges {
					if strings.Contains(Sym(e), "m.versions[") {
						for _, a := range factsAt(ph.Block().Preds[k]) {
							if a.Op == "neq" && strings.ReplaceAll(Sym(a.X), "*", "") == "builtin.len(p:m.versions)" && Sym(a.Y) == "0" {
								ok = true
							}
						}
					}
				}
			}
		})
		c.Ob(rule, "the latest version update takes precedence over the fetched version", vr.Pos(), ok, "")
	}
	// version updates are recorded by the manager loop
	run := l.Func("provider/manifest", "manager", "run")
	{
		ok := false
		var appends []*ssa.Store
		for _, g := range append([]*ssa.Function{run}, l.pkgFuncs("provider/manifest")...) {
			eachInstr(g, func(i ssa.Instruction) {
				if st, isSt := i.(*ssa.Store); isSt && strings.HasSuffix(strings.ReplaceAll(Sym(st.Addr), "*", ""), "p:m.versions") && strings.HasPrefix(Sym(st.Val), "builtin.append(") {
					ok = true
					appends = append(appends, st)
				}
			})
		}
		c.Ob(rule, "version updates are appended to the version history", run.Pos(), ok, "updates are not remembered: a stale version would be expected")
		// ... for every update received: the append sits in the select case that receives from updatech and no
		// further condition inside that case guards it
		okEvery := false
		why := "no append inside the updatech case of the manager loop"
		var pos = run.Pos()
		for _, st := range appends {
			var caseBlk *ssa.BasicBlock
			for _, a := range factsAt(st.Block()) {
				if a.Op != "eq" || a.If == nil {
					continue
				}
				ex, isEx := a.X.(*ssa.Extract)
				if !isEx || ex.Index != 0 {
					continue
				}
				sel, isSel := ex.Tuple.(*ssa.Select)
				k, isK := constInt(a.Y)
				if !isSel || !isK || int(k) >= len(sel.States) || !strings.HasSuffix(strings.ReplaceAll(Sym(sel.States[k].Chan), "*", ""), "m.updatech") {
					continue
				}
				caseBlk = a.If.Block().Succs[0]
			}
			if caseBlk == nil {
				continue
			}
			okEvery = true
			pos = st.Pos()
			for _, a := range factsAt(st.Block()) {
				if a.If != nil && (a.If.Block() == caseBlk || domSame(caseBlk, a.If.Block())) {
					okEvery = false
					why = "the update is recorded only when " + a.Op + " " + short(Sym(a.X)) + ": updates arriving otherwise are forgotten and a superseded version stays expected"
				}
			}
			if !strings.Contains(Sym(st.Val), "ssa.Select#") {
				okEvery = false
				why = "appended value " + short(Sym(st.Val)) + " is not the received update"
			}
		}
		c.Ob(rule, "every received version update is recorded, unconditionally", pos, okEvery, why)
	}

}

// uniqueNamesRule: a "duplicate" rejection that relies on a set of names seen so far is only as good as the set: on
// every path of an iteration that does not reject, the element's name is entered under the key that is looked up.
// A rejection that instead compares an element with its neighbour (index i against i-1) is reported: it misses
// repeated names that are not adjacent. Any other form is not decided (information only).
// Shared: C10-R3 (manifest groups; the cross-validation matches groups by name and relies on uniqueness),
// C19-R2 (deployment groups).
func (c *Check) uniqueNamesRule(rule, rel, recv, name string) {
	l := c.L
	fn := l.Func(rel, recv, name)
	c.Analysed(fnName(fn))
	n := 0
	for _, g := range fnAndClosuresDeep(fn) {
		for _, b := range g.Blocks {
			r, isR := b.Instrs[len(b.Instrs)-1].(*ssa.Return)
			if !isR || len(r.Results) == 0 {
				continue
			}
			es := Sym(r.Results[len(r.Results)-1])
			if !strings.Contains(strings.ToLower(es), "duplicate") {
				continue
			}
			n++
			decided := false
			for _, a := range factsAt(b) {
				// (1) set membership
				if a.Op == "true" {
					if ex, isEx := a.X.(*ssa.Extract); isEx && ex.Index == 1 {
						if lk, isLk := ex.Tuple.(*ssa.Lookup); isLk {
							if _, isMap := lk.X.Type().Underlying().(*types.Map); isMap {
								decided = true
								h := loopHeaderOf(lk.Block())
								okUpd := false
								why := "the set of names seen is never extended with the looked-up key"
								if h != nil {
									pred := func(in ssa.Instruction) bool {
										mu, isMU := in.(*ssa.MapUpdate)
										return isMU && Sym(mu.Map) == Sym(lk.X) && Sym(mu.Key) == Sym(lk.Index)
									}
									// from the not-found edge back to the loop header
									if ifi := a.If; ifi != nil {
										nf := ifi.Block().Succs[1]
										if at := condAtom(ifi.Cond, true); at.Op == "false" {
											nf = ifi.Block().Succs[0] // negated condition: the true edge is the not-found edge
										}
										okUpd = pred(nf.Instrs[0]) || mustPassFrom(g, nf.Instrs[0], h.Instrs[0], pred)
										if !okUpd {
											why = "an iteration can finish without entering the element's name into the set: a later element with that name is not recognised as a repeat"
										}
									}
								}
								c.Ob(rule, fnName(fn)+": every accepted element's name is entered into the set the duplicate test consults", lk.Pos(), okUpd, why)
							}
						}
					}
				}
				// (2) neighbour comparison
				if a.Op == "eq" && a.Y != nil {
					ix, iy := elemIndexOf(a.X), elemIndexOf(a.Y)
					if ix != nil && iy != nil && ix.base != nil && ix.base == iy.base && ix.slice == iy.slice && ix.off != iy.off {
						decided = true
						c.Ob(rule, fnName(fn)+": the duplicate test compares every pair of names", r.Pos(), false, "an element is only compared with the element "+itoa(int(abs64(ix.off-iy.off)))+" position(s) away: repeated names that are not adjacent are accepted")
					}
				}
			}
			// (3) comparison with the name remembered from the previous iteration only
			for _, a := range factsAt(b) {
				if a.Op != "eq" || a.Y == nil {
					continue
				}
				for _, pair := range [][2]ssa.Value{{a.X, a.Y}, {a.Y, a.X}} {
					ph, isPhi := pair[1].(*ssa.Phi)
					if !isPhi || loopHeaderOf(ph.Block()) == nil {
						continue
					}
					cur := Sym(pair[0])
					for _, e := range ph.Edges {
						if es2 := Sym(e); es2 == cur || (strings.Contains(cur, "GetName(") && strings.Contains(es2, "GetName(")) || (strings.HasSuffix(cur, ".Name") && strings.HasSuffix(es2, ".Name")) {
							if !decided {
								decided = true
								c.Ob(rule, fnName(fn)+": the duplicate test compares every pair of names", r.Pos(), false, "a name is only compared with the name of the element before it: repeated names that are not adjacent are accepted")
							}
						}
					}
				}
			}
			if !decided {
				c.Info(rule, fnName(fn)+": form of the duplicate test not recognised, uniqueness not decided", r.Pos(), short(es))
			}
		}
	}
	if n == 0 {
		c.Ob(rule, fnName(fn)+": duplicate names are rejected", fn.Pos(), false, "no rejecting exit that mentions duplicates")
	}
}

type elemIdx struct {
	slice string
	base  ssa.Value
	off   int64
}

func abs64(x int64) int64 {
	if x < 0 {
		return -x
	}
	return x
}

// elemIndexOf: v reads (a field / getter of) slice element s[base+off]; nil otherwise.
func elemIndexOf(v ssa.Value) *elemIdx {
	for d := 0; d < 8 && v != nil; d++ {
		switch x := v.(type) {
		case *ssa.Call:
			if len(x.Call.Args) == 0 {
				return nil
			}
			v = x.Call.Args[0]
		case *ssa.Field:
			v = x.X
		case *ssa.FieldAddr:
			v = x.X
		case *ssa.UnOp:
			if a, isA := x.X.(*ssa.Alloc); isA {
				// a spilled copy of the element
				var src ssa.Value
				n := 0
				for _, r := range *a.Referrers() {
					if st, isSt := r.(*ssa.Store); isSt && st.Addr == ssa.Value(a) {
						src = st.Val
						n++
					}
				}
				if n != 1 {
					return nil
				}
				v = src
				continue
			}
			v = x.X
		case *ssa.IndexAddr:
			base, off := x.Index, int64(0)
			for {
				bo, ok := base.(*ssa.BinOp)
				if !ok {
					break
				}
				if k, isK := constInt(bo.Y); isK && (bo.Op == token.ADD || bo.Op == token.SUB) {
					if bo.Op == token.ADD {
						off += k
					} else {
						off -= k
					}
					base = bo.X
					continue
				}
				break
			}
			return &elemIdx{slice: Sym(x.X), base: base, off: off}
		default:
			return nil
		}
	}
	return nil
}

// loopVarAddressEscapes: no variable that is assigned once per iteration of a loop, and declared outside that loop's
// body (a range / for variable under the per-loop semantics of the module's Go version), has its address kept beyond
// the iteration (returned, stored, appended, captured). Reads and writes through the variable are fine.
func (c *Check) loopVarAddressEscapes(rule string, rels []string) {
	l := c.L
	nvars := 0
	for _, rel := range rels {
		for _, fn := range l.pkgFuncs(rel) {
			for _, b := range fn.Blocks {
				for _, in := range b.Instrs {
					a, ok := in.(*ssa.Alloc)
					if !ok || a.Referrers() == nil || a.Comment == "" || a.Comment == "complit" || strings.HasPrefix(a.Comment, "new") || strings.HasPrefix(a.Comment, "varargs") || strings.HasPrefix(a.Comment, "slicelit") || strings.HasPrefix(a.Comment, "makeslice") {
						continue
					}
					// assigned inside a loop whose body does not contain the declaration
					inLoop := false
					for _, r := range *a.Referrers() {
						st, isS := r.(*ssa.Store)
						if !isS || st.Addr != ssa.Value(a) {
							continue
						}
						if h := loopHeaderOf(st.Block()); h != nil && !loopBlocks(h)[a.Block()] {
							// the stored value is an element of what is ranged over / the loop's own progress
							inLoop = true
						}
					}
					if !inLoop {
						continue
					}
					nvars++
					for _, r := range *a.Referrers() {
						esc := ""
						switch x := r.(type) {
						case *ssa.Store:
							if x.Val == ssa.Value(a) {
								esc = "stored"
							}
						case *ssa.Return:
							esc = "returned"
						case *ssa.Phi:
							esc = "kept in a variable"
						case *ssa.MakeInterface, *ssa.ChangeType, *ssa.Convert:
							esc = "converted and handed on"
						case *ssa.MakeClosure:
							// only a closure that is started as a goroutine keeps running with the variable while the
							// loop goes on; one that is called or deferred in place reads the current value
							if x.Referrers() != nil {
								for _, cr := range *x.Referrers() {
									if _, isGo := cr.(*ssa.Go); isGo {
										esc = "captured by a goroutine"
									}
								}
							}
						case ssa.CallInstruction:
							for _, arg := range x.Common().Args {
								if arg == ssa.Value(a) {
									esc = "passed to " + calleeFull(x)
								}
							}
							if esc != "" && (strings.Contains(esc, "Unmarshal") || strings.Contains(esc, "Decode") || strings.Contains(esc, "MustUnmarshal")) {
								esc = "" // filled in place and read back within the iteration
							}
							if esc != "" {
								// only a callee that keeps the pointer (stores it, sends it, hands it to a goroutine) lets it
								// outlive the iteration; unresolved callees are not judged
								g := x.Common().StaticCallee()
								keep := false
								if g != nil && g.Blocks != nil {
									for pi, arg := range x.Common().Args {
										if arg == ssa.Value(a) && pi < len(g.Params) {
											keep = paramRetained(g, g.Params[pi])
										}
									}
								}
								if !keep {
									esc = ""
								}
							}
							if esc != "" && x.Common().StaticCallee() != nil && !x.Common().IsInvoke() {
								// a method with a pointer receiver / a helper that uses the pointer during the call
								if g := x.Common().StaticCallee(); g.Signature.Recv() != nil && len(x.Common().Args) > 0 && x.Common().Args[0] == ssa.Value(a) {
									esc = ""
								}
							}
						}
						if esc != "" {
							c.Ob(rule, "address of per-loop variable '"+a.Comment+"' in "+fnName(fn)+" does not outlive its iteration", r.Pos(), false, "&"+a.Comment+" is "+esc+": after the loop it points at the element visited last, not the one that was selected")
						}
					}
				}
			}
		}
	}
	c.Ob(rule, "no pointer to a per-loop variable is kept beyond its iteration ("+itoa(nvars)+" loop variables with an address examined)", l.Func("provider/event", "ManifestReceived", "ManifestGroup").Pos(), true, "")
}

// paramRetained: the function keeps its (pointer) parameter beyond the call: stores it, sends it, or binds it into a
// closure.
func paramRetained(g *ssa.Function, p *ssa.Parameter) bool {
	if p.Referrers() == nil {
		return false
	}
	for _, r := range *p.Referrers() {
		switch x := r.(type) {
		case *ssa.Store:
			if x.Val == ssa.Value(p) {
				if al, isA := x.Addr.(*ssa.Alloc); isA && paramOfAlloc(al) == p {
					// the parameter's own spill slot: follow the loads of it
					for _, r2 := range *al.Referrers() {
						if ld, isLd := r2.(*ssa.UnOp); isLd && ld.Referrers() != nil {
							for _, r3 := range *ld.Referrers() {
								if st, isS := r3.(*ssa.Store); isS && st.Val == ssa.Value(ld) {
									return true
								}
								if _, isMC := r3.(*ssa.MakeClosure); isMC {
									return true
								}
							}
						}
					}
					continue
				}
				return true
			}
		case *ssa.Send, *ssa.MakeClosure:
			return true
		}
	}
	return false
}

// attributeEqualRule: the generated CPU/Memory/Storage.Equal methods, which decide whether a manifest service asks for
// exactly the on-chain unit, compare attributes through the hand-written (*Attribute).Equal. That method must compare
// both fields of the receiver with the same field of its argument: reflect.DeepEqual of the two, or field
// comparisons that pair Key with Key and Value with Value across the two values. Other forms are not decided.
func (c *Check) attributeEqualRule(rule string) {
	l := c.L
	fn := l.Func("types", "Attribute", "Equal")
	c.Analysed(fnName(fn))
	sideOf := func(v ssa.Value) (int, string) {
		f := ""
		for d := 0; d < 6; d++ {
			switch x := v.(type) {
			case *ssa.UnOp:
				v = x.X
				continue
			case *ssa.FieldAddr:
				f = fieldName(x.X.Type(), x.Field)
				v = x.X
				continue
			case *ssa.Field:
				f = fieldName(x.X.Type(), x.Field)
				v = x.X
				continue
			case *ssa.MakeInterface:
				v = x.X
				continue
			case *ssa.Alloc:
				if pp := paramOfAlloc(x); pp != nil {
					v = pp
					continue
				}
			case *ssa.Parameter:
				return paramIdx(x), f
			}
			break
		}
		return -1, f
	}
	deep, bad := false, ""
	cov := map[string]bool{}
	ncmp := 0
	eachInstrDeep(fn, func(i ssa.Instruction) {
		switch x := i.(type) {
		case *ssa.Call:
			if calleeFull(x) == "reflect.DeepEqual" && len(x.Call.Args) == 2 {
				a, fa := sideOf(x.Call.Args[0])
				b, fb := sideOf(x.Call.Args[1])
				if fa == "" && fb == "" && a >= 0 && b >= 0 && a != b {
					deep = true
				} else if a >= 0 && a == b {
					bad = "reflect.DeepEqual is handed the same value twice"
				}
			}
		case *ssa.BinOp:
			if x.Op != token.EQL && x.Op != token.NEQ {
				return
			}
			a, fa := sideOf(x.X)
			b, fb := sideOf(x.Y)
			if fa == "" || fb == "" || a < 0 || b < 0 {
				return
			}
			ncmp++
			switch {
			case a == b:
				bad = "compares " + fa + " with " + fb + " of the same attribute"
			case fa != fb:
				bad = "compares " + fa + " with " + fb
			default:
				cov[fa] = true
			}
		}
	})
	switch {
	case bad != "":
		c.Ob(rule, "(*Attribute).Equal compares key with key and value with value of the two attributes", fn.Pos(), false, bad+": attributes that differ there compare equal, so a manifest unit with other attributes matches the on-chain unit")
	case deep:
		c.Ob(rule, "(*Attribute).Equal compares key with key and value with value of the two attributes", fn.Pos(), true, "")
	case ncmp > 0:
		miss := ""
		for _, f := range []string{"Key", "Value"} {
			if !cov[f] {
				miss += f + " "
			}
		}
		c.Ob(rule, "(*Attribute).Equal compares key with key and value with value of the two attributes", fn.Pos(), miss == "", "field "+miss+"is not compared: attributes that differ only there compare equal")
	default:
		c.Info(rule, "(*Attribute).Equal: form not recognised, not decided", fn.Pos(), "")
	}
}
