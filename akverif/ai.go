package main

import (
	"go/constant"
	"go/token"
	"go/types"
	"sort"
	"strings"

	"golang.org/x/tools/go/ssa"
)

// Path-sensitive abstract interpretation of one function's SSA (used for the provider's select loops).
//
// Domain (finite, fully disjunctive): chosen SSA values and memory cells are mapped to one of
//   "nil" | "nonnil" | "true" | "false" | "k:<int>" | "tok:<id>"   (absent = unknown: both branches are taken)
// a token is a one-shot channel created at a call site and is "pending" or "drained"; ghost counters saturate
// at 2 ("many"). A select case receiving from a nil or drained channel is infeasible; every other case may
// fire, which is what quantifies over schedules. No akash code is executed and no solver is used.

type aiState struct {
	tup  map[ssa.Value][]string // results of an inlined helper call, read by the extracts that follow it
	env  map[ssa.Value]string
	mem  map[string]string
	tok  map[string]string
	cnt  map[string]int
	flag map[string]bool
}

func newAIState() *aiState {
	return &aiState{env: map[ssa.Value]string{}, mem: map[string]string{}, tok: map[string]string{}, cnt: map[string]int{}, flag: map[string]bool{}}
}

func (s *aiState) clone() *aiState {
	n := newAIState()
	for k, v := range s.env {
		n.env[k] = v
	}
	for k, v := range s.mem {
		n.mem[k] = v
	}
	for k, v := range s.tok {
		n.tok[k] = v
	}
	for k, v := range s.cnt {
		n.cnt[k] = v
	}
	for k, v := range s.flag {
		n.flag[k] = v
	}
	if len(s.tup) > 0 {
		n.tup = map[ssa.Value][]string{}
		for k, v := range s.tup {
			n.tup[k] = v
		}
	}
	return n
}

func (s *aiState) bump(k string) {
	if s.cnt[k] < 2 {
		s.cnt[k]++
	}
}

func (s *aiState) key(live map[ssa.Value]bool) string { return s.keyFor(nil, live) }

// keyFor: identity of the state while exploring fn — the values of fn that live across its blocks, and every value
// of other (enclosing) functions.
func (s *aiState) keyFor(fn *ssa.Function, live map[ssa.Value]bool) string {
	var parts []string
	for v, a := range s.env {
		var par *ssa.Function
		if in, ok := v.(ssa.Instruction); ok {
			par = in.Parent()
		} else if p, ok := v.(*ssa.Parameter); ok {
			par = p.Parent()
		}
		if live == nil || live[v] || (fn != nil && par != nil && par != fn) {
			pn := ""
			if par != nil {
				pn = par.Name() + "."
			}
			parts = append(parts, pn+v.Name()+"="+a)
		}
	}
	for k, v := range s.mem {
		parts = append(parts, "m:"+k+"="+v)
	}
	for k, v := range s.tok {
		parts = append(parts, "t:"+k+"="+v)
	}
	for k, v := range s.cnt {
		parts = append(parts, "c:"+k+"="+itoa(v))
	}
	for k, v := range s.flag {
		if v {
			parts = append(parts, "f:"+k)
		}
	}
	sort.Strings(parts)
	return strings.Join(parts, ";")
}

type AI struct {
	fn *ssa.Function
	// trackMem: is the memory cell (Sym of its address without leading &) tracked?
	trackMem func(cell string) bool
	// onCall may model a call: return (abstract value of result, true) to override the default (unknown).
	onCall func(st *aiState, call ssa.CallInstruction) (string, bool)
	// onInstr is invoked before every instruction (assertions).
	onInstr func(st *aiState, in ssa.Instruction)
	// onReturn is invoked at every return / panic with the final state.
	onReturn func(st *aiState, in ssa.Instruction)
	// oneShot: receiving from this token drains it (single-value channels)
	oneShot func(tok string) bool
	// onBranch is invoked when a conditional edge is taken (idx 0 = true edge)
	onBranch func(st *aiState, ifi *ssa.If, idx int)
	// onSelect is invoked on the forked state when select case i is chosen (-1 = default)
	onSelect func(st *aiState, sel *ssa.Select, i int)
	// onAssert is invoked on each of the two forks of a comma-ok type assertion (ok = the assertion held);
	// returning false prunes that fork
	onAssert func(st *aiState, ta *ssa.TypeAssert, ok bool) bool
	// onRecv is invoked when a receive from a tracked token is executed (select case or plain receive)
	onRecv func(st *aiState, tok string, in ssa.Instruction, bare bool)

	States      int
	Transitions int
	maxStates   int
	Aborted     bool
	visited     map[string]bool
	live        map[ssa.Value]bool
	liveMemo    map[*ssa.Function]map[ssa.Value]bool
}

func (ai *AI) val(st *aiState, v ssa.Value) string {
	switch x := v.(type) {
	case *ssa.Const:
		if x.Value == nil {
			if _, isBasic := x.Type().Underlying().(*types.Basic); !isBasic {
				return "nil"
			}
			return ""
		}
		s := x.Value.ExactString()
		if s == "true" || s == "false" {
			return s
		}
		if k, ok := constInt(x); ok {
			return "k:" + itoa(int(k))
		}
		if x.Value.Kind() == constant.String {
			return "s:" + constant.StringVal(x.Value)
		}
		return ""
	case *ssa.ChangeType:
		return ai.val(st, x.X)
	case *ssa.MakeInterface:
		a := ai.val(st, x.X)
		if a == "nil" {
			return "nonnil" // an interface holding a typed nil is not nil
		}
		return a
	case *ssa.Convert:
		return ai.val(st, x.X)
	}
	if a, ok := st.env[v]; ok {
		return a
	}
	return ""
}

func isNonNilish(a string) bool { return a == "nonnil" || strings.HasPrefix(a, "tok:") }

func (ai *AI) evalBin(st *aiState, b *ssa.BinOp) string {
	if b.Op != token.EQL && b.Op != token.NEQ {
		return ""
	}
	x, y := ai.val(st, b.X), ai.val(st, b.Y)
	if x == "" || y == "" {
		return ""
	}
	eq := ""
	switch {
	case x == y && (x == "nil" || x == "true" || x == "false" || strings.HasPrefix(x, "k:") || strings.HasPrefix(x, "s:")):
		eq = "true"
	case (x == "nil" && isNonNilish(y)) || (y == "nil" && isNonNilish(x)):
		eq = "false"
	case (x == "true" && y == "false") || (x == "false" && y == "true"):
		eq = "false"
	case strings.HasPrefix(x, "k:") && strings.HasPrefix(y, "k:") && x != y:
		eq = "false"
	case strings.HasPrefix(x, "s:") && strings.HasPrefix(y, "s:") && x != y:
		eq = "false"
	default:
		return ""
	}
	if b.Op == token.NEQ {
		if eq == "true" {
			return "false"
		}
		return "true"
	}
	return eq
}

func (ai *AI) cellOf(addr ssa.Value) (string, bool) {
	if ai.trackMem == nil {
		return "", false
	}
	c := strings.TrimPrefix(strings.ReplaceAll(Sym(addr), "*", ""), "&")
	if ai.trackMem(c) {
		return c, true
	}
	return "", false
}

// Run explores all abstract paths of fn from its entry with the given initial state.
// helperFrame collects the states in which an inlined helper returns.
type helperFrame struct {
	outs  []*aiState
	rets  [][]string // abstract values of the results, per out
	depth int
}

func (ai *AI) Run(init *aiState) {
	if ai.maxStates == 0 {
		ai.maxStates = 200000
	}
	ai.explore(ai.fn, init, nil)
}

func (ai *AI) liveOf(fn *ssa.Function) map[ssa.Value]bool {
	if ai.liveMemo == nil {
		ai.liveMemo = map[*ssa.Function]map[ssa.Value]bool{}
	}
	if m, ok := ai.liveMemo[fn]; ok {
		return m
	}
	// only values that live across blocks are part of the state identity
	live := map[ssa.Value]bool{}
	for _, p := range fn.Params {
		live[p] = true
	}
	for _, b := range fn.Blocks {
		for _, in := range b.Instrs {
			v, ok := in.(ssa.Value)
			if !ok {
				continue
			}
			if _, isPhi := in.(*ssa.Phi); isPhi {
				live[v] = true
				continue
			}
			if v.Referrers() == nil {
				continue
			}
			for _, r := range *v.Referrers() {
				if r.Block() != b {
					live[v] = true
				}
				if _, isPhi := r.(*ssa.Phi); isPhi {
					live[v] = true
				}
			}
		}
	}
	ai.liveMemo[fn] = live
	return live
}

type aiItem struct {
	b    *ssa.BasicBlock
	pred *ssa.BasicBlock
	st   *aiState
}

// explore runs the worklist over fn's CFG from init. frame == nil: fn is the analysed function (returns are final);
// otherwise fn is a new helper (see transparent.go) interpreted in place of its call: its returns are collected.
func (ai *AI) explore(fn *ssa.Function, init *aiState, frame *helperFrame) {
	visited := map[string]bool{}
	live := ai.liveOf(fn)
	// values of enclosing frames stay in the state and are part of its identity
	work := []aiItem{{fn.Blocks[0], nil, init}}
	push := func(from *ssa.BasicBlock) func(*ssa.BasicBlock, *aiState) {
		return func(nb *ssa.BasicBlock, s2 *aiState) {
			work = append(work, aiItem{nb, from, s2})
			ai.Transitions++
		}
	}
	for len(work) > 0 && !ai.Aborted {
		it := work[len(work)-1]
		work = work[:len(work)-1]
		st := it.st
		// phis
		if it.pred != nil {
			pi := -1
			for i, p := range it.b.Preds {
				if p == it.pred {
					pi = i
				}
			}
			newv := map[ssa.Value]string{}
			for _, in := range it.b.Instrs {
				ph, ok := in.(*ssa.Phi)
				if !ok {
					break
				}
				newv[ph] = ai.val(st, ph.Edges[pi])
			}
			for k, v := range newv {
				if v == "" {
					delete(st.env, k)
				} else {
					st.env[k] = v
				}
			}
		}
		key := itoa(it.b.Index) + "|" + st.keyFor(fn, live)
		if visited[key] {
			continue
		}
		visited[key] = true
		ai.States++
		if ai.States > ai.maxStates {
			ai.Aborted = true
			return
		}
		first := 0
		for first < len(it.b.Instrs) {
			if _, isPhi := it.b.Instrs[first].(*ssa.Phi); !isPhi {
				break
			}
			first++
		}
		ai.execFrom(it.b, first, st, push(it.b), frame)
	}
}

// execFrom executes b.Instrs[from:] on st; a select or an inlined helper call forks the state, each fork continuing
// with the following instruction; at the end of the block the successors are pushed.
func (ai *AI) execFrom(b *ssa.BasicBlock, from int, st *aiState, push func(*ssa.BasicBlock, *aiState), frame *helperFrame) {
	for idx := from; idx < len(b.Instrs); idx++ {
		in := b.Instrs[idx]
		if ai.onInstr != nil {
			ai.onInstr(st, in)
		}
		stuck := false
		switch x := in.(type) {
		case *ssa.BinOp:
			if a := ai.evalBin(st, x); a != "" {
				st.env[x] = a
			} else {
				delete(st.env, x)
			}
		case *ssa.UnOp:
			switch x.Op {
			case token.NOT:
				switch ai.val(st, x.X) {
				case "true":
					st.env[x] = "false"
				case "false":
					st.env[x] = "true"
				default:
					delete(st.env, x)
				}
			case token.MUL:
				if c, ok := ai.cellOf(x.X); ok {
					if a, has := st.mem[c]; has && a != "" {
						st.env[x] = a
					} else {
						delete(st.env, x)
					}
				} else {
					delete(st.env, x)
				}
			case token.ARROW:
				a := ai.val(st, x.X)
				bare := x.Referrers() == nil || len(*x.Referrers()) == 0
				switch {
				case a == "nil":
					stuck = true
				case strings.HasPrefix(a, "tok:"):
					id := a[4:]
					if ai.oneShot != nil && ai.oneShot(id) && st.tok[id] == "drained" {
						stuck = true
					} else {
						if ai.onRecv != nil {
							ai.onRecv(st, id, x, bare)
						}
						if ai.oneShot != nil && ai.oneShot(id) {
							st.tok[id] = "drained"
						}
					}
				}
				delete(st.env, x)
			}
		case *ssa.Store:
			if c, ok := ai.cellOf(x.Addr); ok {
				st.mem[c] = ai.val(st, x.Val)
			}
		case *ssa.Extract:
			if a, ok := st.env[x.Tuple]; ok && strings.HasPrefix(a, "sel:") && x.Index == 0 {
				st.env[x] = "k:" + a[4:]
			} else if tv, ok := st.tup[x.Tuple]; ok && x.Index < len(tv) && tv[x.Index] != "" {
				st.env[x] = tv[x.Index]
			} else {
				delete(st.env, x)
			}
		case *ssa.TypeAssert:
			if !x.CommaOk {
				st.env[x] = "nonnil"
			} else if ai.onAssert != nil {
				// v, ok := x.(T): two outcomes, (value of type T, true) and (zero value, false)
				for _, okv := range []bool{true, false} {
					out := st.clone()
					if !ai.onAssert(out, x, okv) {
						continue
					}
					if out.tup == nil {
						out.tup = map[ssa.Value][]string{}
					}
					zero := ""
					switch x.AssertedType.Underlying().(type) {
					case *types.Interface, *types.Pointer, *types.Map, *types.Slice, *types.Chan, *types.Signature:
						zero = "nil"
					}
					if okv {
						out.tup[x] = []string{"nonnil", "true"}
						if zero == "" {
							out.tup[x] = []string{"", "true"}
						}
					} else {
						out.tup[x] = []string{zero, "false"}
					}
					ai.execFrom(b, idx+1, out, push, frame)
				}
				return
			}
		case *ssa.Call:
			// a new helper is interpreted in place of the call (extracting part of the loop into a method must not
			// change what is decided)
			depth := 0
			if frame != nil {
				depth = frame.depth
			}
			if h := newHelperCallee(x); h != nil && depth < 3 {
				hf := &helperFrame{depth: depth + 1}
				hs := st.clone()
				for k, p := range h.Params {
					if k < len(x.Call.Args) {
						if a := ai.val(st, x.Call.Args[k]); a != "" {
							hs.env[p] = a
						} else {
							delete(hs.env, p)
						}
					}
				}
				ai.explore(h, hs, hf)
				for k, out := range hf.outs {
					rv := hf.rets[k]
					delete(out.env, x)
					if len(rv) == 1 && rv[0] != "" {
						out.env[x] = rv[0]
					}
					if len(rv) > 1 {
						if out.tup == nil {
							out.tup = map[ssa.Value][]string{}
						}
						out.tup[x] = rv
					}
					ai.execFrom(b, idx+1, out, push, frame)
				}
				return
			}
			if ai.onCall != nil {
				if a, handled := ai.onCall(st, x); handled {
					if a == "" {
						delete(st.env, x)
					} else {
						st.env[x] = a
					}
					break
				}
			}
			delete(st.env, x)
		case *ssa.Go, *ssa.Defer:
			if ai.onCall != nil {
				ai.onCall(st, x.(ssa.CallInstruction))
			}
		case *ssa.Select:
			// branch per feasible case
			for i, s := range x.States {
				a := ai.val(st, s.Chan)
				if a == "nil" {
					continue
				}
				ns := st.clone()
				if strings.HasPrefix(a, "tok:") && s.Dir == types.RecvOnly {
					id := a[4:]
					if ai.oneShot != nil && ai.oneShot(id) && st.tok[id] != "pending" {
						continue
					}
					if ai.onRecv != nil {
						ai.onRecv(ns, id, x, false)
					}
					if ai.oneShot != nil && ai.oneShot(id) {
						ns.tok[id] = "drained"
					}
				}
				ns.env[x] = "sel:" + itoa(i)
				if ai.onSelect != nil {
					ai.onSelect(ns, x, i)
				}
				ai.execFrom(b, idx+1, ns, push, frame)
			}
			if !x.Blocking {
				ns := st.clone()
				ns.env[x] = "sel:-1"
				ai.execFrom(b, idx+1, ns, push, frame)
			}
			return
		case *ssa.Return:
			if frame != nil {
				var rv []string
				for _, r := range x.Results {
					rv = append(rv, ai.val(st, r))
				}
				frame.outs = append(frame.outs, st)
				frame.rets = append(frame.rets, rv)
				return
			}
			if ai.onReturn != nil {
				ai.onReturn(st, in)
			}
		case *ssa.Panic:
			if ai.onReturn != nil {
				ai.onReturn(st, in)
			}
		}
		if stuck {
			if ai.onReturn != nil {
				st.flag["stuck"] = true
				ai.onReturn(st, b.Instrs[len(b.Instrs)-1])
			}
			return
		}
	}
	ai.branch(b, st, push)
}

func (ai *AI) branch(b *ssa.BasicBlock, st *aiState, push func(*ssa.BasicBlock, *aiState)) {
	last := b.Instrs[len(b.Instrs)-1]
	switch x := last.(type) {
	case *ssa.If:
		take := func(idx int, s2 *aiState) {
			if ai.onBranch != nil {
				ai.onBranch(s2, x, idx)
			}
			push(b.Succs[idx], s2)
		}
		switch ai.val(st, x.Cond) {
		case "true":
			take(0, st)
		case "false":
			take(1, st)
		default:
			take(0, st.clone())
			take(1, st)
		}
	case *ssa.Jump:
		push(b.Succs[0], st)
	}
}
