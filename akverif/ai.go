package main

import (
	"go/constant"
	"go/token"
	"go/types"
	"sort"
	"strings"

	"golang.org/x/tools/go/ssa"
)

// Path-sensitive abstract interpretation of one function's SSA (used for the provider's select loops).
//
// Domain (finite, fully disjunctive): chosen SSA values and memory cells are mapped to one of
//   "nil" | "nonnil" | "true" | "false" | "k:<int>" | "tok:<id>"   (absent = unknown: both branches are taken)
// a token is a one-shot channel created at a call site and is "pending" or "drained"; ghost counters saturate
// at 2 ("many"). A select case receiving from a nil or drained channel is infeasible; every other case may
// fire, which is what quantifies over schedules. No akash code is executed and no solver is used.

type aiState struct {
	env  map[ssa.Value]string
	mem  map[string]string
	tok  map[string]string
	cnt  map[string]int
	flag map[string]bool
}

func newAIState() *aiState {
	return &aiState{env: map[ssa.Value]string{}, mem: map[string]string{}, tok: map[string]string{}, cnt: map[string]int{}, flag: map[string]bool{}}
}

func (s *aiState) clone() *aiState {
	n := newAIState()
	for k, v := range s.env {
		n.env[k] = v
	}
	for k, v := range s.mem {
		n.mem[k] = v
	}
	for k, v := range s.tok {
		n.tok[k] = v
	}
	for k, v := range s.cnt {
		n.cnt[k] = v
	}
	for k, v := range s.flag {
		n.flag[k] = v
	}
	return n
}

func (s *aiState) bump(k string) {
	if s.cnt[k] < 2 {
		s.cnt[k]++
	}
}

func (s *aiState) key(live map[ssa.Value]bool) string {
	var parts []string
	for v, a := range s.env {
		if live == nil || live[v] {
			parts = append(parts, v.Name()+"="+a)
		}
	}
	for k, v := range s.mem {
		parts = append(parts, "m:"+k+"="+v)
	}
	for k, v := range s.tok {
		parts = append(parts, "t:"+k+"="+v)
	}
	for k, v := range s.cnt {
		parts = append(parts, "c:"+k+"="+itoa(v))
	}
	for k, v := range s.flag {
		if v {
			parts = append(parts, "f:"+k)
		}
	}
	sort.Strings(parts)
	return strings.Join(parts, ";")
}

type AI struct {
	fn *ssa.Function
	// trackMem: is the memory cell (Sym of its address without leading &) tracked?
	trackMem func(cell string) bool
	// onCall may model a call: return (abstract value of result, true) to override the default (unknown).
	onCall func(st *aiState, call ssa.CallInstruction) (string, bool)
	// onInstr is invoked before every instruction (assertions).
	onInstr func(st *aiState, in ssa.Instruction)
	// onReturn is invoked at every return / panic with the final state.
	onReturn func(st *aiState, in ssa.Instruction)
	// oneShot: receiving from this token drains it (single-value channels)
	oneShot func(tok string) bool
	// onBranch is invoked when a conditional edge is taken (idx 0 = true edge)
	onBranch func(st *aiState, ifi *ssa.If, idx int)
	// onSelect is invoked on the forked state when select case i is chosen (-1 = default)
	onSelect func(st *aiState, sel *ssa.Select, i int)
	// onRecv is invoked when a receive from a tracked token is executed (select case or plain receive)
	onRecv func(st *aiState, tok string, in ssa.Instruction, bare bool)

	States      int
	Transitions int
	maxStates   int
	Aborted     bool
	visited     map[string]bool
	live        map[ssa.Value]bool
}

func (ai *AI) val(st *aiState, v ssa.Value) string {
	switch x := v.(type) {
	case *ssa.Const:
		if x.Value == nil {
			if _, isBasic := x.Type().Underlying().(*types.Basic); !isBasic {
				return "nil"
			}
			return ""
		}
		s := x.Value.ExactString()
		if s == "true" || s == "false" {
			return s
		}
		if k, ok := constInt(x); ok {
			return "k:" + itoa(int(k))
		}
		if x.Value.Kind() == constant.String {
			return "s:" + constant.StringVal(x.Value)
		}
		return ""
	case *ssa.ChangeType:
		return ai.val(st, x.X)
	case *ssa.MakeInterface:
		a := ai.val(st, x.X)
		if a == "nil" {
			return "nonnil" // an interface holding a typed nil is not nil
		}
		return a
	case *ssa.Convert:
		return ai.val(st, x.X)
	}
	if a, ok := st.env[v]; ok {
		return a
	}
	return ""
}

func isNonNilish(a string) bool { return a == "nonnil" || strings.HasPrefix(a, "tok:") }

func (ai *AI) evalBin(st *aiState, b *ssa.BinOp) string {
	if b.Op != token.EQL && b.Op != token.NEQ {
		return ""
	}
	x, y := ai.val(st, b.X), ai.val(st, b.Y)
	if x == "" || y == "" {
		return ""
	}
	eq := ""
	switch {
	case x == y && (x == "nil" || x == "true" || x == "false" || strings.HasPrefix(x, "k:") || strings.HasPrefix(x, "s:")):
		eq = "true"
	case (x == "nil" && isNonNilish(y)) || (y == "nil" && isNonNilish(x)):
		eq = "false"
	case (x == "true" && y == "false") || (x == "false" && y == "true"):
		eq = "false"
	case strings.HasPrefix(x, "k:") && strings.HasPrefix(y, "k:") && x != y:
		eq = "false"
	case strings.HasPrefix(x, "s:") && strings.HasPrefix(y, "s:") && x != y:
		eq = "false"
	default:
		return ""
	}
	if b.Op == token.NEQ {
		if eq == "true" {
			return "false"
		}
		return "true"
	}
	return eq
}

func (ai *AI) cellOf(addr ssa.Value) (string, bool) {
	if ai.trackMem == nil {
		return "", false
	}
	c := strings.TrimPrefix(strings.ReplaceAll(Sym(addr), "*", ""), "&")
	if ai.trackMem(c) {
		return c, true
	}
	return "", false
}

// Run explores all abstract paths of fn from its entry with the given initial state.
func (ai *AI) Run(init *aiState) {
	if ai.maxStates == 0 {
		ai.maxStates = 200000
	}
	ai.visited = map[string]bool{}
	// only values that live across blocks are part of the state identity
	ai.live = map[ssa.Value]bool{}
	for _, b := range ai.fn.Blocks {
		for _, in := range b.Instrs {
			v, ok := in.(ssa.Value)
			if !ok {
				continue
			}
			if _, isPhi := in.(*ssa.Phi); isPhi {
				ai.live[v] = true
				continue
			}
			if v.Referrers() == nil {
				continue
			}
			for _, r := range *v.Referrers() {
				if r.Block() != b {
					ai.live[v] = true
				}
				if _, isPhi := r.(*ssa.Phi); isPhi {
					ai.live[v] = true
				}
			}
		}
	}
	// liveness approximation: only phis and values used across blocks matter for the visited key; keep all.
	type item struct {
		b    *ssa.BasicBlock
		pred *ssa.BasicBlock
		st   *aiState
	}
	work := []item{{ai.fn.Blocks[0], nil, init}}
	for len(work) > 0 {
		it := work[len(work)-1]
		work = work[:len(work)-1]
		st := it.st
		// phis
		if it.pred != nil {
			pi := -1
			for i, p := range it.b.Preds {
				if p == it.pred {
					pi = i
				}
			}
			newv := map[ssa.Value]string{}
			for _, in := range it.b.Instrs {
				ph, ok := in.(*ssa.Phi)
				if !ok {
					break
				}
				newv[ph] = ai.val(st, ph.Edges[pi])
			}
			for k, v := range newv {
				if v == "" {
					delete(st.env, k)
				} else {
					st.env[k] = v
				}
			}
		}
		key := itoa(it.b.Index) + "|" + st.key(ai.live)
		if ai.visited[key] {
			continue
		}
		ai.visited[key] = true
		ai.States++
		if ai.States > ai.maxStates {
			ai.Aborted = true
			return
		}
		// execute block
		stuck := false
		var succs []item
		for _, in := range it.b.Instrs {
			if _, isPhi := in.(*ssa.Phi); isPhi {
				continue
			}
			if ai.onInstr != nil {
				ai.onInstr(st, in)
			}
			switch x := in.(type) {
			case *ssa.BinOp:
				if a := ai.evalBin(st, x); a != "" {
					st.env[x] = a
				} else {
					delete(st.env, x)
				}
			case *ssa.UnOp:
				switch x.Op {
				case token.NOT:
					switch ai.val(st, x.X) {
					case "true":
						st.env[x] = "false"
					case "false":
						st.env[x] = "true"
					default:
						delete(st.env, x)
					}
				case token.MUL:
					if c, ok := ai.cellOf(x.X); ok {
						if a, has := st.mem[c]; has && a != "" {
							st.env[x] = a
						} else {
							delete(st.env, x)
						}
					} else {
						delete(st.env, x)
					}
				case token.ARROW:
					a := ai.val(st, x.X)
					bare := x.Referrers() == nil || len(*x.Referrers()) == 0
					switch {
					case a == "nil":
						stuck = true
					case strings.HasPrefix(a, "tok:"):
						id := a[4:]
						if ai.oneShot != nil && ai.oneShot(id) && st.tok[id] == "drained" {
							stuck = true
						} else {
							if ai.onRecv != nil {
								ai.onRecv(st, id, x, bare)
							}
							if ai.oneShot != nil && ai.oneShot(id) {
								st.tok[id] = "drained"
							}
						}
					}
					delete(st.env, x)
				}
			case *ssa.Store:
				if c, ok := ai.cellOf(x.Addr); ok {
					st.mem[c] = ai.val(st, x.Val)
				}
			case *ssa.Extract:
				if a, ok := st.env[x.Tuple]; ok && strings.HasPrefix(a, "sel:") && x.Index == 0 {
					st.env[x] = "k:" + a[4:]
				} else {
					delete(st.env, x)
				}
			case *ssa.TypeAssert:
				if !x.CommaOk {
					st.env[x] = "nonnil"
				}
			case *ssa.Call:
				if ai.onCall != nil {
					if a, handled := ai.onCall(st, x); handled {
						if a == "" {
							delete(st.env, x)
						} else {
							st.env[x] = a
						}
						break
					}
				}
				delete(st.env, x)
			case *ssa.Go, *ssa.Defer:
				if ai.onCall != nil {
					ai.onCall(st, x.(ssa.CallInstruction))
				}
			case *ssa.Select:
				// branch per feasible case
				for i, s := range x.States {
					a := ai.val(st, s.Chan)
					if a == "nil" {
						continue
					}
					ns := st.clone()
					if strings.HasPrefix(a, "tok:") && s.Dir == types.RecvOnly {
						id := a[4:]
						if ai.oneShot != nil && ai.oneShot(id) && st.tok[id] != "pending" {
							continue
						}
						if ai.onRecv != nil {
							ai.onRecv(ns, id, x, false)
						}
						if ai.oneShot != nil && ai.oneShot(id) {
							ns.tok[id] = "drained"
						}
					}
					ns.env[x] = "sel:" + itoa(i)
					if ai.onSelect != nil {
						ai.onSelect(ns, x, i)
					}
					succs = append(succs, item{nil, nil, ns})
				}
				if !x.Blocking {
					ns := st.clone()
					ns.env[x] = "sel:-1"
					succs = append(succs, item{nil, nil, ns})
				}
			case *ssa.Return, *ssa.Panic:
				if ai.onReturn != nil {
					ai.onReturn(st, in)
				}
			}
			if stuck {
				break
			}
			if len(succs) > 0 {
				// a select forks the state mid-block: continue each fork from the next instruction by re-running the
				// remainder of the block; implemented by splitting: selects are always followed by extracts in the
				// same block, so we finish the block per fork below.
				break
			}
		}
		if stuck {
			if ai.onReturn != nil {
				st.flag["stuck"] = true
				ai.onReturn(st, it.b.Instrs[len(it.b.Instrs)-1])
			}
			continue
		}
		if len(succs) > 0 {
			// finish the block for every fork
			var sel ssa.Instruction
			selIdx := -1
			for i, in := range it.b.Instrs {
				if _, ok := in.(*ssa.Select); ok {
					sel = in
					selIdx = i
				}
			}
			_ = sel
			for _, f := range succs {
				fs := f.st
				ai.finishBlock(it.b, selIdx+1, fs, func(nb *ssa.BasicBlock, s2 *aiState) {
					work = append(work, item{nb, it.b, s2})
					ai.Transitions++
				})
			}
			continue
		}
		ai.branch(it.b, st, func(nb *ssa.BasicBlock, s2 *aiState) {
			work = append(work, item{nb, it.b, s2})
			ai.Transitions++
		})
	}
}

// finishBlock executes instructions from index `from` of b on st (no further selects expected) and branches.
func (ai *AI) finishBlock(b *ssa.BasicBlock, from int, st *aiState, push func(*ssa.BasicBlock, *aiState)) {
	for _, in := range b.Instrs[from:] {
		if ai.onInstr != nil {
			ai.onInstr(st, in)
		}
		switch x := in.(type) {
		case *ssa.Extract:
			if a, ok := st.env[x.Tuple]; ok && strings.HasPrefix(a, "sel:") && x.Index == 0 {
				st.env[x] = "k:" + a[4:]
			} else {
				delete(st.env, x)
			}
		case *ssa.BinOp:
			if a := ai.evalBin(st, x); a != "" {
				st.env[x] = a
			} else {
				delete(st.env, x)
			}
		case *ssa.Call:
			if ai.onCall != nil {
				if a, handled := ai.onCall(st, x); handled && a != "" {
					st.env[x] = a
					continue
				}
			}
			delete(st.env, x)
		case *ssa.Store:
			if c, ok := ai.cellOf(x.Addr); ok {
				st.mem[c] = ai.val(st, x.Val)
			}
		case *ssa.Return, *ssa.Panic:
			if ai.onReturn != nil {
				ai.onReturn(st, in)
			}
		}
	}
	ai.branch(b, st, push)
}

func (ai *AI) branch(b *ssa.BasicBlock, st *aiState, push func(*ssa.BasicBlock, *aiState)) {
	last := b.Instrs[len(b.Instrs)-1]
	switch x := last.(type) {
	case *ssa.If:
		take := func(idx int, s2 *aiState) {
			if ai.onBranch != nil {
				ai.onBranch(s2, x, idx)
			}
			push(b.Succs[idx], s2)
		}
		switch ai.val(st, x.Cond) {
		case "true":
			take(0, st)
		case "false":
			take(1, st)
		default:
			take(0, st.clone())
			take(1, st)
		}
	case *ssa.Jump:
		push(b.Succs[0], st)
	}
}
