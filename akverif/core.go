package main

import (
	"crypto/sha1"
	"encoding/json"
	"fmt"
	"go/ast"
	"go/token"
	"go/types"
	"os"
	"path/filepath"
	"sort"
	"strconv"
	"strings"
	"time"

	"golang.org/x/tools/go/callgraph"
	"golang.org/x/tools/go/callgraph/cha"
	"golang.org/x/tools/go/callgraph/vta"
	"golang.org/x/tools/go/packages"
	"golang.org/x/tools/go/ssa"
	"golang.org/x/tools/go/ssa/ssautil"
)

const akash = "github.com/ovrclk/akash"

// Obligation is one decided rule instance.
type Obligation struct {
	Rule     string `json:"rule"`
	Instance string `json:"instance"`
	Pos      string `json:"pos"`
	OK       bool   `json:"ok"`
	Detail   string `json:"detail,omitempty"`
	Info     bool   `json:"informational,omitempty"`
}

func (o Obligation) Key() string { return o.Rule + "|" + o.Instance }

// Undecided aborts a check without a verdict (exit 2).
type Undecided struct{ Msg string }

type Check struct {
	ID          string
	Tier        string
	L           *Loaded
	Obs         []Obligation
	Funcs       map[string]bool
	CallSites   int
	Explanation string
	NotDecided  string
	Assumptions []string
	Extra       map[string]interface{}
	rename      map[string]string // rule renaming while a shared rule runs under another property (see As)
}

// As runs f with obligations of rule `from` recorded as rule `to` (shared rules keep their native numbering).
func (c *Check) As(from, to string, f func()) {
	if c.rename == nil {
		c.rename = map[string]string{}
	}
	old, had := c.rename[from]
	c.rename[from] = to
	f()
	if had {
		c.rename[from] = old
	} else {
		delete(c.rename, from)
	}
}

func (c *Check) Ob(rule, instance string, pos token.Pos, ok bool, detail string) {
	if to, ok2 := c.rename[rule]; ok2 {
		rule = to
	}
	c.Obs = append(c.Obs, Obligation{Rule: c.ID + "-" + rule, Instance: instance, Pos: c.L.Pos(pos), OK: ok, Detail: detail})
	if os.Getenv("AKVERIF_DEBUG") != "" {
		fmt.Fprintf(os.Stderr, "OB %v %s-%s | %s | %s\n", ok, c.ID, rule, instance, c.L.Pos(pos))
	}
}

func (c *Check) Info(rule, instance string, pos token.Pos, detail string) {
	c.Obs = append(c.Obs, Obligation{Rule: c.ID + "-" + rule, Instance: instance, Pos: c.L.Pos(pos), OK: true, Detail: detail, Info: true})
}

func (c *Check) Fail(format string, a ...interface{}) {
	panic(Undecided{fmt.Sprintf(format, a...)})
}

// Floor fails the check (no verdict) when a rule matched fewer instances than were
// confirmed by hand on the pinned tree.
func (c *Check) Floor(rule string, n int) {
	got := 0
	for _, o := range c.Obs {
		if o.Rule == c.ID+"-"+rule && !o.Info {
			got++
		}
	}
	if got < n {
		c.Fail("rule %s-%s lost its instances: %d < floor %d", c.ID, rule, got, n)
	}
}

func (c *Check) Analysed(fn string) { c.Funcs[fn] = true }

// ---------------------------------------------------------------------------------------

type Loaded struct {
	Repo   string
	Fset   *token.FileSet
	Pkgs   []*packages.Package
	ByPath map[string]*packages.Package
	Prog   *ssa.Program
	SSA    map[string]*ssa.Package
	cg     *callgraph.Graph
	all    bool
}

func (l *Loaded) Pos(p token.Pos) string {
	if !p.IsValid() {
		return "-"
	}
	pp := l.Fset.Position(p)
	f := pp.Filename
	if rel, err := filepath.Rel(l.Repo, f); err == nil && !strings.HasPrefix(rel, "..") {
		f = rel
	}
	return f + ":" + strconv.Itoa(pp.Line)
}

func Load(repo string, all bool, tests bool) *Loaded { return loadCfg(repo, all, tests, nil, nil) }

// LoadWith loads the working tree with an in-memory overlay (file path -> content) and extra environment.
func LoadWith(repo string, overlay map[string][]byte, env []string) *Loaded {
	return loadCfg(repo, false, false, overlay, env)
}

func loadCfg(repo string, all bool, tests bool, overlay map[string][]byte, env []string) *Loaded {
	mode := packages.NeedName | packages.NeedFiles | packages.NeedCompiledGoFiles | packages.NeedImports |
		packages.NeedDeps | packages.NeedTypes | packages.NeedSyntax | packages.NeedTypesInfo | packages.NeedTypesSizes | packages.NeedModule
	cfg := &packages.Config{Mode: mode, Dir: repo, Tests: tests, Overlay: overlay,
		Env: append(append(os.Environ(), "GOFLAGS=-mod=mod", "GOPROXY=off", "GOSUMDB=off", "GOTOOLCHAIN=local", "GOWORK=off"), env...)}
	pkgs, err := packages.Load(cfg, "./...")
	if err != nil {
		panic(Undecided{"load: " + err.Error()})
	}
	if len(pkgs) < 100 {
		panic(Undecided{fmt.Sprintf("load: only %d packages", len(pkgs))})
	}
	l := &Loaded{Repo: repo, Pkgs: pkgs, ByPath: map[string]*packages.Package{}, SSA: map[string]*ssa.Package{}, all: all}
	nerr := 0
	packages.Visit(pkgs, nil, func(p *packages.Package) {
		for _, e := range p.Errors {
			if strings.HasPrefix(p.PkgPath, akash) {
				fmt.Fprintf(os.Stderr, "load error: %s: %v\n", p.PkgPath, e)
				nerr++
			}
		}
	})
	if nerr > 0 {
		panic(Undecided{fmt.Sprintf("load: %d type/parse errors in akash packages", nerr)})
	}
	for _, p := range pkgs {
		l.ByPath[p.PkgPath] = p
		l.Fset = p.Fset
	}
	var prog *ssa.Program
	var spkgs []*ssa.Package
	if all {
		prog, spkgs = ssautil.AllPackages(pkgs, ssa.InstantiateGenerics)
	} else {
		prog, spkgs = ssautil.Packages(pkgs, ssa.InstantiateGenerics)
	}
	prog.Build()
	l.Prog = prog
	for i, sp := range spkgs {
		if sp != nil {
			l.SSA[pkgs[i].PkgPath] = sp
		}
	}
	return l
}

func (l *Loaded) Pkg(rel string) *packages.Package {
	p := l.ByPath[akash+"/"+rel]
	if p == nil {
		panic(Undecided{"unresolved anchor: package " + rel})
	}
	return p
}

func (l *Loaded) SPkg(rel string) *ssa.Package {
	p := l.SSA[akash+"/"+rel]
	if p == nil {
		panic(Undecided{"unresolved anchor: ssa package " + rel})
	}
	return p
}

// Func finds a function or method by package (relative), receiver type name ("" for none) and name.
func (l *Loaded) FuncOpt(rel, recv, name string) *ssa.Function {
	sp := l.SSA[akash+"/"+rel]
	if sp == nil {
		return nil
	}
	if recv == "" {
		return sp.Func(name)
	}
	t := sp.Type(recv)
	if t == nil {
		return nil
	}
	nt := t.Type()
	for _, T := range []types.Type{nt, types.NewPointer(nt)} {
		ms := l.Prog.MethodSets.MethodSet(T)
		for i := 0; i < ms.Len(); i++ {
			if ms.At(i).Obj().Name() == name {
				f := l.Prog.MethodValue(ms.At(i))
				if f != nil && f.Synthetic == "" {
					return f
				}
				// wrapper: find declared
				if f != nil {
					if o, ok := ms.At(i).Obj().(*types.Func); ok {
						if d := l.Prog.FuncValue(o); d != nil {
							return d
						}
					}
				}
			}
		}
	}
	return nil
}

func (l *Loaded) Func(rel, recv, name string) *ssa.Function {
	f := l.FuncOpt(rel, recv, name)
	if f == nil || f.Blocks == nil {
		panic(Undecided{fmt.Sprintf("unresolved anchor: func %s (%s).%s", rel, recv, name)})
	}
	return f
}

// CallGraph is CHA refined by VTA over the functions of the program.
func (l *Loaded) CallGraph() *callgraph.Graph {
	if l.cg == nil {
		fns := ssautil.AllFunctions(l.Prog)
		l.cg = vta.CallGraph(fns, cha.CallGraph(l.Prog))
	}
	return l.cg
}

// IsAkash reports whether fn belongs to an akash package (excluding nothing).
func isAkashFn(fn *ssa.Function) bool {
	p := fnPkgPath(fn)
	return strings.HasPrefix(p, akash)
}

func fnPkgPath(fn *ssa.Function) string {
	if fn == nil {
		return ""
	}
	if fn.Pkg != nil {
		return fn.Pkg.Pkg.Path()
	}
	if fn.Parent() != nil {
		return fnPkgPath(fn.Parent())
	}
	if o := fn.Object(); o != nil && o.Pkg() != nil {
		return o.Pkg().Path()
	}
	if fn.Origin() != nil {
		return fnPkgPath(fn.Origin())
	}
	return ""
}

func relPkg(p string) string { return strings.TrimPrefix(strings.TrimPrefix(p, akash), "/") }

// fnName gives a stable, line-free name for a function: pkg.(Recv).Name or pkg.Name$1 for closures.
func fnName(fn *ssa.Function) string {
	if fn == nil {
		return "<nil>"
	}
	if fn.Parent() != nil {
		return fnName(fn.Parent()) + "$" + strings.TrimPrefix(fn.Name(), fn.Parent().Name()+"$")
	}
	p := relPkg(fnPkgPath(fn))
	if recv := fn.Signature.Recv(); recv != nil {
		t := recv.Type()
		if pt, ok := t.(*types.Pointer); ok {
			t = pt.Elem()
		}
		if nt, ok := t.(*types.Named); ok {
			return p + ".(" + nt.Obj().Name() + ")." + fn.Name()
		}
	}
	return p + "." + fn.Name()
}

// isTestFile reports whether pos is in a _test.go file.
func (l *Loaded) isTestPos(p token.Pos) bool {
	return strings.HasSuffix(l.Fset.Position(p).Filename, "_test.go")
}

// nonProd: test helpers, mocks, simulation, generated clients
func nonProdPkg(path string) bool {
	r := relPkg(path)
	for _, s := range []string{"testutil", "/mocks", "/simulation", "integration", "_run", "_docs"} {
		if strings.Contains("/"+r, s) {
			return true
		}
	}
	return false
}

// ---------------------------------------------------------------------------------------
// AST helpers

// FuncDecl finds the declaration of a function in a package.
func (l *Loaded) FuncDecl(rel, recv, name string) (*ast.FuncDecl, *packages.Package) {
	p := l.Pkg(rel)
	for _, f := range p.Syntax {
		for _, d := range f.Decls {
			fd, ok := d.(*ast.FuncDecl)
			if !ok || fd.Name.Name != name {
				continue
			}
			r := ""
			if fd.Recv != nil && len(fd.Recv.List) > 0 {
				t := fd.Recv.List[0].Type
				if s, ok := t.(*ast.StarExpr); ok {
					t = s.X
				}
				if id, ok := t.(*ast.Ident); ok {
					r = id.Name
				}
			}
			if r == recv {
				return fd, p
			}
		}
	}
	panic(Undecided{fmt.Sprintf("unresolved anchor: decl %s (%s).%s", rel, recv, name)})
}

// ---------------------------------------------------------------------------------------
// known findings, evidence, main

type KnownFinding struct {
	Property string `json:"property"`
	Key      string `json:"key"`
	What     string `json:"what"`
}

type KnownFile struct {
	Known []KnownFinding `json:"known"`
	Fixed []string       `json:"fixed"`
}

func home() string {
	if h := os.Getenv("AKVERIF_HOME"); h != "" {
		return h
	}
	return "/verif"
}

func loadKnown() KnownFile {
	var kf KnownFile
	b, err := os.ReadFile(filepath.Join(home(), "known_findings.json"))
	if err != nil {
		return kf
	}
	if err := json.Unmarshal(b, &kf); err != nil {
		panic(Undecided{"known_findings.json: " + err.Error()})
	}
	return kf
}

type checkFn func(c *Check)

var registry = map[string]checkFn{}

func main() {
	if len(os.Args) < 2 {
		fmt.Fprintln(os.Stderr, "usage: akverif check CNN quick|thorough | explain <file> | list")
		os.Exit(2)
	}
	switch os.Args[1] {
	case "list":
		var ids []string
		for id := range registry {
			ids = append(ids, id)
		}
		sort.Strings(ids)
		fmt.Println(strings.Join(ids, " "))
	case "gen-names":
		os.Exit(genNames())
	case "explain":
		b, err := os.ReadFile(os.Args[2])
		if err != nil {
			fmt.Fprintln(os.Stderr, err)
			os.Exit(2)
		}
		os.Stdout.Write(b)
	case "check":
		if len(os.Args) < 3 {
			os.Exit(2)
		}
		tier := "quick"
		if len(os.Args) > 3 {
			tier = os.Args[3]
		}
		os.Exit(runCheck(os.Args[2], tier))
	default:
		os.Exit(2)
	}
}

func repoDir() string {
	if r := os.Getenv("AKVERIF_REPO"); r != "" {
		return r
	}
	return "/repo"
}

func runCheck(id, tier string) (code int) {
	start := time.Now()
	fn := registry[id]
	if fn == nil {
		fmt.Fprintln(os.Stderr, "unknown check", id)
		return 2
	}
	c := &Check{ID: id, Tier: tier, Funcs: map[string]bool{}, Extra: map[string]interface{}{}}
	defer func() {
		if r := recover(); r != nil {
			if u, ok := r.(Undecided); ok {
				// a rule instance that already failed is a finding in its own right: it is reported even though the
				// rest of the check could not be decided (a change that both breaks a rule and removes the anchors
				// of another must not hide behind the second effect)
				nbad := 0
				for _, o := range c.Obs {
					if !o.OK && !o.Info {
						nbad++
					}
				}
				if nbad > 0 && c.L != nil {
					fmt.Fprintf(os.Stderr, "UNDECIDED %s (after %d violated obligations, reported below): %s\n", id, nbad, u.Msg)
					if os.Getenv("AKVERIF_SUB") != "" {
						for _, o := range c.Obs {
							if !o.OK && !o.Info {
								fmt.Printf("SUBKEY %s\n", o.Key())
							}
						}
						fmt.Println("SUBSTATUS decided")
						code = 0
						return
					}
					c.NotDecided += "; NOT COMPLETED: " + u.Msg
					if rc := finish(c, start); rc == 1 {
						code = 1
						return
					}
				}
				if os.Getenv("AKVERIF_SUB") != "" {
					fmt.Printf("SUBSTATUS undecided: %s\n", u.Msg)
				}
				fmt.Fprintf(os.Stderr, "UNDECIDED %s: %s\n", id, u.Msg)
			} else {
				fmt.Fprintf(os.Stderr, "PANIC %s: %v\n", id, r)
				panic(r)
			}
			code = 2
		}
	}()
	if pf := os.Getenv("AKVERIF_OVERLAY"); pf != "" {
		// variant run (thorough self-validation): the patch is applied in memory only
		ov, err := overlayForPatch(repoDir(), pf)
		if err != nil {
			fmt.Printf("SUBSTATUS skipped: %v\n", err)
			return 0
		}
		c.L = LoadWith(repoDir(), ov, nil)
	} else {
		c.L = Load(repoDir(), false, false)
	}
	curL = c.L
	transpMemo = nil
	fn(c)
	if os.Getenv("AKVERIF_SUB") != "" {
		for _, o := range c.Obs {
			if !o.OK && !o.Info {
				fmt.Printf("SUBKEY %s\n", o.Key())
			}
		}
		fmt.Println("SUBSTATUS decided")
		return 0
	}
	if tier == "thorough" {
		runThorough(c, fn)
		if tf := thoroughRegistry[id]; tf != nil {
			tf(c)
		}
	}
	return finish(c, start)
}

var thoroughRegistry = map[string]checkFn{}

func finish(c *Check, start time.Time) int {
	kf := loadKnown()
	known := map[string]KnownFinding{}
	for _, k := range kf.Known {
		if k.Property == c.ID {
			known[k.Key] = k
		}
	}
	sort.SliceStable(c.Obs, func(i, j int) bool { return c.Obs[i].Key() < c.Obs[j].Key() })
	viol := 0
	discharged := 0
	nInfo := 0
	distinct := map[string]bool{}
	var samples []interface{}
	var knownHit []string
	vdir := filepath.Join(home(), "evidence", "violations")
	for _, o := range c.Obs {
		if o.Info {
			nInfo++
			continue
		}
		distinct[o.Key()] = true
		if o.OK {
			discharged++
			continue
		}
		if k, ok := known[o.Key()]; ok {
			fmt.Printf("KNOWN-FINDING: property=%s %s [%s at %s]\n", c.ID, k.What, o.Key(), o.Pos)
			knownHit = append(knownHit, o.Key())
			continue
		}
		viol++
		os.MkdirAll(vdir, 0o755)
		h := sha1.Sum([]byte(o.Key()))
		path := filepath.Join(vdir, fmt.Sprintf("%s-%x.json", c.ID, h[:6]))
		b, _ := json.MarshalIndent(map[string]interface{}{"property": c.ID, "obligation": o, "tier": c.Tier}, "", " ")
		os.WriteFile(path, b, 0o644)
		fmt.Printf("%s: %s: %s: %s\n", o.Pos, o.Rule, o.Instance, o.Detail)
		fmt.Printf("VIOLATION property=%s replay=%s\n", c.ID, path)
	}
	// samples: a spread of obligations
	nob := 0
	for _, o := range c.Obs {
		if o.Info {
			continue
		}
		nob++
	}
	step := 1
	if nob > 40 {
		step = nob / 40
	}
	i := 0
	for _, o := range c.Obs {
		if o.Info {
			continue
		}
		if i%step == 0 || !o.OK {
			samples = append(samples, o)
		}
		i++
	}
	var infos []Obligation
	for _, o := range c.Obs {
		if o.Info {
			infos = append(infos, o)
		}
	}
	var fns []string
	for f := range c.Funcs {
		fns = append(fns, f)
	}
	sort.Strings(fns)
	rules := map[string]int{}
	for _, o := range c.Obs {
		if !o.Info {
			rules[o.Rule]++
		}
	}
	cov := map[string]interface{}{
		"explanation":         c.Explanation,
		"not_decided":         c.NotDecided,
		"obligations":         nob,
		"discharged":          discharged,
		"evaluations":         nob,
		"distinct_nontrivial": len(distinct),
		"rule":                "one evaluation per rule instance (rule id + construct, never a line number) found in /repo's current source; distinct = distinct rule|construct keys; every instance is non-trivial in that its construct exists in the tree and the rule had to be decided for it",
		"samples":             samples,
		"per_rule":            rules,
		"functions_analysed":  fns,
		"call_sites":          c.CallSites,
		"packages":            len(c.L.Pkgs),
		"known_findings_hit":  knownHit,
		"informational":       infos,
		"checker_cmd":         "./akverif.sh check " + c.ID + " " + c.Tier,
		"trusted_base":        []string{"go/types, go/ssa, dominator computation of golang.org/x/tools v0.29.0", "Cosmos-SDK semantics listed in DESIGN.md 1.3"},
		"exhaustive":          false,
	}
	for k, v := range c.Extra {
		cov[k] = v
	}
	seed := 0
	if s, err := strconv.Atoi(os.Getenv("VERIF_SEED")); err == nil {
		seed = s
	}
	assumptions := append([]string{
		"A1 Cosmos-SDK: a message handler's writes are committed only if it returns a nil error; ante handler verifies a signature for every GetSigners() address; ValidateBasic runs before the handler; KV iteration is in byte order",
		"A3 go/types, go/ssa lowering and dominator computation (golang.org/x/tools v0.29.0) are correct",
		"the rule decides a structural necessary condition of the property, not the behavioural statement itself (see coverage.not_decided)",
	}, c.Assumptions...)
	ev := map[string]interface{}{
		"property_id": c.ID,
		"tier":        c.Tier,
		"seed":        seed,
		"level":       "other",
		"coverage":    cov,
		"assumptions": assumptions,
		"wall_s":      time.Since(start).Seconds(),
		"violations":  viol,
	}
	b, _ := json.MarshalIndent(ev, "", " ")
	os.MkdirAll(filepath.Join(home(), "evidence"), 0o755)
	if err := os.WriteFile(filepath.Join(home(), "evidence", c.ID+".json"), b, 0o644); err != nil {
		fmt.Fprintln(os.Stderr, err)
		return 2
	}
	fmt.Printf("%s %s: %d obligations, %d discharged, %d known findings, %d violations, %d functions, %.1fs\n",
		c.ID, c.Tier, nob, discharged, len(knownHit), viol, len(fns), time.Since(start).Seconds())
	if viol > 0 {
		return 1
	}
	return 0
}
