package main

import (
	"go/types"
	"strings"

	"golang.org/x/tools/go/ssa"
)

func init() { registry["C05"] = checkC05 }

func checkC05(c *Check) {
	c.Explanation = "Pairing of market/deployment records with escrow records, decided per function on all nil-error paths and for all call sites: (R1) bid created <=> bid-deposit account opened for that bid's id by the provider; bid closed/lost => the same bid's account closed; lease created only after its payment stream was opened for (deployment account, lease payment id) of the same bid; every lease close outside the escrow hooks is paired with PaymentClose of ids derived from that lease; deployments are closed only from the escrow account-closed hook and MsgCloseDeployment passes through AccountClose of the deployment's account; deployment created <=> deployment account opened; hooks are registered in the app; (R2) id mapping is shape-bijective: scope constants agree between mapping and inverse, the payment id's field order agrees with its parser, integer parse widths are not narrower than the id fields they fill; (R3) dropped escrow errors are listed (informational); (R4) closing cascades are complete: the settle core hands every open payment to its caller and the account-closed hook closes an active deployment on every path (shared with C03-R2 / C04-R2). The error of AccountCreate in CreateDeployment is honoured on every nil-error return; the group cascade closes an existing lease and its payment."
	c.NotDecided = "the iff over all histories (needs the global invariant); the escrow-side half (a close that silently does not persist) is C03"
	l := c.L

	// ---- R1.a bid created <=> account opened
	{
		fn := l.msgServerMethod("x/market/handler", "CreateBid")
		c.Analysed(fnName(fn))
		rets := successReturns(fn)
		cb := c.requireOnPaths("R1", "CreateBid: bid record created", fn, rets, func(x ssa.CallInstruction) bool { return callIs(x, "CreateBid", "IKeeper", "types.OrderID") }, "")
		ac := c.requireOnPaths("R1", "CreateBid: bid-deposit escrow account opened", fn, rets, func(x ssa.CallInstruction) bool { return callIs(x, "AccountCreate", "EscrowKeeper") }, "bid stored without its deposit account")
		if len(cb) == 1 && len(ac) == 1 {
			a := userArgs(ac[0])
			bidSym := Sym(cb[0].Value()) + "#0"
			c.Ob("R1", "CreateBid: account id is the created bid's escrow id", ac[0].Pos(), Sym(a[0]) == "types.EscrowAccountForBid(types.Bid.ID("+bidSym+"))", "account id "+short(Sym(a[0])))
			prov := userArgs(cb[0])[1]
			c.Ob("R1", "CreateBid: depositor is the bidding provider", ac[0].Pos(), Sym(a[1]) == Sym(prov) && strings.Contains(Sym(prov), "AccAddressFromBech32(*p:msg.Provider)"), "depositor "+short(Sym(a[1])))
			c.Ob("R1", "CreateBid: deposit is the message's deposit", ac[0].Pos(), Sym(a[2]) == "*p:msg.Deposit", Sym(a[2]))
			// account creation failure fails the tx (error propagated)
			errProp := false
			for _, b := range fn.Blocks {
				if r, ok := b.Instrs[len(b.Instrs)-1].(*ssa.Return); ok {
					if cv, _ := callOf(r.Results[len(r.Results)-1]); cv != nil && ssa.CallInstruction(cv) == ac[0] {
						errProp = true
					}
				}
			}
			okOnly := okEdgeReturnOnly(fn, ac[0].(*ssa.Call))
			if acc := ac[0].(*ssa.Call); acc.Parent() != fn && acc.Parent().Parent() == nil && isNewFunc(acc.Parent()) {
				// the account is opened inside a new helper that hands the error back: the handler must fail on it
				h := acc.Parent()
				handsBack := true
				for _, b := range h.Blocks {
					if r, ok := b.Instrs[len(b.Instrs)-1].(*ssa.Return); ok && reachableFrom(acc, r) {
						res := r.Results[len(r.Results)-1]
						if cv, _ := callOf(res); cv != acc && !(okEdgeAt(b, acc) || definitelyNonNilErr(res, b, map[ssa.Value]bool{})) {
							handsBack = false
						}
					}
				}
				if hc, isHC := liftTo(fn, acc).(*ssa.Call); isHC && handsBack {
					errProp = true
					okOnly = okEdgeReturnOnly(fn, hc)
				}
			}
			c.Ob("R1", "CreateBid: failure to open the account fails the transaction", ac[0].Pos(), errProp && okOnly, "AccountCreate error is not propagated: a bid could exist without a deposit")
		}
	}
	// ---- R1.b bid closed/lost => account closed
	{
		fn := l.Func("x/market/keeper", "Keeper", "OnBidClosed")
		c.Analysed(fnName(fn))
		kinds := l.recordKinds()
		n := 0
		for _, sa := range l.stateAssignments(kinds) {
			if sa.rk.name != "Bid" || isConstruction(sa) || sa.vals == nil {
				continue
			}
			closes := sa.vals[sa.rk.byName["BidClosed"]]
			lost := sa.vals[sa.rk.byName["BidLost"]]
			if closes {
				n++
				ok := true
				nret := 0
				bidExpr := sa.recExpr
				closesIt := func(in ssa.Instruction) bool {
					call, isC := in.(ssa.CallInstruction)
					if !isC || !callIs(call, "AccountClose", "") {
						return false
					}
					a := userArgs(call)
					if in.Parent() == sa.fn {
						return Sym(a[0]) == "types.EscrowAccountForBid(types.Bid.ID("+bidExpr+"))"
					}
					// the close sits in another new helper: same record once the helpers are seen through
					if sa.param == nil {
						return false
					}
					e1, ok1 := a[0].(*ssa.Call)
					if !ok1 || calleeFull(e1) != akash+"/x/market/types.EscrowAccountForBid" || len(e1.Call.Args) != 1 {
						return false
					}
					e2, ok2 := e1.Call.Args[0].(*ssa.Call)
					if !ok2 || calleeMethod(e2) != "ID" || len(e2.Call.Args) != 1 {
						return false
					}
					return recordRoot(e2.Call.Args[0]) == recordRoot(sa.param)
				}
				if isNewFunc(sa.fn) {
					ok, nret = mustFollowDeep(sa.fn, sa.st, closesIt, 0)
				} else {
					for _, r := range successReturns(sa.fn) {
						if !reachableFrom(sa.st, r) {
							continue
						}
						nret++
						if !mustPassFrom(sa.fn, sa.st, r, closesIt) {
							ok = false
						}
					}
				}
				c.Ob("R1", "bid -> closed in "+fnName(sa.fn)+" closes that bid's escrow account", sa.st.Pos(), ok && nret > 0, "bid is marked closed but its deposit account is not closed on the same path (deposit never returned)")
			}
			if lost {
				// at every call site of the function, AccountClose of the same bid follows
				for _, call := range l.callSitesOf(sa.fn) {
					n++
					caller := call.Parent()
					arg := argFor(call, sa.fn, paramIndex(sa.fn, sa.param))
					want := "types.EscrowAccountForBid(types.Bid.ID(" + Sym(arg) + "))"
					ok := true
					nret := 0
					for _, r := range successReturns(caller) {
						if !reachableFrom(call, r) {
							continue
						}
						nret++
						if !mustPassFrom(caller, call, r, func(in ssa.Instruction) bool {
							c2, isC := in.(ssa.CallInstruction)
							return isC && callIs(c2, "AccountClose", "") && Sym(userArgs(c2)[0]) == want
						}) {
							ok = false
						}
					}
					c.Ob("R1", "bid -> lost at "+fnName(caller)+" is followed by closing that bid's escrow account", call.Pos(), ok && nret > 0, "losing bid's deposit account stays open")
				}
			}
		}
		if n < 2 {
			c.Fail("C05-R1.b lost instances")
		}
	}
	// ---- R1.c lease created only after its payment was opened
	{
		fn := l.msgServerMethod("x/market/handler", "CreateLease")
		c.Analysed(fnName(fn))
		var pc *ssa.Call
		for _, call := range callsIn(fn, false) {
			if callIs(call, "PaymentCreate", "EscrowKeeper") {
				pc = call.(*ssa.Call)
			}
		}
		c.Ob("R1", "CreateLease: payment stream opened", fn.Pos(), pc != nil, "")
		if pc != nil {
			a := userArgs(pc)
			c.Ob("R1", "CreateLease: payment opened on the deployment's account", pc.Pos(), Sym(a[0]) == "types.EscrowAccountForDeployment(types.BidID.DeploymentID(*p:msg.BidID))", short(Sym(a[0])))
			c.Ob("R1", "CreateLease: payment id is the lease's payment id", pc.Pos(), Sym(a[1]) == "types.EscrowPaymentForLease(types.BidID.LeaseID(*p:msg.BidID))", short(Sym(a[1])))
			c.Ob("R1", "CreateLease: payee is the bid's provider", pc.Pos(), Sym(a[2]) == "types.AccAddressFromBech32(*p:msg.BidID.Provider)#0", short(Sym(a[2])))
			for _, call := range callsIn(fn, false) {
				if callIs(call, "CreateLease", "IKeeper") {
					c.Ob("R1", "CreateLease: lease record only after PaymentCreate succeeded", call.Pos(), okEdgeAt(call.Block(), pc), "lease without payment stream")
					b := userArgs(call)[0]
					c.Ob("R1", "CreateLease: lease is created for the message's bid", call.Pos(), strings.HasSuffix(Sym(b), "GetBid(p:ms.keepers.Market, types.UnwrapSDKContext(p:goCtx), *p:msg.BidID)#0"), short(Sym(b)))
				}
			}
		}
	}
	// ---- R1.c' the group cascade closes the lease of every closed bid together with its payment stream
	c.groupCascade("R1")
	// ---- R1.d lease closed outside hooks => PaymentClose of that lease
	{
		olc := l.Func("x/market/keeper", "Keeper", "OnLeaseClosed")
		n := 0
		for _, call := range l.callSitesOf(olc) {
			caller := call.Parent()
			if strings.HasSuffix(fnPkgPath(caller), "x/market/hooks") {
				continue // reaction to a payment that is already closed
			}
			n++
			lease := argFor(call, olc, 2)
			ls := Sym(lease)
			ok := false
			for _, c2 := range callsIn(caller, false) {
				if !callIs(c2, "PaymentClose", "") {
					continue
				}
				a := userArgs(c2)
				acct, pid := Sym(a[0]), Sym(a[1])
				if pid == "types.EscrowPaymentForLease(types.Lease.ID("+ls+"))" && strings.HasPrefix(acct, "types.EscrowAccountForDeployment(") && (strings.Contains(acct, "types.Lease.ID("+ls+")") || strings.Contains(acct, "DeploymentID(p:id)") || strings.Contains(acct, "DeploymentID(*fv:id)") || strings.Contains(acct, "DeploymentID(fv:id)")) {
					// paired on paths: from the lease close every success return passes this PaymentClose
					all := true
					for _, r := range successReturns(caller) {
						if reachableFrom(call, r) && !mustPassFrom(caller, call, r, func(in ssa.Instruction) bool { return in == ssa.Instruction(c2) }) {
							all = false
						}
					}
					if all {
						ok = true
					}
				}
			}
			if !ok && isNewFunc(caller) && caller.Parent() == nil {
				// the close sits in a new helper: the payment may be closed by a sibling helper of the same handler, for
				// the same lease once the helpers are seen through
				same := func(in ssa.Instruction) bool {
					c2, isC := in.(ssa.CallInstruction)
					if !isC || !callIs(c2, "PaymentClose", "") {
						return false
					}
					a := userArgs(c2)
					e1, ok1 := a[1].(*ssa.Call)
					if !ok1 || !strings.HasSuffix(calleeFull(e1), "types.EscrowPaymentForLease") || len(e1.Call.Args) != 1 {
						return false
					}
					e2, ok2 := e1.Call.Args[0].(*ssa.Call)
					if !ok2 || calleeMethod(e2) != "ID" || len(e2.Call.Args) != 1 {
						return false
					}
					return recordRoot(e2.Call.Args[0]) == recordRoot(lease) && strings.HasPrefix(Sym(a[0]), "types.EscrowAccountForDeployment(")
				}
				if ok2, n2 := mustFollowDeep(caller, call, same, 0); ok2 && n2 > 0 {
					ok = true
				}
			}
			c.Ob("R1", "lease -> closed in "+fnName(caller)+" is paired with PaymentClose of that lease's payment", call.Pos(), ok, "lease is closed but its payment stream is not closed with ids derived from the same lease (tenant keeps paying)")
		}
		if n < 3 {
			c.Fail("C05-R1.d lost instances: %d", n)
		}
	}
	// ---- R1.e deployment closed only via the hook; CloseDeployment handler closes the account
	{
		cd := l.Func("x/deployment/keeper", "Keeper", "CloseDeployment")
		n := 0
		for _, call := range l.callSitesOf(cd) {
			n++
			caller := call.Parent()
			c.Ob("R1", "deployment -> closed called from "+fnName(caller), call.Pos(), fnName(caller) == "x/market/hooks.(hooks).OnEscrowAccountClosed", "deployment closed outside the escrow account-closed hook (its account would stay open)")
		}
		c.Ob("R1", "deployment close is wired to the escrow hook", cd.Pos(), n >= 1, "")
		kinds := l.recordKinds()
		for _, sa := range l.stateAssignments(kinds) {
			if sa.rk.name == "Deployment" && !isConstruction(sa) {
				c.Ob("R1", "Deployment.State assigned in "+fnName(sa.fn), sa.st.Pos(), sa.fn == cd, "deployment state changed outside the keeper's CloseDeployment")
			}
		}
		fn := l.msgServerMethod("x/deployment/handler", "CloseDeployment")
		c.Analysed(fnName(fn))
		for _, call := range c.requireOnPaths("R1", "MsgCloseDeployment: escrow account closed", fn, successReturns(fn), func(x ssa.CallInstruction) bool { return callIs(x, "AccountClose", "") }, "deployment close does not close the escrow account") {
			a := userArgs(call)
			c.Ob("R1", "MsgCloseDeployment: closes the account of the named deployment", call.Pos(), strings.HasPrefix(Sym(a[0]), "types.EscrowAccountForDeployment(types.Deployment.ID(keeper.IKeeper.GetDeployment(") && strings.Contains(Sym(a[0]), "*p:msg.ID)#0"), short(Sym(a[0])))
		}
		// hook maps the account back with the inverse and closes that deployment
		hk := l.Func("x/market/hooks", "hooks", "OnEscrowAccountClosed")
		for _, call := range callsIn(hk, false) {
			if callIs(call, "GetDeployment", "") {
				c.Ob("R1", "account-closed hook resolves the deployment through the inverse id mapping", call.Pos(), Sym(userArgs(call)[0]) == "types.DeploymentIDFromEscrowAccount(p:obj.ID)#0", Sym(userArgs(call)[0]))
			}
		}
		hp := l.Func("x/market/hooks", "hooks", "OnEscrowPaymentClosed")
		for _, call := range callsIn(hp, false) {
			if callIs(call, "GetLease", "") {
				c.Ob("R1", "payment-closed hook resolves the lease through the inverse id mapping", call.Pos(), Sym(userArgs(call)[0]) == "types.LeaseIDFromEscrowAccount(p:obj.AccountID, p:obj.PaymentID)#0", Sym(userArgs(call)[0]))
			}
		}
	}
	// ---- R1.f deployment created <=> account opened
	{
		fn := l.msgServerMethod("x/deployment/handler", "CreateDeployment")
		c.Analysed(fnName(fn))
		for _, call := range c.requireOnPaths("R1", "CreateDeployment: escrow account opened", fn, successReturns(fn), func(x ssa.CallInstruction) bool { return callIs(x, "AccountCreate", "") }, "deployment without escrow account") {
			a := userArgs(call)
			idFromMsg := strings.Contains(Sym(a[0]), "msg.ID")
			if !idFromMsg && strings.Contains(Sym(a[0]), "local:deployment") {
				eachInstr(fn, func(i ssa.Instruction) {
					if st, ok := i.(*ssa.Store); ok && Sym(st.Addr) == "&local:deployment.DeploymentID" && Sym(st.Val) == "*p:msg.ID" {
						idFromMsg = true
					}
				})
			}
			c.Ob("R1", "CreateDeployment: account id is the new deployment's escrow id", call.Pos(), strings.HasPrefix(Sym(a[0]), "types.EscrowAccountForDeployment(types.Deployment.ID(") && idFromMsg, short(Sym(a[0])))
			c.Ob("R1", "CreateDeployment: depositor is the deployment owner", call.Pos(), strings.HasPrefix(Sym(a[1]), "types.AccAddressFromBech32(") && strings.Contains(Sym(a[1]), ".Owner)#0"), short(Sym(a[1])))
			c.Ob("R1", "CreateDeployment: deposit is the message's deposit", call.Pos(), Sym(a[2]) == "*p:msg.Deposit", Sym(a[2]))
			if cc, isCall := call.(*ssa.Call); isCall && cc.Parent() == fn {
				c.Ob("R1", "CreateDeployment: failure to open the escrow account fails the transaction", call.Pos(), errHonoured(fn, cc), "a nil-error return is reachable after AccountCreate without its error having been looked at (or handed back): the deployment is committed active with open orders and no escrow account")
			}
		}
		wl := l.msgServerMethod("x/market/handler", "WithdrawLease")
		for _, call := range c.requireOnPaths("R1", "WithdrawLease: payment withdrawn", wl, successReturns(wl), func(x ssa.CallInstruction) bool { return callIs(x, "PaymentWithdraw", "") }, "") {
			a := userArgs(call)
			c.Ob("R1", "WithdrawLease: ids derive from the message's lease id", call.Pos(), Sym(a[0]) == "types.EscrowAccountForDeployment(types.LeaseID.DeploymentID(*p:msg.LeaseID))" && Sym(a[1]) == "types.EscrowPaymentForLease(*p:msg.LeaseID)", short(Sym(a[0]))+" / "+short(Sym(a[1])))
		}
	}
	// ---- R1.g hooks registered in the app
	{
		na, np := 0, 0
		for _, fn := range l.pkgFuncs("app") {
			for _, call := range callsIn(fn, false) {
				switch calleeMethod(call) {
				case "AddOnAccountClosedHook":
					if strings.Contains(Sym(call.Common().Args[0]), "OnEscrowAccountClosed") {
						na++
					}
				case "AddOnPaymentClosedHook":
					if strings.Contains(Sym(call.Common().Args[0]), "OnEscrowPaymentClosed") {
						np++
					}
				}
			}
		}
		c.Ob("R1", "app registers the market account-closed hook on the escrow keeper", l.Pkg("app").Types.Scope().Lookup("AkashApp").Pos(), na == 1, "hook registrations: "+itoa(na))
		c.Ob("R1", "app registers the market payment-closed hook on the escrow keeper", l.Pkg("app").Types.Scope().Lookup("AkashApp").Pos(), np == 1, "hook registrations: "+itoa(np))
	}
	c.Floor("R1", 30)

	// ---- R4 closing cascades reach every record (shared rules): the settle core hands all open payments to
	// AccountClose (C03-R2), and the account-closed hook closes the deployment on every path on which it is active
	// (C04-R2) — otherwise escrow says closed while the payment / deployment record says open
	c.settleHandsOnPayments("R4", l.settleCore())
	c.statePersistedRule("R4", l.pkgFuncs("x/escrow/keeper"))
	c.paymentCreateGuards("R4", l.settleCore(), mutatingFuncs(l, l.pkgFuncs("x/escrow/keeper")))
	{
		fn := l.Func("x/market/hooks", "hooks", "OnEscrowAccountClosed")
		c.Analysed(fnName(fn))
		dact, _ := constantInt2(l, "x/deployment/types", "DeploymentActive")
		active := func(f []Atom) bool { return hasStateFact(f, "eq", "GetDeployment(", dact) }
		c.requireWhen("R4", "account-closed hook: deployment -> closed", fn, active, func(x ssa.CallInstruction) bool { return callIs(x, "CloseDeployment", "", "types.Deployment") }, "deployment stays active although its escrow account is closed")
	}
	c.Floor("R4", 12)

	// ---- R2 id mapping shape
	c.idMapping()

	// ---- R3 dropped escrow errors (informational)
	for _, fn := range l.prodFuncs() {
		p := fnPkgPath(fn)
		if !strings.Contains(p, "/x/market") && !strings.Contains(p, "/x/deployment") {
			continue
		}
		for _, call := range callsIn(fn, false) {
			m := calleeMethod(call)
			if (m == "AccountClose" || m == "PaymentClose" || m == "PaymentWithdraw" || m == "AccountCreate" || m == "PaymentCreate" || m == "AccountDeposit") && strings.Contains(strings.ToLower(calleeFull(call)), "escrow") {
				if v := call.Value(); v != nil && (v.Referrers() == nil || len(*v.Referrers()) == 0) {
					c.Info("R3", "escrow error dropped: "+m+" in "+fnName(fn), call.Pos(), "error result of escrow "+m+" is discarded (not a violation by itself: on consistent state it cannot fail)")
				}
			}
		}
	}
}

// okEdgeReturnOnly: every success return of fn reachable from call is on the ok-edge of call.
func okEdgeReturnOnly(fn *ssa.Function, call *ssa.Call) bool {
	for _, r := range successReturns(fn) {
		if reachableFrom(call, r) && !okEdgeAt(r.Block(), call) {
			return false
		}
	}
	return true
}

func (c *Check) idMapping() {
	l := c.L
	// deployment scope
	f := l.Func("x/deployment/types", "", "EscrowAccountForDeployment")
	g := l.Func("x/deployment/types", "", "DeploymentIDFromEscrowAccount")
	scope := l.constVal("x/deployment/types", "EscrowScope").ExactString()
	rs := ""
	for _, r := range successReturns(f) {
		rs = Sym(r.Results[0])
	}
	c.Ob("R2", "deployment account id = (scope constant, DeploymentID.String())", f.Pos(), strings.Contains(rs, "Scope: "+scope) && strings.Contains(rs, "XID: types.DeploymentID.String(p:id)"), rs)
	okScope := false
	okParse := false
	eachInstr(g, func(i ssa.Instruction) {
		if b, ok := i.(*ssa.BinOp); ok && strings.HasSuffix(Sym(b.X), "id.Scope") && Sym(b.Y) == scope {
			okScope = true
		}
		if call, ok := i.(*ssa.Call); ok && calleeMethod(call) == "ParseDeploymentID" && strings.HasSuffix(Sym(call.Call.Args[0]), "id.XID") {
			okParse = true
		}
	})
	c.Ob("R2", "deployment inverse checks the same scope constant and parses XID", g.Pos(), okScope && okParse, "inverse mapping does not mirror the forward mapping")
	// DeploymentID.String vs ParseDeploymentPath
	st := l.Func("x/deployment/types", "DeploymentID", "String")
	ss := ""
	for _, r := range successReturns(st) {
		ss = Sym(r.Results[0])
	}
	if tpl, okT := canonString(st, 0); okT {
		c.Ob("R2", "DeploymentID.String() = owner/dseq", st.Pos(), tpl == "<Owner>/<DSeq>", "rendered as "+tpl)
	} else {
		c.Info("R2", "DeploymentID.String(): form not recognised, owner/dseq not decided", st.Pos(), ss)
	}
	pp := l.Func("x/deployment/types", "", "ParseDeploymentPath")
	ps := ""
	for _, r := range successReturns(pp) {
		ps = Sym(r.Results[0])
	}
	c.Ob("R2", "ParseDeploymentPath reads owner from part 0 and dseq from part 1", pp.Pos(),
		strings.Contains(ps, "Owner: types.AccAddress.String(types.AccAddressFromBech32(*p:parts[0])#0)") && strings.Contains(ps, "DSeq: strconv.ParseUint(*p:parts[1], 10, 64)#0"), ps)
	// bid scope
	fb := l.Func("x/market/types", "", "EscrowAccountForBid")
	bs := ""
	for _, r := range successReturns(fb) {
		bs = Sym(r.Results[0])
	}
	bscope := l.constValAny("x/market/types", "bidEscrowScope")
	c.Ob("R2", "bid account id = (bid scope constant, BidID.String())", fb.Pos(), strings.Contains(bs, "Scope: "+bscope) && strings.Contains(bs, "XID: types.BidID.String(p:id)") && bscope != scope, bs)
	// payment id vs inverse
	fp := l.Func("x/market/types", "", "EscrowPaymentForLease")
	fs := ""
	for _, r := range successReturns(fp) {
		fs = Sym(r.Results[0])
	}
	c.Ob("R2", "lease payment id = gseq/oseq/provider", fp.Pos(), strings.HasPrefix(fs, "fmt.Sprintf(\"%v/%v/%s\", [p:id.GSeq, p:id.OSeq, p:id.Provider])"), fs)
	inv := l.Func("x/market/types", "", "LeaseIDFromEscrowAccount")
	is := ""
	for _, r := range successReturns(inv) {
		is = Sym(r.Results[0])
	}
	split := "strings.Split(p:pid, \"/\")"
	want := "types.MakeLeaseID(types.MakeBidID(types.MakeOrderID(types.MakeGroupID(types.DeploymentIDFromEscrowAccount(p:id)#0, conv:uint32(strconv.ParseUint(" + split + "[0], 10, 32)#0)), conv:uint32(strconv.ParseUint(" + split + "[1], 10, 32)#0)), types.AccAddressFromBech32(" + split + "[2])#0))"
	c.Ob("R2", "lease inverse reads gseq, oseq, provider from parts 0,1,2 on the deployment of the account", inv.Pos(), strings.ReplaceAll(is, "*", "") == want, is)

	c.parseWidthRule("R2")
}

func intWidth(t types.Type) int64 {
	b, ok := t.Underlying().(*types.Basic)
	if !ok {
		return 0
	}
	switch b.Kind() {
	case types.Uint64, types.Int64, types.Uint, types.Int:
		return 64
	case types.Uint32, types.Int32:
		return 32
	case types.Uint16, types.Int16:
		return 16
	case types.Uint8, types.Int8:
		return 8
	}
	return 0
}

func (l *Loaded) constValAny(rel, name string) string {
	return l.constVal(rel, name).ExactString()
}

// parseWidthRule: every strconv.ParseUint/ParseInt in the chain modules and sdkutil accepts the whole range of the id /
// sequence field its result is converted into (bit size, and signedness: a signed parse into an unsigned field loses
// the upper half). Shared: C05-R2 (escrow-id inverse mappings), C16-R1 (event attribute decoders).
func (c *Check) parseWidthRule(rule string) {
	l := c.L
	// integer parse widths
	n := 0
	for _, fn := range l.prodFuncs() {
		p := relPkg(fnPkgPath(fn))
		if !(strings.HasPrefix(p, "x/") || p == "sdkutil") || strings.Contains(p, "/client") {
			continue
		}
		for _, call := range callsIn(fn, false) {
			full := calleeFull(call)
			if full != "strconv.ParseUint" && full != "strconv.ParseInt" {
				continue
			}
			bits, ok := constInt(call.Common().Args[2])
			if !ok {
				continue
			}
			if bits == 0 {
				bits = 64
			}
			n++
			// destination widths
			minDest := int64(0)
			destUnsigned := false
			cv := call.Value()
			var walk func(v ssa.Value)
			walk = func(v ssa.Value) {
				if v.Referrers() == nil {
					return
				}
				for _, r := range *v.Referrers() {
					switch x := r.(type) {
					case *ssa.Extract:
						if x.Index == 0 {
							walk(x)
						}
					case *ssa.Convert:
						if w := intWidth(x.Type()); w > minDest {
							minDest = w
						}
						if bt, isB := x.Type().Underlying().(*types.Basic); isB && bt.Info()&types.IsUnsigned != 0 {
							destUnsigned = true
						}
					case *ssa.Store, *ssa.Return, *ssa.Call, *ssa.Phi, *ssa.MakeInterface:
						if _, isT := v.Type().(*types.Tuple); !isT {
							if w := intWidth(v.Type()); w > minDest {
								minDest = w
							}
						}
					}
				}
			}
			walk(cv)
			if full == "strconv.ParseInt" && destUnsigned {
				bits-- // a signed parse fills an unsigned field: the upper half of its range is rejected
			}
			c.Ob(rule, "integer parse width in "+fnName(fn)+" ("+Sym(call.Common().Args[0])+") covers the field it fills", call.Pos(), minDest == 0 || bits >= minDest, "parses "+itoa(int(bits))+" bits into a "+itoa(int(minDest))+"-bit id field: larger ids are rejected by the inverse mapping (hooks then silently skip)")
		}
	}
	if n < 3 {
		c.Fail("%s-%s parse width lost instances", c.ID, rule)
	}
}

// errHonoured: every return of fn that may report success and is reachable from call either lies on the call's
// ok-edge or hands the call's own error back on the ways that come from the call.
func errHonoured(fn *ssa.Function, call *ssa.Call) bool {
	ei := errResultIndex(fn)
	if ei < 0 {
		return false
	}
	for _, r := range successReturns(fn) {
		if !reachableFrom(call, r) || okEdgeAt(r.Block(), call) {
			continue
		}
		res := r.Results[ei]
		if cv, _ := callOf(res); cv == call {
			continue
		}
		ph, isPhi := res.(*ssa.Phi)
		if !isPhi || ph.Block() != r.Block() {
			return false
		}
		for k, e := range ph.Edges {
			p := r.Block().Preds[k]
			if p != call.Block() && !blockReachesAvoiding(call.Block(), p, nil) {
				continue // this way into the return does not come from the call
			}
			if cv, _ := callOf(e); cv == call {
				// the call's own error, provided the call is the last thing that produced it on this edge: the edge's
				// value being the call itself says so
				continue
			}
			if okEdgeAt(p, call) || definitelyNonNilErr(e, p, map[ssa.Value]bool{}) {
				continue
			}
			return false
		}
	}
	return true
}
