package main

import (
	"go/token"
	"go/types"
	"sort"
	"strings"

	"golang.org/x/tools/go/ssa"
)

// Effect (mod / alias) summaries: which parameters' reachable memory may a function write, and from which
// parameters may pointers in its results derive. Flow-sensitive for fields of local struct variables
// (reaching stores), flow-insensitive otherwise. Functions without bodies are assumed pure.

type modSum struct {
	mut   map[int]string // param index -> reason
	alias map[int]bool   // param index -> result may contain pointers derived from it
}

type modCtx struct {
	l    *Loaded
	memo map[*ssa.Function]*modSum
	busy map[*ssa.Function]bool
}

func newModCtx(l *Loaded) *modCtx {
	return &modCtx{l: l, memo: map[*ssa.Function]*modSum{}, busy: map[*ssa.Function]bool{}}
}

// hasPointers: values of type t can carry references to shared memory.
func hasPointers(t types.Type, depth int) bool {
	if depth > 6 {
		return true
	}
	if tu, ok := t.(*types.Tuple); ok {
		for i := 0; i < tu.Len(); i++ {
			if hasPointers(tu.At(i).Type(), depth+1) {
				return true
			}
		}
		return false
	}
	switch u := t.Underlying().(type) {
	case *types.Pointer, *types.Slice, *types.Map, *types.Chan, *types.Interface, *types.Signature:
		return true
	case *types.Struct:
		for i := 0; i < u.NumFields(); i++ {
			if hasPointers(u.Field(i).Type(), depth+1) {
				return true
			}
		}
	case *types.Array:
		return hasPointers(u.Elem(), depth+1)
	case *types.Tuple:
		for i := 0; i < u.Len(); i++ {
			if hasPointers(u.At(i).Type(), depth+1) {
				return true
			}
		}
	}
	return false
}

type locKey struct {
	a    *ssa.Alloc
	path string
}

// addrLoc: if addr is a field path of a local alloc, return it.
func addrLoc(addr ssa.Value) (locKey, bool) {
	path := ""
	for {
		switch x := addr.(type) {
		case *ssa.FieldAddr:
			path = "." + fieldName(x.X.Type(), x.Field) + path
			addr = x.X
		case *ssa.Alloc:
			return locKey{x, path}, true
		default:
			return locKey{}, false
		}
	}
}

type originer struct {
	mc   *modCtx
	fn   *ssa.Function
	memo map[ssa.Value]map[int]bool
	work map[ssa.Value]bool
}

func union(a, b map[int]bool) map[int]bool {
	out := map[int]bool{}
	for k := range a {
		out[k] = true
	}
	for k := range b {
		out[k] = true
	}
	return out
}

// origin: the set of parameter indices whose reachable memory pointer-ish value v may refer to.
func (o *originer) origin(v ssa.Value, at ssa.Instruction) map[int]bool {
	if v == nil || !hasPointers(v.Type(), 0) {
		return nil
	}
	if m, ok := o.memo[v]; ok {
		return m
	}
	if o.work[v] {
		return nil
	}
	o.work[v] = true
	defer delete(o.work, v)
	var out map[int]bool
	switch x := v.(type) {
	case *ssa.Parameter:
		for i, p := range o.fn.Params {
			if p == x {
				out = map[int]bool{i: true}
			}
		}
	case *ssa.FreeVar:
		out = map[int]bool{-1: true} // captured: treat as external shared state
	case *ssa.Global:
		out = map[int]bool{-1: true}
	case *ssa.Alloc:
		out = nil // address of a local: fresh
	case *ssa.FieldAddr:
		out = o.origin(x.X, at)
	case *ssa.IndexAddr:
		out = o.origin(x.X, at)
	case *ssa.Field:
		out = o.origin(x.X, at)
	case *ssa.Index:
		out = o.origin(x.X, at)
	case *ssa.Slice:
		out = o.origin(x.X, at)
	case *ssa.ChangeType:
		out = o.origin(x.X, at)
	case *ssa.ChangeInterface:
		out = o.origin(x.X, at)
	case *ssa.MakeInterface:
		out = o.origin(x.X, at)
	case *ssa.Convert:
		out = o.origin(x.X, at)
	case *ssa.TypeAssert:
		out = o.origin(x.X, at)
	case *ssa.Extract:
		out = o.origin(x.Tuple, at)
	case *ssa.Phi:
		for _, e := range x.Edges {
			out = union(out, o.origin(e, at))
		}
	case *ssa.Lookup:
		out = o.origin(x.X, at)
	case *ssa.Next:
		out = o.origin(x.Iter, at)
	case *ssa.Range:
		out = o.origin(x.X, at)
	case *ssa.MakeSlice, *ssa.MakeMap, *ssa.MakeChan, *ssa.Const, *ssa.MakeClosure, *ssa.Function:
		out = nil
	case *ssa.UnOp:
		if x.Op != token.MUL {
			out = o.origin(x.X, at)
			break
		}
		// load
		if loc, ok := addrLoc(x.X); ok {
			out = o.loadLocal(loc, x)
		} else {
			out = o.origin(x.X, at) // content of memory reachable from a parameter belongs to that parameter
		}
	case *ssa.Call:
		out = o.callResultOrigin(x)
	default:
		out = nil
	}
	o.memo[v] = out
	return out
}

// loadLocal: origins of the value loaded from a local variable location, by reaching stores.
func (o *originer) loadLocal(loc locKey, load ssa.Instruction) map[int]bool {
	var out map[int]bool
	type def struct {
		st   *ssa.Store
		rel  string // "" exact, "whole" (store to an enclosing location), "part" (store to a sub-location)
		sub  string
		from locKey
	}
	var defs []def
	for _, b := range o.fn.Blocks {
		for _, in := range b.Instrs {
			st, ok := in.(*ssa.Store)
			if !ok {
				continue
			}
			l2, ok := addrLoc(st.Addr)
			if !ok || l2.a != loc.a {
				continue
			}
			switch {
			case l2.path == loc.path:
				defs = append(defs, def{st: st})
			case strings.HasPrefix(loc.path, l2.path+".") || l2.path == "":
				defs = append(defs, def{st: st, rel: "whole", sub: strings.TrimPrefix(loc.path, l2.path)})
			case strings.HasPrefix(l2.path, loc.path+"."):
				defs = append(defs, def{st: st, rel: "part"})
			}
		}
	}
	isKill := func(except *ssa.Store) func(ssa.Instruction) bool {
		return func(in ssa.Instruction) bool {
			for _, d := range defs {
				if d.rel != "part" && ssa.Instruction(d.st) == in && d.st != except {
					return true
				}
			}
			return false
		}
	}
	for _, d := range defs {
		if !reachableFrom(d.st, load) {
			continue
		}
		if d.rel != "part" && mustPassFrom(o.fn, d.st, load, isKill(d.st)) {
			continue // always overwritten before the load
		}
		out = union(out, o.origin(d.st.Val, d.st))
	}
	return out
}

func (o *originer) callResultOrigin(call *ssa.Call) map[int]bool {
	g := call.Call.StaticCallee()
	args := allArgs(call)
	var out map[int]bool
	if g != nil && g.Blocks != nil && isAkashFn(g) {
		s := o.mc.summary(g)
		for j := range s.alias {
			if j >= 0 && j < len(args) {
				out = union(out, o.origin(args[j], call))
			}
		}
		return out
	}
	// builtins and externals
	full := calleeFull(call)
	switch full {
	case "builtin.append":
		for _, a := range args {
			out = union(out, o.origin(a, call))
		}
		return out
	case "builtin.len", "builtin.cap", "builtin.copy", "builtin.delete":
		return nil
	}
	if call.Call.IsInvoke() {
		// interface method on a parameter-derived receiver: result may alias the receiver's memory
		return o.origin(call.Call.Value, call)
	}
	// external function: results of value-semantic libraries (sdk.Int, strings, fmt) are fresh
	return nil
}

func (mc *modCtx) summary(fn *ssa.Function) *modSum {
	if s, ok := mc.memo[fn]; ok {
		return s
	}
	s := &modSum{mut: map[int]string{}, alias: map[int]bool{}}
	if mc.busy[fn] || fn.Blocks == nil {
		return s
	}
	mc.busy[fn] = true
	defer delete(mc.busy, fn)
	o := &originer{mc: mc, fn: fn, memo: map[ssa.Value]map[int]bool{}, work: map[ssa.Value]bool{}}
	eachInstr(fn, func(in ssa.Instruction) {
		switch x := in.(type) {
		case *ssa.Store:
			if _, local := addrLoc(x.Addr); local {
				return
			}
			for i := range o.origin(x.Addr, x) {
				if _, ok := s.mut[i]; !ok {
					s.mut[i] = "store through " + short(Sym(x.Addr)) + " at " + mc.l.Pos(x.Pos())
				}
			}
		case *ssa.MapUpdate:
			for i := range o.origin(x.Map, x) {
				if _, ok := s.mut[i]; !ok {
					s.mut[i] = "map update at " + mc.l.Pos(x.Pos())
				}
			}
		case ssa.CallInstruction:
			args := allArgs(x)
			full := calleeFull(x)
			if full == "builtin.copy" || full == "builtin.delete" {
				for i := range o.origin(args[0], x) {
					if _, ok := s.mut[i]; !ok {
						s.mut[i] = full + " into parameter memory at " + mc.l.Pos(x.Pos())
					}
				}
				return
			}
			var callees []*ssa.Function
			if g := x.Common().StaticCallee(); g != nil {
				callees = []*ssa.Function{g}
			} else if x.Common().IsInvoke() {
				callees = mc.l.prodCalleesOf(x)
			}
			for _, g := range callees {
				if g.Blocks == nil || !isAkashFn(g) {
					continue
				}
				gs := mc.summary(g)
				var js []int
				for j := range gs.mut {
					js = append(js, j)
				}
				sort.Ints(js)
				for _, j := range js {
					if j < 0 || j >= len(args) {
						continue
					}
					for i := range o.origin(args[j], x) {
						if _, ok := s.mut[i]; !ok {
							s.mut[i] = "call of " + fnName(g) + " at " + mc.l.Pos(x.Pos()) + " (" + gs.mut[j] + ")"
						}
					}
				}
			}
		case *ssa.Return:
			for _, r := range x.Results {
				for i := range o.origin(r, x) {
					s.alias[i] = true
				}
			}
		}
	})
	mc.memo[fn] = s
	return s
}
