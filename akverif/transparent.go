package main

import (
	"go/token"
	"os"
	"regexp"
	"strings"

	"golang.org/x/tools/go/ssa"
)

// Transparent helpers.
//
// A production function that does not exist on the pinned tree (its name is not in pinned_names.json) and has
// exactly one static call site is analysed as if its body stood at that call site: extracting a block of a
// handler into a helper is an ordinary maintenance edit that changes no behaviour, and the rules, which are
// written against the functions of the pinned tree, must neither lose sight of the moved code nor alarm on it.
//   - Sym renders a parameter of such a helper as the argument at its call site, and a call to it as the value(s)
//     it returns;
//   - factsAt for a block inside the helper includes the facts that hold at the call site;
//   - callsIn(fn) includes the calls made inside helpers called from fn;
//   - must-pass queries treat a call to the helper as passing the predicate when every success return of the
//     helper passes it.
// Functions of the pinned tree are never treated this way, so results on the pinned tree are unaffected.

var curL *Loaded

var transpMemo map[*ssa.Function]ssa.CallInstruction

func isNewFunc(fn *ssa.Function) bool {
	if fn == nil || fn.Blocks == nil || fn.Synthetic != "" || len(pinnedNames) == 0 || os.Getenv("AKVERIF_RAWNAMES") != "" {
		return false
	}
	if !strings.HasPrefix(fnPkgPath(fn), akash) || nonProdPkg(fnPkgPath(fn)) {
		return false
	}
	root := fn
	for root.Parent() != nil {
		root = root.Parent()
	}
	_, known := pinnedNames[fnName(root)]
	return !known
}

// transparentSite: the unique production call site of a new top-level function, or nil.
func transparentSite(fn *ssa.Function) ssa.CallInstruction {
	if curL == nil || fn == nil || fn.Parent() != nil || !isNewFunc(fn) {
		return nil
	}
	if transpMemo == nil {
		transpMemo = map[*ssa.Function]ssa.CallInstruction{}
		count := map[*ssa.Function]int{}
		for _, f := range curL.prodFuncs() {
			eachInstr(f, func(i ssa.Instruction) {
				// a function value taken anywhere (stored, passed) disqualifies the helper
				if ci, ok := i.(ssa.CallInstruction); ok {
					if g := ci.Common().StaticCallee(); g != nil && g.Parent() == nil && isNewFunc(g) {
						count[g]++
						transpMemo[g] = ci
					}
				}
			})
		}
		for g, n := range count {
			if n != 1 || transpMemo[g].Parent() == g {
				delete(transpMemo, g)
			}
		}
		// only plain calls (not go/defer) are transparent
		for g, ci := range transpMemo {
			if _, isCall := ci.(*ssa.Call); !isCall {
				delete(transpMemo, g)
			}
		}
	}
	return transpMemo[fn]
}

// transparentCallee: the helper a call instruction transparently expands to, or nil.
func transparentCallee(ci ssa.CallInstruction) *ssa.Function {
	g := ci.Common().StaticCallee()
	if g == nil || transparentSite(g) != ci {
		return nil
	}
	return g
}

// newHelperCallee: the new (not on the pinned tree) top-level function a plain call statically invokes, or nil.
// Unlike transparentCallee it does not require the call site to be unique: must-pass summaries and call
// enumeration do not need a unique binding of parameters.
func newHelperCallee(ci ssa.CallInstruction) *ssa.Function {
	if _, isCall := ci.(*ssa.Call); !isCall {
		return nil
	}
	g := ci.Common().StaticCallee()
	if g == nil || g.Parent() != nil || !isNewFunc(g) || g == ci.Parent() {
		return nil
	}
	return g
}

// helpersOf: new top-level functions statically called (transitively) from fn, its closures and those helpers.
func helpersOf(fn *ssa.Function) []*ssa.Function {
	var out []*ssa.Function
	seen := map[*ssa.Function]bool{fn: true}
	work := fnAndClosures(fn)
	for len(work) > 0 {
		g := work[0]
		work = work[1:]
		eachInstr(g, func(i ssa.Instruction) {
			if ci, ok := i.(ssa.CallInstruction); ok {
				if h := newHelperCallee(ci); h != nil && !seen[h] {
					seen[h] = true
					out = append(out, h)
					work = append(work, fnAndClosures(h)...)
				}
			}
		})
	}
	return out
}

// fnAndClosuresDeep: fn, its closures, and the new helpers it calls with their closures.
func fnAndClosuresDeep(fn *ssa.Function) []*ssa.Function {
	out := fnAndClosures(fn)
	for _, h := range helpersOf(fn) {
		out = append(out, fnAndClosures(h)...)
	}
	return out
}

// helperReturns: the values returned at result index k by the returns of g. For a non-error result of a helper
// that also returns an error, only the returns that may carry a nil error count (the value handed back together
// with an error is by convention not used).
func helperReturns(g *ssa.Function, k int) []ssa.Value {
	var out []ssa.Value
	ei := errResultIndex(g)
	for _, b := range g.Blocks {
		if len(b.Instrs) == 0 {
			continue
		}
		if r, ok := b.Instrs[len(b.Instrs)-1].(*ssa.Return); ok && k < len(r.Results) {
			if ei >= 0 && k != ei && definitelyNonNilErr(r.Results[ei], b, map[ssa.Value]bool{}) {
				continue
			}
			out = append(out, r.Results[k])
		}
	}
	return out
}

// helperSuccessFacts: if atom a says "the error result of a call to a transparent helper is nil", the facts that
// hold at every nil-error return of that helper.
func helperSuccessFacts(a Atom, depth int) []Atom {
	if a.Op != "eq" || depth > 3 {
		return nil
	}
	x, y := a.X, a.Y
	if isNilConst(x) {
		x, y = y, x
	}
	if y == nil || !isNilConst(y) {
		return nil
	}
	call, k := callOf(x)
	if call == nil {
		return nil
	}
	g := newHelperCallee(call)
	if g == nil {
		return nil
	}
	ei := errResultIndex(g)
	if ei < 0 || !(k == ei || (k == -1 && g.Signature.Results().Len() == 1)) {
		return nil
	}
	rets := successReturns(g)
	if len(rets) == 0 {
		return nil
	}
	// intersection by (op, Sym X, Sym Y)
	key := func(f Atom) string {
		ys := ""
		if f.Y != nil {
			ys = Sym(f.Y)
		}
		return f.Op + "|" + Sym(f.X) + "|" + ys
	}
	var common []Atom
	for i, r := range rets {
		fs := factsAtDepth(r.Block(), depth+1)
		// the error this return hands back is nil on the success edge: `return f(..)` makes f's error nil too
		if ei < len(r.Results) && !isNilConst(r.Results[ei]) {
			at := Atom{Op: "eq", X: r.Results[ei], Y: ssa.NewConst(nil, r.Results[ei].Type())}
			fs = append(append([]Atom{}, fs...), at)
			fs = append(fs, helperSuccessFacts(at, depth+1)...)
		}
		if i == 0 {
			common = fs
			continue
		}
		have := map[string]bool{}
		for _, f := range fs {
			have[key(f)] = true
		}
		var keep []Atom
		for _, f := range common {
			if have[key(f)] {
				keep = append(keep, f)
			}
		}
		common = keep
	}
	return common
}

// transparentPass: ci is a call to a transparent helper whose every success return passes pred.
func transparentPass(in ssa.Instruction, pred func(ssa.Instruction) bool, depth int) bool {
	ci, ok := in.(ssa.CallInstruction)
	if !ok || depth > 4 {
		return false
	}
	g := newHelperCallee(ci)
	if g == nil {
		return false
	}
	rets := successReturns(g)
	if len(rets) == 0 {
		return false
	}
	deep := func(x ssa.Instruction) bool { return pred(x) || transparentPass(x, pred, depth+1) }
	for _, r := range rets {
		if !mustPassFrom(g, nil, r, deep) {
			return false
		}
	}
	return true
}

// eachInstrDeep: the instructions of fn and of the new helpers it (transitively) calls.
func eachInstrDeep(fn *ssa.Function, f func(ssa.Instruction)) {
	eachInstr(fn, f)
	for _, h := range helpersOf(fn) {
		eachInstr(h, f)
	}
}

// liftTo: the instruction of root that stands for instr — instr itself when it is in root (or a closure of it),
// else the call site (in root) of the chain of transparent helpers that contains instr; nil if there is none.
func liftTo(root *ssa.Function, instr ssa.Instruction) ssa.Instruction {
	for d := 0; d < 6 && instr != nil; d++ {
		f := instr.Parent()
		if f == root {
			return instr
		}
		top := f
		for top.Parent() != nil {
			top = top.Parent()
		}
		if top == root {
			return nil // inside a closure of root: no position in root's own CFG
		}
		if top != f {
			return nil
		}
		// the helper's call in root itself (a helper with several callers has one call per caller), else its unique
		// call site anywhere
		var inRoot []ssa.Instruction
		eachInstr(root, func(i ssa.Instruction) {
			if ci, ok := i.(ssa.CallInstruction); ok && newHelperCallee(ci) == top {
				inRoot = append(inRoot, i)
			}
		})
		if len(inRoot) == 1 {
			return inRoot[0]
		}
		site := transparentSite(top)
		if site == nil {
			return nil
		}
		instr = site
	}
	return nil
}

// domLift: block blk of root dominates (the lifted position of) instr.
func domLift(root *ssa.Function, blk *ssa.BasicBlock, instr ssa.Instruction) bool {
	li := liftTo(root, instr)
	if li == nil || blk == nil {
		return false
	}
	return blk == li.Block() || blk.Dominates(li.Block())
}

// inCodeOf: fn is root, or a new helper reached (only) from root's code.
func inCodeOf(root, fn *ssa.Function) bool {
	if fn == root {
		return true
	}
	for _, h := range helpersOf(root) {
		if h == fn {
			return true
		}
	}
	return false
}

// helperBoolFacts: if atom a says that a call to a new helper returning one bool yielded true (resp. false), the
// facts common to every return of the helper that can yield that value ("if !m.ready() { return }" guards).
func helperBoolFacts(a Atom, depth int) []Atom {
	if (a.Op != "true" && a.Op != "false") || depth > 3 {
		return nil
	}
	call, isC := a.X.(*ssa.Call)
	idx := 0
	if ex, isEx := a.X.(*ssa.Extract); isEx && !isC {
		// one boolean among several results of a new helper
		call, isC = ex.Tuple.(*ssa.Call)
		idx = ex.Index
	}
	if !isC {
		return nil
	}
	g := newHelperCallee(call)
	if g == nil {
		return nil
	}
	res := g.Signature.Results()
	if idx >= res.Len() || res.At(idx).Type().String() != "bool" || (res.Len() != 1 && a.X == ssa.Value(call)) {
		return nil
	}
	want := a.Op == "true"
	key := func(f Atom) string {
		ys := ""
		if f.Y != nil {
			ys = Sym(f.Y)
		}
		return f.Op + "|" + Sym(f.X) + "|" + ys
	}
	var common []Atom
	first := true
	for _, b := range g.Blocks {
		r, isR := b.Instrs[len(b.Instrs)-1].(*ssa.Return)
		if !isR {
			continue
		}
		if ei := errResultIndex(g); ei >= 0 && ei < len(r.Results) && ei != idx && definitelyNonNilErr(r.Results[ei], b, map[ssa.Value]bool{}) {
			continue // a failing return: the caller does not look at the boolean
		}
		for _, lf := range retLeaves(r.Results[idx], b, map[ssa.Value]bool{}) {
			var fs []Atom
			if k, isK := lf.val.(*ssa.Const); isK && k.Value != nil {
				if (k.Value.ExactString() == "true") != want {
					continue
				}
				fs = factsAtDepth(lf.blk, depth+1)
			} else {
				fs = append(factsAtDepth(lf.blk, depth+1), condAtom(lf.val, want))
			}
			// the edge out of the leaf block towards the phi (if conditional) also holds
			if first {
				common = fs
				first = false
				continue
			}
			have := map[string]bool{}
			for _, f := range fs {
				have[key(f)] = true
			}
			var keep []Atom
			for _, f := range common {
				if have[key(f)] {
					keep = append(keep, f)
				}
			}
			common = keep
		}
	}
	return common
}

// cancelBeforeDrain: in a loop function that owns a context (ctx, cancel := context.WithCancel/WithTimeout(...)),
// every bare receive (result unused, outside any select) that drains a worker channel after the loop is dominated by
// a direct call of that cancel function. A worker that only returns when its context ends is otherwise waited for
// forever (a deferred cancel runs after the drain). Shared by the provider loop checks (C12, C13, C14, C20).
func (c *Check) cancelBeforeDrain(rule string, fn *ssa.Function) {
	var cancels []ssa.Value
	eachInstr(fn, func(i ssa.Instruction) {
		if ex, ok := i.(*ssa.Extract); ok && ex.Index == 1 {
			if cv, isC := ex.Tuple.(*ssa.Call); isC {
				if full := calleeFull(cv); full == "context.WithCancel" || full == "context.WithTimeout" || full == "context.WithDeadline" {
					cancels = append(cancels, ex)
				}
			}
		}
	})
	if len(cancels) == 0 {
		c.Info(rule, fnName(fn)+" owns no cancellable context", fn.Pos(), "")
		return
	}
	isCancel := func(v ssa.Value) bool {
		for _, cv := range cancels {
			if v == cv {
				return true
			}
		}
		// the cancel function kept in a local (possibly assigned on several branches)
		if ld, ok := v.(*ssa.UnOp); ok {
			if a, isA := ld.X.(*ssa.Alloc); isA && a.Referrers() != nil {
				for _, r := range *a.Referrers() {
					if st, isSt := r.(*ssa.Store); isSt && st.Addr == ssa.Value(a) {
						for _, cv := range cancels {
							if st.Val == cv {
								return true
							}
						}
					}
				}
			}
		}
		if ph, ok := v.(*ssa.Phi); ok {
			for _, e := range ph.Edges {
				for _, cv := range cancels {
					if e == cv {
						return true
					}
				}
			}
		}
		return false
	}
	var direct []ssa.Instruction
	eachInstr(fn, func(i ssa.Instruction) {
		if cv, ok := i.(*ssa.Call); ok && cv.Call.StaticCallee() == nil && !cv.Call.IsInvoke() && isCancel(cv.Call.Value) {
			direct = append(direct, cv)
		}
	})
	n := 0
	eachInstr(fn, func(i ssa.Instruction) {
		u, ok := i.(*ssa.UnOp)
		if !ok || u.Op != token.ARROW || (u.Referrers() != nil && len(*u.Referrers()) > 0) {
			return
		}
		n++
		dom := false
		for _, d := range direct {
			if instrDominates(d, u) {
				dom = true
			}
		}
		c.Ob(rule, fnName(fn)+": bare drain #"+itoa(n)+" comes after the context was cancelled", u.Pos(), dom, "a worker is waited for while its context is still live (cancel is not called, or only deferred): if the worker returns only on cancellation the function never finishes")
	})
	if n == 0 {
		c.Info(rule, fnName(fn)+" has no bare drains", fn.Pos(), "")
	}
}

// mustFollowDeep: every path from instruction `from` of fn to a success return of fn passes pred; where fn is a new
// helper and one of its success returns is reached without pred, the obligation moves to the helper's caller: it
// must hold from the call site on (the rest of the old function's body now lives there, possibly in a sibling
// helper, which mustPassFrom looks into). n counts the success returns that were reachable.
func mustFollowDeep(fn *ssa.Function, from ssa.Instruction, pred func(ssa.Instruction) bool, depth int) (ok bool, n int) {
	ok = true
	for _, r := range successReturns(fn) {
		if from != nil && !reachableFrom(from, r) {
			continue
		}
		n++
		if mustPassFrom(fn, from, r, pred) {
			continue
		}
		if depth < 4 && isNewFunc(fn) && fn.Parent() == nil {
			if site := transparentSite(fn); site != nil {
				if ok2, n2 := mustFollowDeep(site.Parent(), site, pred, depth+1); ok2 && n2 > 0 {
					continue
				}
			}
		}
		ok = false
	}
	return ok, n
}

// symsThroughHelper: the symbolic forms of v; when v is (a component of) the result of a call to a new helper, the
// forms of the values the helper returns there, with the helper's parameters replaced by the arguments of THIS call
// site (so a helper shared by several callers is read once per caller).
func symsThroughHelper(v ssa.Value, depth int) []string {
	call, k := callOf(v)
	if call == nil || depth > 3 {
		return []string{Sym(v)}
	}
	g := newHelperCallee(call)
	if g == nil {
		return []string{Sym(v)}
	}
	if k < 0 {
		k = 0
	}
	var out []string
	for _, hv := range helperReturns(g, k) {
		for _, s := range symsThroughHelper(hv, depth+1) {
			for i, p := range g.Params {
				if i < len(call.Common().Args) {
					re := regexp.MustCompile(`\bp:` + regexp.QuoteMeta(paramName(p)) + `\b`)
					s = re.ReplaceAllLiteralString(s, Sym(call.Common().Args[i]))
				}
			}
			out = append(out, s)
		}
	}
	if len(out) == 0 {
		return []string{Sym(v)}
	}
	return out
}

// recordRoot: where a record value comes from once new helpers are seen through: a parameter of a new helper is the
// argument at its call site, the result of a new helper is the one value it returns; the walk ends at a value of a
// function on the pinned tree (its parameter, a keeper call, a local).
func recordRoot(v ssa.Value) ssa.Value {
	for d := 0; d < 8; d++ {
		if p := paramOfValue(v); p != nil {
			a := transparentArg(p)
			if a == nil {
				return p
			}
			v = a
			continue
		}
		if call, k := callOf(v); call != nil {
			if g := newHelperCallee(call); g != nil {
				if k < 0 {
					k = 0
				}
				if rs := helperReturns(g, k); len(rs) == 1 {
					v = rs[0]
					continue
				}
			}
		}
		return v
	}
	return v
}

// symInCaller: Sym(v) with the parameters of the new helper(s) v lives in replaced by the arguments at their unique
// call sites, so that a rule written against the pinned function reads the same text after an extraction.
func symInCaller(v ssa.Value) string {
	s := Sym(v)
	var fn *ssa.Function
	if in, ok := v.(ssa.Instruction); ok {
		fn = in.Parent()
	} else if p, ok := v.(*ssa.Parameter); ok {
		fn = p.Parent()
	}
	for d := 0; d < 4 && fn != nil; d++ {
		top := fn
		for top.Parent() != nil {
			top = top.Parent()
		}
		if !isNewFunc(top) {
			break
		}
		site := transparentSite(top)
		if site == nil {
			break
		}
		for i, p := range top.Params {
			if i < len(site.Common().Args) {
				re := regexp.MustCompile(`\bp:` + regexp.QuoteMeta(paramName(p)) + `\b`)
				s = re.ReplaceAllLiteralString(s, Sym(site.Common().Args[i]))
			}
		}
		fn = site.Parent()
	}
	return s
}
