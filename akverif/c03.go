package main

import (
	"go/token"
	"go/types"
	"strings"

	"golang.org/x/tools/go/ssa"
)

func init() { registry["C03"] = checkC03 }

// ---- persistence summaries ---------------------------------------------------------------

var persistMemo = map[*ssa.Function]int{}

// isPersistOf reports whether instruction in persists the object that `isObj` recognises (by pointer value):
// KVStore.Set(_, MustMarshal*(obj)) or a static call to a function that persists the corresponding parameter
// on all of its success paths.
func isPersistOf(in ssa.Instruction, isObj func(ssa.Value) bool, depth int) bool {
	call, ok := in.(ssa.CallInstruction)
	if !ok {
		return false
	}
	if isStoreSet(call) {
		args := call.Common().Args
		if len(args) == 2 {
			if m, ok := args[1].(*ssa.Call); ok && strings.HasPrefix(calleeMethod(m), "MustMarshal") {
				margs := m.Common().Args
				if len(margs) > 0 && isObj(stripConv(margs[len(margs)-1])) {
					return true
				}
			}
		}
		return false
	}
	g := call.Common().StaticCallee()
	if g == nil || g.Blocks == nil || depth > 4 {
		return false
	}
	j := persistsParamDeep(g, depth+1)
	if j < 0 || j >= len(call.Common().Args) {
		return false
	}
	return isObj(call.Common().Args[j])
}

// persistsParamDeep: index of the pointer parameter that fn persists on every success path, or -1.
func persistsParamDeep(fn *ssa.Function, depth int) int {
	if v, ok := persistMemo[fn]; ok {
		return v
	}
	persistMemo[fn] = -1
	for i, p := range fn.Params {
		if _, isPtr := p.Type().Underlying().(*types.Pointer); !isPtr {
			continue
		}
		if i == 0 && fn.Signature.Recv() != nil {
			continue
		}
		pp := p
		pred := func(in ssa.Instruction) bool {
			return isPersistOf(in, func(v ssa.Value) bool { return v == ssa.Value(pp) }, depth)
		}
		rets := successReturns(fn)
		if len(rets) == 0 {
			continue
		}
		all := true
		for _, r := range rets {
			if !mustPass(fn, r, pred) {
				all = false
				break
			}
		}
		if all {
			persistMemo[fn] = i
			return i
		}
	}
	return -1
}

type stateStore struct {
	st    *ssa.Store
	fa    *ssa.FieldAddr
	typ   string // "Account" / "Payment"
	k     int64
	kname string
}

func (l *Loaded) escrowStateName(typ string, k int64) string {
	sc := l.Pkg("x/escrow/types").Types.Scope()
	for _, n := range sc.Names() {
		if c, ok := sc.Lookup(n).(*types.Const); ok && strings.HasPrefix(n, typ) && strings.HasSuffix(c.Type().String(), typ+"_State") {
			if v, ok2 := constantInt(c); ok2 && v == k {
				return n
			}
		}
	}
	return "?"
}

func escrowStateStores(l *Loaded, fn *ssa.Function) []stateStore {
	var out []stateStore
	eachInstr(fn, func(i ssa.Instruction) {
		st, ok := i.(*ssa.Store)
		if !ok {
			return
		}
		fa, ok := st.Addr.(*ssa.FieldAddr)
		if !ok {
			return
		}
		tn, f := structFieldOf(fa)
		if f != "State" || !(tn == escrowTypesPkg+".Account" || tn == escrowTypesPkg+".Payment") {
			return
		}
		typ := strings.TrimPrefix(tn, escrowTypesPkg+".")
		k, isConst := constInt(st.Val)
		ss := stateStore{st: st, fa: fa, typ: typ, k: -1, kname: "non-constant " + Sym(st.Val)}
		if isConst {
			ss.k = k
			ss.kname = l.escrowStateName(typ, k)
		}
		out = append(out, ss)
	})
	return out
}

func checkC03(c *Check) {
	c.Explanation = "Code-shape conditions for 'a close always takes effect and escrow records stay consistent', decided on every CFG path of the escrow keeper: (R1) every assignment of a state constant to an escrow Account/Payment reaches a persistence of that same object on every path to a nil-error return (callee summaries: a callee counts only if it persists its argument on all of its success paths); (R2) every non-overdrawn success return of the settle core hands the account's open payments to its caller (or is dominated by len(payments)==0); (R3) the function that marks an account closed/overdrawn marks every payment of that list with the matching state and invokes both hook lists; (R4) 'open' is only ever assigned in constructors behind a !store.Has guard, and every mutator is dominated by a State==Open check; (R5) a record marked closed/overdrawn passes through the withdraw helper, whose success returns are dominated either by Balance.IsZero() or by a successful payout followed by zeroing; (R7) the genesis validation calls a payment a duplicate only when account id and payment id both repeat (the identity of paymentKey)."
	c.NotDecided = "that ValidateGenesis(ExportGenesis) accepts every reachable state (global invariant over histories); that an overdrawn account's balance is zero (distribution arithmetic)"
	l := c.L
	kfuncs := l.pkgFuncs("x/escrow/keeper")
	settle := l.settleCore()

	// ---- R1
	c.statePersistedRule("R1", kfuncs)
	c.Floor("R1", 7)

	// ---- R2
	c.settleHandsOnPayments("R2", settle)
	c.distributeAlways("R2")
	c.Floor("R2", 4)
	c.genesisIdentityRule("R7")
	c.escrowExportComplete("R7")

	// ---- R3 co-transition
	pairs := map[string]string{"AccountClosed": "PaymentClosed", "AccountOverdrawn": "PaymentOverdrawn"}
	nco := 0
	for _, fn := range kfuncs {
		sts := escrowStateStores(l, fn)
		for _, ss := range sts {
			want, ok := pairs[ss.kname]
			if !ok || ss.typ != "Account" {
				continue
			}
			nco++
			inst := ss.kname + " in " + fnName(fn)
			found := false
			for _, ps := range sts {
				if ps.typ == "Payment" && ps.kname == want {
					// the payment object is an element of a payment list from the settle core / open payments
					if ia, isIA := ps.fa.X.(*ssa.IndexAddr); isIA && (isPaymentList(ia.X) || strings.Contains(Sym(ia.X), "doAccountSettle(")) {
						found = true
					}
				}
			}
			c.Ob("R3", inst+": every listed payment gets "+want, ss.st.Pos(), found, "account is marked "+ss.kname+" but its payments are not marked "+want+" in the same function")
			// both hook lists invoked on all success paths after the store
			for _, hk := range []string{"onAccountClosed", "onPaymentClosed"} {
				okh, n := mustFollowDeep(fn, ss.st, func(in ssa.Instruction) bool {
					// the loop over the hook list is entered (its header evaluates len(list)); the body must call the element
					call, ok := in.(*ssa.Call)
					return ok && calleeFull(call) == "builtin.len" && strings.HasSuffix(Sym(call.Call.Args[0]), "hooks."+hk) && hookLoopCalls(in.Parent(), hk)
				}, 0)
				c.Ob("R3", inst+": hook list "+hk+" invoked", ss.st.Pos(), okh && n > 0, "closing path does not invoke "+hk+" hooks on every success path (market/deployment records would not follow)")
			}
		}
	}
	if nco < 2 {
		c.Fail("C03-R3 lost instances: %d", nco)
	}

	// ---- R4 no reopen, mutators guarded by State==Open
	for _, fn := range kfuncs {
		if isNewFunc(fn) && fn.Parent() == nil && transparentSite(fn) != nil {
			continue // a new helper: what it assigns is judged in the function that calls it
		}
		r4stores := escrowStateStores(l, fn)
		for _, h := range helpersOf(fn) {
			if h.Parent() == nil {
				r4stores = append(r4stores, escrowStateStores(l, h)...)
			}
		}
		for _, ss := range r4stores {
			if ss.kname != "AccountOpen" && ss.kname != "PaymentOpen" && ss.k >= 0 {
				continue
			}
			inst := ss.typ + ".State=" + ss.kname + " in " + fnName(ss.st.Parent())
			ok := false
			if a, isA := ss.fa.X.(*ssa.Alloc); isA && freshRecord(a) {
				// constructor: every Set in fn dominated by Has(key)==false with same key
				ok = true
				nset := 0
				// the key the keeper's persist helpers store such a record under, from the id fields the record is given
				idv := map[string]string{}
				for _, rr := range *a.Referrers() {
					if fa2, isFA := rr.(*ssa.FieldAddr); isFA && fa2.Referrers() != nil {
						_, fname := structFieldOf(fa2)
						for _, r2 := range *fa2.Referrers() {
							if st2, isS := r2.(*ssa.Store); isS && st2.Addr == ssa.Value(fa2) {
								idv[fname] = Sym(st2.Val)
							}
						}
					}
				}
				helperKey := ""
				if ss.typ == "Payment" {
					helperKey = "keeper.paymentKey(" + idv["AccountID"] + ", " + idv["PaymentID"] + ")"
				} else {
					helperKey = "keeper.accountKey(" + idv["ID"] + ")"
				}
				for _, call := range callsIn(fn, false) {
					key := ""
					switch {
					case isStoreSet(call):
						key = Sym(call.Common().Args[0])
					case ss.st.Parent() != fn && call.Parent() == fn && call.Common().StaticCallee() != nil && strings.HasPrefix(call.Common().StaticCallee().Name(), "save"+ss.typ):
						key = helperKey
					default:
						continue
					}
					nset++
					if !boolCallFactAt(call.Block(), false, func(h *ssa.Call, _ int) bool {
						return calleeMethod(h) == "Has" && Sym(h.Call.Args[0]) == key
					}) {
						ok = false
					}
				}
				if nset == 0 {
					ok = false
				}
			}
			c.Ob("R4", inst+" only in a constructor behind !store.Has(key)", ss.st.Pos(), ok, "a record can be (re)opened: Open assigned outside a guarded constructor")
		}
	}
	// mutators guarded
	mut := mutatingFuncs(l, kfuncs)
	type guardSpec struct{ fn, typ string }
	for _, g := range []guardSpec{{"AccountDeposit", "Account"}, {"AccountClose", "Account"}, {"PaymentWithdraw", "Payment"}, {"PaymentClose", "Payment"}, {settle.Name(), "Account"}} {
		fn := l.Func("x/escrow/keeper", "keeper", g.fn)
		c.Analysed(fnName(fn))
		openK := l.constVal("x/escrow/types", g.typ+"Open").ExactString()
		n := 0
		ok := true
		var bad ssa.Instruction
		for _, call := range callsIn(fn, false) {
			if !isMutation(call, mut) {
				continue
			}
			n++
			has := false
			for _, a := range factsAt(call.Block()) {
				if a.Op == "eq" && strings.HasSuffix(Sym(a.X), ".State") && a.Y != nil && Sym(a.Y) == openK {
					if u, isU := a.X.(*ssa.UnOp); isU {
						if fa, isF := u.X.(*ssa.FieldAddr); isF {
							if tn, _ := structFieldOf(fa); tn == escrowTypesPkg+"."+g.typ {
								has = true
							}
						}
					}
					if f, isF := a.X.(*ssa.Field); isF && strings.HasSuffix(f.X.Type().String(), "types."+g.typ) {
						has = true
					}
				}
			}
			if !has {
				ok = false
				bad = call
			}
		}
		pos := fn.Pos()
		if bad != nil {
			pos = bad.Pos()
		}
		c.Ob("R4", "mutations in "+fnName(fn)+" dominated by "+g.typ+".State==Open", pos, ok && n > 0, "a closed/overdrawn "+g.typ+" can still be mutated (accrue, pay out or close again)")
	}
	c.paymentCreateGuards("R4", settle, mut)
	// accountOpenPayments filters on PaymentOpen
	{
		fn := l.Func("x/escrow/keeper", "keeper", "accountOpenPayments")
		openK := l.constVal("x/escrow/types", "PaymentOpen").ExactString()
		ok := false
		eachInstr(fn, func(i ssa.Instruction) {
			// kept by index in a slice made for the result: every such store is behind the filter
			if st, isSt := i.(*ssa.Store); isSt {
				if ia, isIA := st.Addr.(*ssa.IndexAddr); isIA {
					if _, isMk := ia.X.(*ssa.MakeSlice); isMk && strings.HasSuffix(ia.X.Type().String(), "types.Payment") {
						for _, a := range factsAt(st.Block()) {
							if a.Op == "eq" && strings.HasSuffix(Sym(a.X), ".State") && Sym(a.Y) == openK {
								ok = true
							}
						}
					}
				}
				return
			}
			call, isC := i.(*ssa.Call)
			if !isC || calleeFull(call) != "builtin.append" {
				return
			}
			for _, a := range factsAt(call.Block()) {
				if a.Op == "eq" && strings.HasSuffix(Sym(a.X), ".State") && Sym(a.Y) == openK {
					ok = true
				}
			}
			// the elements come out of a map the function filled itself, and every insertion is behind the filter
			if len(call.Call.Args) == 2 && strings.Contains(Sym(call.Call.Args[1]), "next(range(make:map[") {
				nput, allGuarded := 0, true
				eachInstr(fn, func(j ssa.Instruction) {
					mu, isMU := j.(*ssa.MapUpdate)
					if !isMU {
						return
					}
					nput++
					g := false
					for _, a := range factsAt(mu.Block()) {
						if a.Op == "eq" && strings.HasSuffix(Sym(a.X), ".State") && Sym(a.Y) == openK {
							g = true
						}
					}
					allGuarded = allGuarded && g
				})
				if nput > 0 && allGuarded {
					ok = true
				}
			}
		})
		c.Ob("R4", "open-payment enumeration keeps only State==PaymentOpen", fn.Pos(), ok, "closed payments would be settled / closed again")
	}

	// ---- R6 the payment enumeration used by settlement selects exactly the account's own payments (key layout)
	c.keyLayoutsRule("R6", []string{"x/escrow/keeper"}, 1, 2)

	// ---- R5 closed records pass through the withdraw helper; helper shape
	wd := map[string]*ssa.Function{}
	for _, fn := range kfuncs {
		for _, call := range callsIn(fn, false) {
			if calleeMethod(call) == "SendCoinsFromModuleToAccount" && len(fn.Params) > 0 {
				t := fn.Params[len(fn.Params)-1].Type().String()
				if strings.HasSuffix(t, "types.Account") {
					wd["Account"] = fn
				} else if strings.HasSuffix(t, "types.Payment") {
					wd["Payment"] = fn
				}
			}
		}
	}
	if len(wd) != 2 {
		c.Fail("unresolved anchor: withdraw helpers")
	}
	for _, fn := range kfuncs {
		for _, ss := range escrowStateStores(l, fn) {
			if ss.kname == "AccountOpen" || ss.kname == "PaymentOpen" || ss.kname == "AccountOverdrawn" {
				continue
			}
			objSym := Sym(ss.fa.X)
			w := wd[ss.typ]
			ok := true
			n := 0
			for _, r := range successReturns(fn) {
				if !reachableFrom(ss.st, r) {
					continue
				}
				n++
				if !mustPassFrom(fn, ss.st, r, func(in ssa.Instruction) bool {
					call, isC := in.(*ssa.Call)
					return isC && call.Call.StaticCallee() == w && Sym(call.Call.Args[len(call.Call.Args)-1]) == objSym
				}) {
					ok = false
				}
			}
			c.Ob("R5", ss.typ+" marked "+ss.kname+" in "+fnName(fn)+" is paid out", ss.st.Pos(), ok && n > 0, "record is closed without paying out its balance (coins stay in the module with nothing open)")
		}
	}
	for typ, w := range wd {
		c.Analysed(fnName(w))
		obj := w.Params[len(w.Params)-1]
		var send *ssa.Call
		for _, call := range callsIn(w, false) {
			if calleeMethod(call) == "SendCoinsFromModuleToAccount" {
				send = call.(*ssa.Call)
			}
		}
		ok := true
		// path form (indifferent to whether the zero-balance case returns early or joins a shared tail): with the edges
		// on which Balance.IsZero() is known true taken out of the flow graph, every remaining path to a success return
		// passes the zeroing store that sits on the ok-edge of the payout
		isZeroEdge := func(b *ssa.BasicBlock, idx int) bool {
			ifi, isIf := b.Instrs[len(b.Instrs)-1].(*ssa.If)
			if !isIf {
				return false
			}
			a := condAtom(ifi.Cond, idx == 0)
			if a.Op != "true" {
				return false
			}
			h, _ := callOf(a.X)
			return h != nil && calleeMethod(h) == "IsZero" && Sym(h.Call.Args[0]) == "*p:"+paramName(obj)+".Balance"
		}
		zeroing := func(in ssa.Instruction) bool {
			st, isS := in.(*ssa.Store)
			if !isS || send == nil || Sym(st.Addr) != "&*p:"+paramName(obj)+".Balance" || !okEdgeAt(st.Block(), send) {
				return false
			}
			v := Sym(st.Val)
			return strings.HasPrefix(v, "types.NewCoin(") && strings.HasSuffix(v, ", types.ZeroInt())")
		}
		pathOK := true
		for _, r := range successReturns(w) {
			if !mustPassAvoiding(w, r, zeroing, isZeroEdge) {
				pathOK = false
			}
		}
		if pathOK && len(successReturns(w)) > 0 {
			c.Ob("R5", typ+" withdraw helper returns success only with zero balance or after payout", w.Pos(), true, "")
			continue
		}
		for _, r := range successReturns(w) {
			zeroKnown := boolCallFactAt(r.Block(), true, func(h *ssa.Call, _ int) bool {
				return calleeMethod(h) == "IsZero" && Sym(h.Call.Args[0]) == "*p:"+paramName(obj)+".Balance"
			})
			paid := okEdgeAt(r.Block(), send)
			if !zeroKnown && !paid {
				ok = false
			}
			if !zeroKnown && paid && send != nil {
				// ... and the recorded balance is set to zero between the payout and the success return
				zeroed := mustPassFrom(w, send, r, func(in ssa.Instruction) bool {
					st, isS := in.(*ssa.Store)
					if !isS || Sym(st.Addr) != "&*p:"+paramName(obj)+".Balance" {
						return false
					}
					v := Sym(st.Val)
					return strings.HasPrefix(v, "types.NewCoin(") && strings.HasSuffix(v, ", types.ZeroInt())")
				})
				if !zeroed {
					ok = false
				}
			}
		}
		c.Ob("R5", typ+" withdraw helper returns success only with zero balance or after payout", w.Pos(), ok, "withdraw helper can succeed leaving a non-zero recorded balance")
	}
}

func itoa(i int) string {
	return strings.TrimSpace(strings.Replace(strings.Repeat(" ", 0)+fmtInt(i), " ", "", -1))
}

// reachableFrom: is `to` reachable from instruction `from` in the CFG?
func reachableFrom(from, to ssa.Instruction) bool {
	fb, tb := from.Block(), to.Block()
	if fb == tb {
		for _, i := range fb.Instrs {
			if i == from {
				return true
			}
			if i == to {
				break
			}
		}
	}
	seen := map[*ssa.BasicBlock]bool{}
	stack := append([]*ssa.BasicBlock{}, fb.Succs...)
	for len(stack) > 0 {
		b := stack[len(stack)-1]
		stack = stack[:len(stack)-1]
		if seen[b] {
			continue
		}
		seen[b] = true
		if b == tb {
			return true
		}
		stack = append(stack, b.Succs...)
	}
	return false
}

// mutatingFuncs: functions of the package that (transitively, static calls) write the store or move coins.
func mutatingFuncs(l *Loaded, fns []*ssa.Function) map[*ssa.Function]bool {
	mut := map[*ssa.Function]bool{}
	changed := true
	for changed {
		changed = false
		for _, fn := range fns {
			if mut[fn] {
				continue
			}
			for _, call := range callsIn(fn, false) {
				if isMutation(call, mut) {
					mut[fn] = true
					changed = true
					break
				}
			}
		}
	}
	return mut
}

func isMutation(call ssa.CallInstruction, mut map[*ssa.Function]bool) bool {
	m := calleeMethod(call)
	if (m == "Set" || m == "Delete") && strings.Contains(calleeFull(call), "KVStore") {
		return true
	}
	if isBankMutatorCall(call) {
		return true
	}
	if g := call.Common().StaticCallee(); g != nil && mut[g] {
		// a call of a new helper is not itself the mutation: the calls inside it are enumerated with its caller's
		return newHelperCallee(call) == nil
	}
	return false
}

// hookLoopCalls: fn contains a dynamic call of an element of the named hook list.
func hookLoopCalls(fn *ssa.Function, hk string) bool {
	for _, call := range callsIn(fn, false) {
		cc := call.Common()
		if cc.StaticCallee() == nil && !cc.IsInvoke() && strings.Contains(Sym(cc.Value), "hooks."+hk+"[") {
			return true
		}
	}
	return false
}

// lostUpdateRule: in every method of the escrow keeper, a store into an escrow record object (whole or any field)
// that the same function persists somewhere is followed, on every path to a nil-error return, by a persistence of
// that object. A record changed after its last save leaves the store and the returned/cascaded copy disagreeing.
func (c *Check) lostUpdateRule(rule string, kfuncs []*ssa.Function) {
	l := c.L
	n := 0
	ord := map[string]int{}
	for _, fn := range kfuncs {
		if fn.Signature.Recv() == nil || fn.Parent() != nil {
			continue
		}
		// objects persisted in fn, by root symbol
		persisted := map[string]bool{}
		rootOf := func(addr ssa.Value) ssa.Value {
			for {
				switch x := addr.(type) {
				case *ssa.FieldAddr:
					addr = x.X
					continue
				}
				return addr
			}
		}
		isRec := func(v ssa.Value) bool {
			t := v.Type()
			if p, ok := t.Underlying().(*types.Pointer); ok {
				t = p.Elem()
			}
			ts := t.String()
			return ts == escrowTypesPkg+".Account" || ts == escrowTypesPkg+".Payment"
		}
		var roots []ssa.Value
		eachInstr(fn, func(i ssa.Instruction) {
			st, ok := i.(*ssa.Store)
			if !ok {
				return
			}
			r := rootOf(st.Addr)
			if !isRec(r) {
				return
			}
			if _, isAlloc := r.(*ssa.Alloc); !isAlloc {
				if _, isPar := r.(*ssa.Parameter); !isPar {
					return
				}
			}
			roots = append(roots, r)
		})
		for _, r := range roots {
			rs := Sym(r)
			if _, done := persisted[rs]; done {
				continue
			}
			has := false
			eachInstr(fn, func(i ssa.Instruction) {
				if isPersistOf(i, func(v ssa.Value) bool { return Sym(v) == rs }, 0) {
					has = true
				}
			})
			persisted[rs] = has
		}
		eachInstr(fn, func(i ssa.Instruction) {
			st, ok := i.(*ssa.Store)
			if !ok {
				return
			}
			r := rootOf(st.Addr)
			rs := Sym(r)
			if !isRec(r) || !persisted[rs] {
				return
			}
			// the initial spill of a parameter is not an update, nor is a record handed back by a keeper method
			// (loaded from the store, or already saved by that method: C03-R1 / this rule apply there)
			if _, isPar := st.Val.(*ssa.Parameter); isPar && st.Addr == r {
				return
			}
			if cv, _ := callOf(st.Val); cv != nil && st.Addr == r {
				if g := cv.Call.StaticCallee(); g != nil && g.Signature.Recv() != nil && fnPkgPath(g) == escrowKeeperPkg {
					return
				}
			}
			pred := func(in ssa.Instruction) bool {
				return isPersistOf(in, func(v ssa.Value) bool { return Sym(v) == rs }, 0)
			}
			okAll := true
			detail := ""
			for _, ret := range successReturns(fn) {
				if !reachableFrom(st, ret) {
					continue
				}
				if !mustPassFrom(fn, st, ret, pred) {
					okAll = false
					detail = "a path from this update to the nil-error return at " + l.Pos(ret.Pos()) + " does not save the record again: the stored record lags behind the one returned to callers and hooks"
				}
			}
			n++
			c.Analysed(fnName(fn))
			what := strings.TrimPrefix(Sym(st.Addr), "&")
			if a, isA := r.(*ssa.Alloc); isA && a.Comment == "complit" {
				path := ""
				for ad := st.Addr; ; {
					fa, isFA := ad.(*ssa.FieldAddr)
					if !isFA {
						break
					}
					path = "." + fieldName(fa.X.Type(), fa.Field) + path
					ad = fa.X
				}
				what = "new " + strings.TrimPrefix(a.Type().(*types.Pointer).Elem().String(), escrowTypesPkg+".") + path
			}
			key := fnName(fn) + "|" + what
			ord[key]++
			if ord[key] > 1 {
				what += " #" + itoa(ord[key])
			}
			c.Ob(rule, "update of "+short(what)+" in "+fnName(fn)+" is saved before a successful return", st.Pos(), okAll, detail)
		})
	}
	if n < 10 {
		c.Fail("%s-%s lost instances: %d record updates", c.ID, rule, n)
	}
}

// settleHandsOnPayments: every non-overdrawn success return of the settle core hands the account's open payments to
// its caller, or is dominated by len(payments)==0 (shared: C03-R2, C02-R7, C05-R4 — AccountClose pays out and closes
// exactly the payments it is handed).
func (c *Check) settleHandsOnPayments(rule string, settle *ssa.Function) {
	c.Analysed(fnName(settle))
	res := settle.Signature.Results()
	pi, oi := -1, -1
	for i := 0; i < res.Len(); i++ {
		if _, ok := res.At(i).Type().(*types.Slice); ok {
			pi = i
		}
		if b, ok := res.At(i).Type().(*types.Basic); ok && b.Kind() == types.Bool {
			oi = i
		}
	}
	if pi < 0 || oi < 0 {
		c.Fail("settle core result shape")
	}
	nret := 0
	for _, r := range successReturns(settle) {
		nret++
		od := r.Results[oi]
		inst := "settle-core success return #" + itoa(nret) + " (overdrawn=" + Sym(od) + ")"
		pv := r.Results[pi]
		ok := false
		detail := ""
		if isPaymentList(pv) {
			ok = true
		} else if isNilConst(pv) {
			// must be dominated by len(payments)==0 of the open-payment list
			for _, a := range factsAt(r.Block()) {
				if a.Op == "eq" {
					if call, _ := callOf(a.X); call != nil && calleeFull(call) == "builtin.len" && isPaymentList(call.Call.Args[0]) {
						if k, isK := constInt(a.Y); isK && k == 0 {
							ok = true
						}
					}
				}
			}
			detail = "success return hands a nil payment list to the caller although open payments may exist (caller closes the account but not its payments)"
		} else {
			detail = "payment list result " + Sym(pv) + " does not derive from the account's open payments"
		}
		c.Ob(rule, inst, r.Pos(), ok, detail)
	}
}

// genesisIdentityRule: the escrow genesis validation rejects a duplicate payment by the identity the store uses
// (account id AND payment id: paymentKey), not by part of it — otherwise a state the keeper can reach (the same payment
// id under two accounts: lease payment ids repeat across deployments) fails the chain's own genesis validation.
func (c *Check) genesisIdentityRule(rule string) {
	l := c.L
	vg := l.Func("x/escrow", "", "ValidateGenesis")
	c.Analysed(fnName(vg))
	n := 0
	var blocks []*ssa.BasicBlock
	blocks = append(blocks, vg.Blocks...)
	for _, h := range helpersOf(vg) {
		blocks = append(blocks, h.Blocks...) // the validation split into new helpers
	}
	for _, b := range blocks {
		r, isR := b.Instrs[len(b.Instrs)-1].(*ssa.Return)
		if !isR || len(r.Results) != 1 || !strings.Contains(Sym(r.Results[0]), "ErrPaymentExists") {
			continue
		}
		if cv, isC := r.Results[0].(*ssa.Call); isC && newHelperCallee(cv) != nil {
			continue // hands on a new helper's verdict: judged at the helper's own returns
		}
		n++
		// the deciding atoms: those that look into a map of payments
		ev := ""
		for _, a := range factsAt(b) {
			for _, v := range []ssa.Value{a.X, a.Y} {
				if v == nil {
					continue
				}
				if lookupsPaymentMap(v, 0) {
					ev += lookupKeys(v, 0) + " " + Sym(a.X) + " "
					if a.Y != nil {
						ev += Sym(a.Y) + " "
					}
				}
			}
		}
		ok := strings.Contains(ev, ".AccountID") && strings.Contains(ev, ".PaymentID")
		c.Ob(rule, "genesis validation: a payment is a duplicate only if account id and payment id both repeat", r.Pos(), ok, "duplicate detection keyed by "+short(ev)+": payments that differ in the other part of (account id, payment id) are rejected although the keeper stores them side by side")
	}
	c.Ob(rule, "genesis validation rejects duplicate payments", vg.Pos(), n >= 1, "no ErrPaymentExists exit in ValidateGenesis")
}

// lookupsPaymentMap: v derives from a lookup in a map whose elements are payments (or lists of payments).
func lookupsPaymentMap(v ssa.Value, depth int) bool {
	if depth > 8 {
		return false
	}
	switch x := v.(type) {
	case *ssa.Lookup:
		if m, ok := x.X.Type().Underlying().(*types.Map); ok && strings.Contains(m.Elem().String(), "escrow/types.Payment") {
			return true
		}
	case *ssa.Alloc:
		if x.Referrers() != nil {
			for _, r := range *x.Referrers() {
				if st, ok := r.(*ssa.Store); ok && st.Addr == ssa.Value(x) && lookupsPaymentMap(st.Val, depth+1) {
					return true
				}
			}
		}
	case *ssa.Extract:
		return lookupsPaymentMap(x.Tuple, depth+1)
	case *ssa.Field:
		return lookupsPaymentMap(x.X, depth+1)
	case *ssa.FieldAddr:
		return lookupsPaymentMap(x.X, depth+1)
	case *ssa.IndexAddr:
		return lookupsPaymentMap(x.X, depth+1)
	case *ssa.Index:
		return lookupsPaymentMap(x.X, depth+1)
	case *ssa.UnOp:
		return lookupsPaymentMap(x.X, depth+1)
	case *ssa.BinOp:
		return lookupsPaymentMap(x.X, depth+1) || lookupsPaymentMap(x.Y, depth+1)
	case *ssa.Phi:
		for _, e := range x.Edges {
			if lookupsPaymentMap(e, depth+1) {
				return true
			}
		}
	}
	return false
}

func isPaymentList(v ssa.Value) bool {
	s := Sym(v)
	return strings.Contains(s, "keeper.keeper.accountOpenPayments(") || strings.Contains(s, "keeper.keeper.accountPayments(")
}

// lookupKeys: the keys of the payment-map lookups v derives from.
func lookupKeys(v ssa.Value, depth int) string {
	if depth > 8 {
		return ""
	}
	switch x := v.(type) {
	case *ssa.Lookup:
		if m, ok := x.X.Type().Underlying().(*types.Map); ok && strings.Contains(m.Elem().String(), "escrow/types.Payment") {
			return "key(" + Sym(x.Index) + ")"
		}
	case *ssa.Alloc:
		out := ""
		if x.Referrers() != nil {
			for _, r := range *x.Referrers() {
				if st, ok := r.(*ssa.Store); ok && st.Addr == ssa.Value(x) {
					out += lookupKeys(st.Val, depth+1)
				}
			}
		}
		return out
	case *ssa.Extract:
		return lookupKeys(x.Tuple, depth+1)
	case *ssa.Field:
		return lookupKeys(x.X, depth+1)
	case *ssa.FieldAddr:
		return lookupKeys(x.X, depth+1)
	case *ssa.IndexAddr:
		return lookupKeys(x.X, depth+1)
	case *ssa.Index:
		return lookupKeys(x.X, depth+1)
	case *ssa.UnOp:
		return lookupKeys(x.X, depth+1)
	case *ssa.BinOp:
		return lookupKeys(x.X, depth+1) + lookupKeys(x.Y, depth+1)
	case *ssa.Phi:
		out := ""
		for _, e := range x.Edges {
			out += lookupKeys(e, depth+1)
		}
		return out
	}
	return ""
}

// statePersistedRule: every assignment of a state constant to an escrow record reaches a persistence of that object on
// every path to a nil-error return (shared: C03-R1; C02-R7 and C05-R4, since a close that is not stored keeps the
// payment metering and leaves market and escrow records disagreeing).
func (c *Check) statePersistedRule(rule string, kfuncs []*ssa.Function) {
	l := c.L
	for _, fn := range kfuncs {
		if isNewFunc(fn) && fn.Parent() == nil && transparentSite(fn) != nil {
			continue // a new helper: its state assignments are followed from the function that calls it
		}
		stores := escrowStateStores(l, fn)
		for _, h := range helpersOf(fn) {
			if h.Parent() == nil {
				stores = append(stores, escrowStateStores(l, h)...)
			}
		}
		for _, ss0 := range stores {
			ss := ss0
			c.Analysed(fnName(fn))
			objSym := Sym(ss.fa.X)
			inst := ss.typ + ".State=" + ss.kname + " in " + fnName(ss.st.Parent()) + " on " + objSym
			if ss.st.Parent() != fn {
				// assigned inside a new helper: the obligation starts at the helper's call in fn
				li := liftTo(fn, ss.st)
				if li == nil {
					c.Info(rule, inst+": position of the helper's call not resolved, persistence not decided", ss.st.Pos(), "")
					continue
				}
				// persisted inside the helper itself, on every way out of it that reports success?
				hf := ss.st.Parent()
				inPred := func(in ssa.Instruction) bool {
					return isPersistOf(in, func(v ssa.Value) bool { return Sym(v) == objSym }, 0)
				}
				inside, nin := true, 0
				hrets := successReturns(hf)
				if errResultIndex(hf) < 0 {
					hrets = nil
					for _, b := range hf.Blocks {
						if r, isR := b.Instrs[len(b.Instrs)-1].(*ssa.Return); isR {
							hrets = append(hrets, r)
						}
					}
				}
				for _, r := range hrets {
					if !reachableFrom(ss.st, r) {
						continue
					}
					nin++
					if !mustPassFrom(hf, ss.st, r, inPred) {
						inside = false
					}
				}
				if inside && nin > 0 {
					c.Ob(rule, inst, ss.st.Pos(), true, "")
					continue
				}
				c.statePersistedFrom(rule, inst, fn, li, objSym, ss.st.Pos())
				continue
			}
			// fresh composite literal persisted directly is handled by the same predicate
			pred := func(in ssa.Instruction) bool {
				return isPersistOf(in, func(v ssa.Value) bool { return Sym(v) == objSym }, 0)
			}
			ok := true
			detail := ""
			rets := successReturns(fn)
			n := 0
			for _, r := range rets {
				// only returns reachable from the store
				if !reachableFrom(ss.st, r) {
					continue
				}
				n++
				if !mustPassFrom(fn, ss.st, r, pred) {
					ok = false
					detail = "a path from the state assignment to the nil-error return at " + l.Pos(r.Pos()) + " does not persist the object (callees that skip the write on some success path do not count)"
				}
				// a callee that persists only when it succeeds does not count on the path where it failed
				eachInstr(fn, func(pi ssa.Instruction) {
					pc, isCall := pi.(*ssa.Call)
					if !isCall || !pred(pi) || isStoreSet(pc) || errResultIndex2(pc) < 0 {
						return
					}
					checked := false
					for _, rr := range *pc.Referrers() {
						var errV ssa.Value = pc
						if ex, isEx := rr.(*ssa.Extract); isEx {
							errV = ex
						}
						if errV.Referrers() == nil {
							continue
						}
						for _, r2 := range *errV.Referrers() {
							switch y := r2.(type) {
							case *ssa.BinOp:
								if y.Referrers() != nil {
									for _, r3 := range *y.Referrers() {
										if _, isIf := r3.(*ssa.If); isIf {
											checked = true
										}
									}
								}
							case *ssa.Return, *ssa.Store, *ssa.Phi, *ssa.MakeInterface, *ssa.Call:
								checked = true // handed on
							}
						}
					}
					if !checked && reachableFrom(pi, r) {
						ok = false
						detail = "the error of " + calleeMethod(pc) + " at " + l.Pos(pc.Pos()) + " is not examined: when it fails (it stores the object only on success) the function still reports success and the state change is lost"
					}
					for _, rr := range *pc.Referrers() {
						var errV ssa.Value = pc
						if ex, isEx := rr.(*ssa.Extract); isEx {
							errV = ex
						}
						if errV.Referrers() == nil {
							continue
						}
						for _, r2 := range *errV.Referrers() {
							bo, isBO := r2.(*ssa.BinOp)
							if !isBO || bo.Op != token.NEQ || !isNilConst(bo.Y) || bo.Referrers() == nil {
								continue
							}
							for _, r3 := range *bo.Referrers() {
								ifi, isIf := r3.(*ssa.If)
								if !isIf {
									continue
								}
								fail := ifi.Block().Succs[0]
								first := fail.Instrs[0]
								// the failed call itself, met again in a later loop iteration, concerns another element
								other := func(in ssa.Instruction) bool { return in != pi && pred(in) }
								if (fail == r.Block() || blockReaches(fail, r.Block())) && !other(first) && !mustPassFrom(fn, first, r, other) {
									ok = false
									detail = "when " + calleeMethod(pc) + " fails at " + l.Pos(pc.Pos()) + " the function still returns nil at " + l.Pos(r.Pos()) + " without having stored the object: the state change is lost while callers see success"
								}
							}
						}
					}
				})
			}
			if n == 0 {
				ok = false
				detail = "no success return reachable from assignment"
			}
			c.Ob(rule, inst, ss.st.Pos(), ok, detail)
		}
	}
}

// freshRecord: the local is built in place (composite literal or field-by-field), never assigned as a whole from
// somewhere else (a loaded record).
func freshRecord(a *ssa.Alloc) bool {
	if a.Comment == "complit" {
		return true
	}
	if a.Referrers() == nil {
		return false
	}
	for _, r := range *a.Referrers() {
		if st, ok := r.(*ssa.Store); ok && st.Addr == ssa.Value(a) {
			return false
		}
	}
	return true
}

// paymentCreateGuards: PaymentCreate stores only after a successful settlement that did not overdraw the account
// (shared: C03-R4, C05-R4 — a payment stream opened on an account that the same call just closed is open forever).
func (c *Check) paymentCreateGuards(rule string, settle *ssa.Function, mut map[*ssa.Function]bool) {
	l := c.L

	fn := l.Func("x/escrow/keeper", "keeper", "PaymentCreate")
	var sc *ssa.Call
	if scs := settleCallsIn(l, fn, settle); len(scs) > 0 {
		sc = scs[0]
	}
	ok := sc != nil
	okOD := sc != nil
	if sc != nil {
		// index of the callee's "overdrawn" result
		bi := -1
		res := sc.Call.Signature().Results()
		for i := 0; i < res.Len(); i++ {
			if b, isB := res.At(i).Type().(*types.Basic); isB && b.Kind() == types.Bool {
				bi = i
			}
		}
		for _, call := range callsIn(fn, false) {
			if !isMutation(call, mut) || call == ssa.CallInstruction(sc) || call.Parent() != fn {
				continue
			}
			if !okEdgeAt(call.Block(), sc) {
				ok = false
			}
			notOD := false
			for _, a := range factsAt(call.Block()) {
				if a.Op == "false" {
					if ex, isEx := a.X.(*ssa.Extract); isEx && ex.Tuple == ssa.Value(sc) && ex.Index == bi {
						notOD = true
					}
				}
			}
			if !notOD {
				okOD = false
			}
		}
	}
	// the contract its callers build on (the lease handler writes the lease as active from copies it read before the
	// call): PaymentCreate reports success only if its settlement did not overdraw the account (an overdraw fires the
	// close hooks on everything under the deployment) and only after the payment record was stored
	if sc != nil {
		bi := -1
		res := sc.Call.Signature().Results()
		for i := 0; i < res.Len(); i++ {
			if b, isB := res.At(i).Type().(*types.Basic); isB && b.Kind() == types.Bool {
				bi = i
			}
		}
		okSucc, okStored, nret := true, true, 0
		for _, r := range successReturns(fn) {
			nret++
			notOD := false
			for _, a := range factsAt(r.Block()) {
				if a.Op == "false" {
					if ex, isEx := a.X.(*ssa.Extract); isEx && ex.Tuple == ssa.Value(sc) && ex.Index == bi {
						notOD = true
					}
				}
			}
			if !notOD {
				okSucc = false
			}
			if !mustPassFrom(fn, nil, r, func(in ssa.Instruction) bool {
				call, isC := in.(ssa.CallInstruction)
				return isC && isMutation(call, mut) && call != ssa.CallInstruction(sc) && !(call.Common().StaticCallee() != nil && len(settleCallsIn(l, call.Common().StaticCallee(), settle)) > 0)
			}) {
				okStored = false
			}
		}
		c.Ob(rule, "PaymentCreate reports success only if its settlement did not overdraw the account", fn.Pos(), okSucc && nret > 0, "PaymentCreate can return nil although the settlement it ran overdrew the account (and fired the close hooks): the caller goes on to write an active lease over records the hooks just closed")
		c.Ob(rule, "PaymentCreate reports success only after the payment record was stored", fn.Pos(), okStored && nret > 0, "PaymentCreate can return nil without having stored a payment: the caller records an active lease that nothing pays for")
	}
	c.Ob(rule, "PaymentCreate writes only when that settlement did not overdraw the account", fn.Pos(), okOD, "the settlement's overdrawn result is not tested before the new payment is stored: an open payment can be attached to an account the settlement just closed as overdrawn")
	c.Ob(rule, "PaymentCreate writes only after a successful settle of an open account", fn.Pos(), ok, "a payment can be created on a closed account / without settling first")
}

// errResultIndex2: index of the error result of the call's signature, -1 if none.
func errResultIndex2(c *ssa.Call) int {
	res := c.Call.Signature().Results()
	for i := 0; i < res.Len(); i++ {
		if res.At(i).Type().String() == "error" {
			return i
		}
	}
	return -1
}

// statePersistedFrom: the plain part of statePersistedRule for a state assignment that sits in a new helper — from
// the helper's call in fn, every path to a nil-error return of fn persists the object (the object as the helper sees
// it, or the helper's result).
func (c *Check) statePersistedFrom(rule, inst string, fn *ssa.Function, start ssa.Instruction, objSym string, pos token.Pos) {
	l := c.L
	resSym := ""
	if v, ok := start.(ssa.Value); ok {
		resSym = Sym(v)
	}
	pred := func(in ssa.Instruction) bool {
		return isPersistOf(in, func(v ssa.Value) bool { s := Sym(v); return s == objSym || (resSym != "" && s == resSym) }, 0)
	}
	ok, n, detail := true, 0, ""
	for _, r := range successReturns(fn) {
		if !reachableFrom(start, r) {
			continue
		}
		n++
		if !mustPassFrom(fn, start, r, pred) {
			ok = false
			detail = "a path from the helper that assigns the state to the nil-error return at " + l.Pos(r.Pos()) + " does not persist the object"
		}
	}
	if n == 0 {
		ok = false
		detail = "no success return reachable from the assignment"
	}
	c.Ob(rule, inst, pos, ok, detail)
}
