package main

import (
	"go/types"
	"sort"
	"strings"

	"golang.org/x/tools/go/ssa"
)

// Lifecycle records of the market and deployment modules and their state enums.

type recKind struct {
	pkg    string // import path of the types package
	name   string // Order, Bid, Lease, Group, Deployment
	states map[int64]string
	byName map[string]int64
}

func (l *Loaded) recordKinds() map[string]*recKind {
	out := map[string]*recKind{}
	for _, spec := range [][2]string{{"x/market/types", "Order"}, {"x/market/types", "Bid"}, {"x/market/types", "Lease"}, {"x/deployment/types", "Group"}, {"x/deployment/types", "Deployment"}} {
		p := l.Pkg(spec[0])
		rk := &recKind{pkg: p.PkgPath, name: spec[1], states: map[int64]string{}, byName: map[string]int64{}}
		sc := p.Types.Scope()
		for _, n := range sc.Names() {
			c, ok := sc.Lookup(n).(*types.Const)
			if !ok || !strings.HasSuffix(c.Type().String(), "."+spec[1]+"_State") {
				continue
			}
			v, ok := constantInt(c)
			if !ok || v == 0 {
				continue
			}
			rk.states[v] = n
			rk.byName[n] = v
		}
		if len(rk.states) < 2 {
			panic(Undecided{"unresolved anchor: states of " + spec[1]})
		}
		out[p.PkgPath+"."+spec[1]] = rk
	}
	return out
}

func (rk *recKind) all() map[int64]bool {
	m := map[int64]bool{}
	for v := range rk.states {
		m[v] = true
	}
	return m
}

func (rk *recKind) setString(m map[int64]bool) string {
	var s []string
	for v := range m {
		s = append(s, rk.states[v])
	}
	sort.Strings(s)
	return "{" + strings.Join(s, ",") + "}"
}

// recordTypeOf: which lifecycle record (if any) is the struct type t (or pointer to it).
func recordTypeOf(kinds map[string]*recKind, t types.Type) *recKind {
	if p, ok := t.Underlying().(*types.Pointer); ok {
		t = p.Elem()
	}
	return kinds[t.String()]
}

// applyStateFacts narrows set by the facts (dominating conditions) about the expression stateExpr
// (a Sym string of "<record>.State") and about validator calls on recExpr.
func (l *Loaded) applyStateFacts(kinds map[string]*recKind, rk *recKind, set map[int64]bool, facts []Atom, recExpr string) {
	stateExpr := recExpr + ".State"
	for _, a := range facts {
		switch a.Op {
		case "eq", "neq":
			x, y := a.X, a.Y
			if _, isC := x.(*ssa.Const); isC {
				x, y = y, x
			}
			k, isK := constInt(y)
			if isK && Sym(x) == stateExpr {
				if a.Op == "eq" {
					for v := range set {
						if v != k {
							delete(set, v)
						}
					}
				} else {
					delete(set, k)
				}
				continue
			}
			// validator: eq(Validate*(rec), nil)
			if isNilConst(y) {
				if call, _ := callOf(x); call != nil {
					if g := call.Call.StaticCallee(); g != nil && len(call.Call.Args) >= 1 && Sym(call.Call.Args[0]) == recExpr && recordTypeOf(kinds, call.Call.Args[0].Type()) == rk {
						ns := l.validatorNilStates(kinds, rk, g)
						if ns != nil {
							for v := range set {
								if (a.Op == "eq") != ns[v] {
									delete(set, v)
								}
							}
						}
					}
				}
			}
		}
	}
}

var validatorMemo = map[*ssa.Function]map[int64]bool{}

// validatorNilStates: for a method `func (r Rec) ValidateX() error`, the set of states for which it can return nil.
func (l *Loaded) validatorNilStates(kinds map[string]*recKind, rk *recKind, g *ssa.Function) map[int64]bool {
	if m, ok := validatorMemo[g]; ok {
		return m
	}
	if g.Blocks == nil || errResultIndex(g) != 0 || len(g.Params) != 1 {
		return nil
	}
	out := map[int64]bool{}
	recExpr := Sym(g.Params[0])
	for _, r := range successReturns(g) {
		set := rk.all()
		l.applyStateFacts(kinds, rk, set, factsAt(r.Block()), recExpr)
		for v := range set {
			out[v] = true
		}
	}
	validatorMemo[g] = out
	return out
}

type stateAssign struct {
	fn      *ssa.Function
	st      *ssa.Store
	rk      *recKind
	recExpr string         // Sym of the record variable
	vals    map[int64]bool // assigned constants (nil if unresolved)
	valSym  string
	pre     map[int64]bool
	sites   []string // how the pre-state was established
	param   *ssa.Parameter
	valPar  *ssa.Parameter
	own     map[int64]bool // prior states admitted by the guards of fn itself (before the callers' guards are added)
}

// constSet: the set of constants a value can be (const, phi of consts); nil if not resolvable.
func constSet(v ssa.Value, seen map[ssa.Value]bool) map[int64]bool {
	if seen[v] {
		return map[int64]bool{}
	}
	seen[v] = true
	switch x := v.(type) {
	case *ssa.Const:
		if k, ok := constInt(x); ok {
			return map[int64]bool{k: true}
		}
	case *ssa.Phi:
		out := map[int64]bool{}
		for _, e := range x.Edges {
			s := constSet(e, seen)
			if s == nil {
				return nil
			}
			for k := range s {
				out[k] = true
			}
		}
		return out
	case *ssa.UnOp:
		// load of a local with only constant stores
		if a, ok := x.X.(*ssa.Alloc); ok {
			out := map[int64]bool{}
			for _, r := range *a.Referrers() {
				if st, ok := r.(*ssa.Store); ok && st.Addr == ssa.Value(a) {
					s := constSet(st.Val, seen)
					if s == nil {
						return nil
					}
					for k := range s {
						out[k] = true
					}
				}
			}
			if len(out) > 0 {
				return out
			}
		}
	}
	return nil
}

// paramOfAlloc: if alloc a is the spill of parameter p (first store is the parameter), return p.
func paramOfAlloc(a *ssa.Alloc) *ssa.Parameter {
	for _, r := range *a.Referrers() {
		if st, ok := r.(*ssa.Store); ok && st.Addr == ssa.Value(a) {
			if p, ok := st.Val.(*ssa.Parameter); ok {
				return p
			}
		}
	}
	return nil
}

func paramIndex(fn *ssa.Function, p *ssa.Parameter) int {
	for i, q := range fn.Params {
		if q == p {
			return i
		}
	}
	return -1
}

// callSitesOf: production call sites that may call fn (static or via interface, VTA-resolved).
func (l *Loaded) callSitesOf(fn *ssa.Function) []ssa.CallInstruction {
	var out []ssa.CallInstruction
	for _, f := range l.prodFuncs() {
		for _, call := range callsIn(f, false) {
			cc := call.Common()
			if cc.StaticCallee() == fn {
				out = append(out, call)
				continue
			}
			if cc.IsInvoke() && cc.Method.Name() == fn.Name() {
				for _, g := range l.calleesOf(call) {
					if g == fn {
						out = append(out, call)
						break
					}
				}
			}
		}
	}
	return out
}

// argFor: the argument of call corresponding to parameter index i of the callee (ssa params include the receiver).
func argFor(call ssa.CallInstruction, callee *ssa.Function, i int) ssa.Value {
	cc := call.Common()
	if i < 0 {
		return nil
	}
	if cc.IsInvoke() {
		// callee params: recv, a0, a1... ; invoke args exclude receiver
		if i == 0 {
			return cc.Value
		}
		if i-1 < len(cc.Args) {
			return cc.Args[i-1]
		}
		return nil
	}
	if i < len(cc.Args) {
		return cc.Args[i]
	}
	return nil
}

// appendSources: for a load of an element of a local slice variable (filter-then-act idiom), the values appended
// to that slice anywhere in fn or its closures, with the instruction performing the append.
func appendSources(fn *ssa.Function, elem ssa.Value) (vals []ssa.Value, sites []ssa.Instruction, ok bool) {
	if ex, isEx := elem.(*ssa.Extract); isEx {
		return mapSources(fn, ex)
	}
	u, isU := elem.(*ssa.UnOp)
	if !isU {
		return nil, nil, false
	}
	ia, isIA := u.X.(*ssa.IndexAddr)
	if !isIA {
		return nil, nil, false
	}
	ld, isLd := ia.X.(*ssa.UnOp)
	if !isLd {
		return nil, nil, false
	}
	slot, isA := ld.X.(*ssa.Alloc)
	if !isA {
		return nil, nil, false
	}
	collect := func(g *ssa.Function, addr ssa.Value) {
		eachInstr(g, func(i ssa.Instruction) {
			st, isSt := i.(*ssa.Store)
			if !isSt || st.Addr != addr {
				return
			}
			call, isC := st.Val.(*ssa.Call)
			if !isC || calleeFull(call) != "builtin.append" || len(call.Call.Args) != 2 {
				if !isNilConst(st.Val) {
					ok = false
				}
				return
			}
			if sl, isSl := call.Call.Args[1].(*ssa.Slice); isSl {
				if arr, isArr := sl.X.(*ssa.Alloc); isArr {
					for _, e := range arrayStores(arr) {
						vals = append(vals, e)
						sites = append(sites, st)
					}
					return
				}
			}
			ok = false
		})
	}
	ok = true
	collect(fn, slot)
	for _, g := range fnAndClosures(fn)[1:] {
		// find the MakeClosure binding slot
		eachInstr(fn, func(i ssa.Instruction) {
			mc, isMC := i.(*ssa.MakeClosure)
			if !isMC || mc.Fn != ssa.Value(g) {
				return
			}
			for bi, b := range mc.Bindings {
				if b == ssa.Value(slot) {
					collect(g, g.FreeVars[bi])
				}
			}
		})
	}
	if len(vals) == 0 {
		ok = false
	}
	return
}

// preStateAtCall: the set of states the record argument can have at this call site.
func (l *Loaded) preStateAtCall(kinds map[string]*recKind, rk *recKind, caller *ssa.Function, at ssa.Instruction, arg ssa.Value) (map[int64]bool, string) {
	// filter-then-act
	if vals, sites, ok := appendSources(caller, arg); ok {
		union := map[int64]bool{}
		for i, v := range vals {
			set := rk.all()
			l.applyStateFacts(kinds, rk, set, factsAt(sites[i].Block()), Sym(v))
			for k := range set {
				union[k] = true
			}
		}
		return union, "filter-then-act in " + fnName(caller)
	}
	set := rk.all()
	l.applyStateFacts(kinds, rk, set, factsAt(at.Block()), Sym(arg))
	return set, fnName(caller)
}

// stateAssignments extracts every assignment to the State field of a lifecycle record in production code,
// with the set of prior states admitted by the dominating guards (in the function and, when the record is a
// parameter, at every call site one level up).
func (l *Loaded) stateAssignments(kinds map[string]*recKind) []*stateAssign {
	var out []*stateAssign
	for _, fn := range l.prodFuncs() {
		if strings.HasSuffix(l.Fset.Position(fn.Pos()).Filename, ".pb.go") {
			continue
		}
		eachInstr(fn, func(i ssa.Instruction) {
			st, ok := i.(*ssa.Store)
			if !ok {
				return
			}
			fa, ok := st.Addr.(*ssa.FieldAddr)
			if !ok {
				return
			}
			tn, f := structFieldOf(fa)
			rk := kinds[tn]
			if rk == nil || f != "State" {
				return
			}
			if a, isA := fa.X.(*ssa.Alloc); isA && a.Comment == "complit" {
				return // construction of a new record, handled by "new" effects
			}
			sa := &stateAssign{fn: fn, st: st, rk: rk, recExpr: strings.TrimPrefix(Sym(fa.X), "&"), valSym: Sym(st.Val)}
			sa.vals = constSet(st.Val, map[ssa.Value]bool{})
			if p, isP := st.Val.(*ssa.Parameter); isP {
				sa.valPar = p
			}
			sa.pre = rk.all()
			l.applyStateFacts(kinds, rk, sa.pre, factsAt(st.Block()), sa.recExpr)
			sa.own = map[int64]bool{}
			for k := range sa.pre {
				sa.own[k] = true
			}
			if a, isA := fa.X.(*ssa.Alloc); isA {
				sa.param = paramOfAlloc(a)
			}
			out = append(out, sa)
		})
	}
	// call-site refinement
	for _, sa := range out {
		if sa.param == nil && sa.valPar == nil {
			continue
		}
		sites := l.callSitesOf(sa.fn)
		if len(sites) == 0 {
			continue
		}
		union := map[int64]bool{}
		var vals map[int64]bool
		if sa.valPar != nil {
			vals = map[int64]bool{}
		}
		for _, call := range sites {
			caller := call.Parent()
			if sa.param != nil {
				arg := argFor(call, sa.fn, paramIndex(sa.fn, sa.param))
				if arg == nil {
					continue
				}
				set, how := l.preStateDeep(kinds, sa.rk, caller, call, arg, 0)
				sa.sites = append(sa.sites, how+":"+sa.rk.setString(set))
				for k := range set {
					union[k] = true
				}
			}
			if sa.valPar != nil {
				arg := argFor(call, sa.fn, paramIndex(sa.fn, sa.valPar))
				cs := l.constSetThroughCallers(arg, 0)
				if cs == nil {
					vals = nil
				} else if vals != nil {
					for k := range cs {
						vals[k] = true
					}
				}
			}
		}
		if sa.param != nil {
			for k := range sa.pre {
				if !union[k] {
					delete(sa.pre, k)
				}
			}
		}
		if sa.valPar != nil {
			sa.vals = vals
		}
	}
	sort.Slice(out, func(i, j int) bool {
		a, b := out[i], out[j]
		if fnName(a.fn) != fnName(b.fn) {
			return fnName(a.fn) < fnName(b.fn)
		}
		return a.st.Pos() < b.st.Pos()
	})
	return out
}

// mapSources: for the value (or key) of a range over a map the function made itself, the values (keys) put into that
// map anywhere in fn or its closures, with the inserting instruction (collect-in-a-map-then-act).
func mapSources(fn *ssa.Function, ex *ssa.Extract) (vals []ssa.Value, sites []ssa.Instruction, ok bool) {
	nx, isN := ex.Tuple.(*ssa.Next)
	if !isN || (ex.Index != 1 && ex.Index != 2) {
		return nil, nil, false
	}
	rg, isR := nx.Iter.(*ssa.Range)
	if !isR {
		return nil, nil, false
	}
	// the map: a MakeMap value, or a variable holding one
	var slot *ssa.Alloc
	var mk ssa.Value
	switch m := rg.X.(type) {
	case *ssa.MakeMap:
		mk = m
	case *ssa.UnOp:
		slot, _ = m.X.(*ssa.Alloc)
	}
	if slot == nil && mk == nil {
		return nil, nil, false
	}
	isTheMap := func(g *ssa.Function, v ssa.Value) bool {
		if mk != nil {
			return v == mk
		}
		ld, isLd := v.(*ssa.UnOp)
		if !isLd {
			return false
		}
		if ld.X == ssa.Value(slot) {
			return true
		}
		if fv, isFV := ld.X.(*ssa.FreeVar); isFV {
			// captured variable: bound to slot at the closure's creation
			found := false
			eachInstr(fn, func(i ssa.Instruction) {
				mc, isMC := i.(*ssa.MakeClosure)
				if !isMC || mc.Fn != ssa.Value(g) {
					return
				}
				for bi, b := range mc.Bindings {
					if b == ssa.Value(slot) && g.FreeVars[bi] == fv {
						found = true
					}
				}
			})
			return found
		}
		return false
	}
	ok = true
	for _, g := range fnAndClosures(fn) {
		eachInstr(g, func(i ssa.Instruction) {
			mu, isMU := i.(*ssa.MapUpdate)
			if !isMU || !isTheMap(g, mu.Map) {
				return
			}
			if ex.Index == 1 {
				vals = append(vals, mu.Key)
			} else {
				vals = append(vals, mu.Value)
			}
			sites = append(sites, mu)
		})
	}
	if len(vals) == 0 {
		ok = false
	}
	return
}

// paramOfValue: v is a parameter of its function, or a load of the local a parameter was spilled to.
func paramOfValue(v ssa.Value) *ssa.Parameter {
	switch x := v.(type) {
	case *ssa.Parameter:
		return x
	case *ssa.UnOp:
		if a, ok := x.X.(*ssa.Alloc); ok {
			return paramOfAlloc(a)
		}
	}
	return nil
}

// constSetThroughCallers: the constants v can take; a value that is just the enclosing function's own parameter is
// followed to the arguments at that function's call sites (a pass-through wrapper around a shared helper).
func (l *Loaded) constSetThroughCallers(v ssa.Value, depth int) map[int64]bool {
	if cs := constSet(v, map[ssa.Value]bool{}); cs != nil {
		return cs
	}
	// the value computed by a new helper: whatever the helper can return
	if call, k := callOf(v); call != nil && depth <= 3 {
		if h := newHelperCallee(call); h != nil {
			if k < 0 {
				k = 0
			}
			out := map[int64]bool{}
			rs := helperReturns(h, k)
			if len(rs) == 0 {
				return nil
			}
			for _, hv := range rs {
				cs := l.constSetThroughCallers(hv, depth+1)
				if cs == nil {
					return nil
				}
				for kk := range cs {
					out[kk] = true
				}
			}
			return out
		}
	}
	p := paramOfValue(v)
	if p == nil || depth > 3 {
		return nil
	}
	g := p.Parent()
	sites := l.callSitesOf(g)
	if len(sites) == 0 {
		return nil
	}
	out := map[int64]bool{}
	for _, s := range sites {
		a := argFor(s, g, paramIndex(g, p))
		if a == nil {
			return nil
		}
		cs := l.constSetThroughCallers(a, depth+1)
		if cs == nil {
			return nil
		}
		for k := range cs {
			out[k] = true
		}
	}
	return out
}

// preStateDeep: preStateAtCall, continued through pass-through callers: where the record argument is the caller's own
// parameter, the states it can have are also limited by the guards at the caller's call sites.
func (l *Loaded) preStateDeep(kinds map[string]*recKind, rk *recKind, caller *ssa.Function, at ssa.Instruction, arg ssa.Value, depth int) (map[int64]bool, string) {
	set, how := l.preStateAtCall(kinds, rk, caller, at, arg)
	p := paramOfValue(arg)
	if p == nil || p.Parent() != caller || depth > 2 {
		return set, how
	}
	sites := l.callSitesOf(caller)
	if len(sites) == 0 {
		return set, how
	}
	union := map[int64]bool{}
	for _, s := range sites {
		a := argFor(s, caller, paramIndex(caller, p))
		if a == nil {
			return set, how
		}
		sub, _ := l.preStateDeep(kinds, rk, s.Parent(), s, a, depth+1)
		for k := range sub {
			union[k] = true
		}
	}
	for k := range set {
		if !union[k] {
			delete(set, k)
		}
	}
	return set, how + " <- callers of " + fnName(caller)
}
