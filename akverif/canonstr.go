package main

import (
	"go/token"
	"go/types"
	"regexp"
	"strings"

	"golang.org/x/tools/go/ssa"
)

// canonString: the text an id type's String() method produces, as a template over the receiver's fields
// ("<Owner>/<DSeq>/<GSeq>"), whatever way it is assembled: Sprintf with a constant format, concatenation,
// strconv.FormatUint / Itoa in base 10, or the String() of a projection of the receiver (id.GroupID().String()).
// ok is false when some piece is not understood.
func canonString(fn *ssa.Function, depth int) (string, bool) {
	if fn == nil || fn.Blocks == nil || depth > 16 {
		return "", false
	}
	var ret *ssa.Return
	for _, b := range fn.Blocks {
		if r, ok := b.Instrs[len(b.Instrs)-1].(*ssa.Return); ok {
			if ret != nil {
				return "", false
			}
			ret = r
		}
	}
	if ret == nil || len(ret.Results) != 1 {
		return "", false
	}
	return canonExpand(fn, ret.Results[0], depth)
}

var verbRE = regexp.MustCompile(`%[sdv]`)

func canonExpand(fn *ssa.Function, v ssa.Value, depth int) (string, bool) {
	if depth > 24 {
		return "", false
	}
	switch x := v.(type) {
	case *ssa.Const:
		if s, ok := strConst(x); ok {
			return s, true
		}
		return "", false
	case *ssa.BinOp:
		if x.Op != token.ADD {
			return "", false
		}
		a, ok1 := canonExpand(fn, x.X, depth+1)
		b, ok2 := canonExpand(fn, x.Y, depth+1)
		return a + b, ok1 && ok2
	case *ssa.MakeInterface:
		// a value formatted through its String() method (%s / %v of an id type)
		if nt, ok := x.X.Type().(*types.Named); ok && nt.Obj().Pkg() != nil && strings.HasPrefix(nt.Obj().Pkg().Path(), akash) {
			if sel := fn.Prog.MethodSets.MethodSet(nt).Lookup(nt.Obj().Pkg(), "String"); sel != nil {
				if g := fn.Prog.MethodValue(sel); g != nil && projectsReceiver(x.X) {
					return canonString(g, depth+1)
				}
			}
		}
		return canonExpand(fn, x.X, depth+1)
	case *ssa.ChangeType:
		return canonExpand(fn, x.X, depth+1)
	case *ssa.Convert:
		return canonExpand(fn, x.X, depth+1)
	case *ssa.Field:
		if p := paramOfValue(x.X); p != nil && paramIdx(p) == 0 {
			return "<" + fieldName(x.X.Type(), x.Field) + ">", true
		}
		return "", false
	case *ssa.UnOp:
		if fa, ok := x.X.(*ssa.FieldAddr); ok {
			if p := paramOfValue(fa.X); p != nil && paramIdx(p) == 0 {
				return "<" + fieldName(fa.X.Type(), fa.Field) + ">", true
			}
			if al, isA := fa.X.(*ssa.Alloc); isA {
				if p := paramOfAlloc(al); p != nil && paramIdx(p) == 0 {
					return "<" + fieldName(fa.X.Type(), fa.Field) + ">", true
				}
			}
		}
		if al, ok := x.X.(*ssa.Alloc); ok {
			if sv := singleStore(al); sv != nil {
				return canonExpand(fn, sv, depth+1)
			}
		}
		return "", false
	case *ssa.Call:
		full := calleeFull(x)
		a := x.Call.Args
		switch {
		case full == "fmt.Sprintf" && len(a) == 2:
			f, ok := strConst(a[0])
			if !ok {
				return "", false
			}
			sl, isSl := a[1].(*ssa.Slice)
			if !isSl {
				return "", false
			}
			arr, isArr := sl.X.(*ssa.Alloc)
			if !isArr {
				return "", false
			}
			vals := arrayStores(arr)
			k := 0
			okAll := true
			out := verbRE.ReplaceAllStringFunc(f, func(string) string {
				if k >= len(vals) {
					okAll = false
					return ""
				}
				s, ok := canonExpand(fn, vals[k], depth+1)
				k++
				if !ok {
					okAll = false
				}
				return s
			})
			if k != len(vals) || strings.Contains(out, "%") {
				okAll = false
			}
			return out, okAll
		case (full == "strconv.FormatUint" || full == "strconv.FormatInt") && len(a) == 2:
			if k, isK := constInt(a[1]); !isK || k != 10 {
				return "", false
			}
			return canonExpand(fn, a[0], depth+1)
		case full == "strconv.Itoa" && len(a) == 1:
			return canonExpand(fn, a[0], depth+1)
		}
		g := x.Call.StaticCallee()
		// a same-module helper applied to (a projection of) the id: what the helper renders for its own argument
		if g != nil && g.Name() != "String" && len(a) == 1 && g.Blocks != nil && strings.HasPrefix(fnPkgPath(g), akash) && g.Signature.Recv() == nil && g.Signature.Results().Len() == 1 && projectsReceiver(a[0]) {
			if b, isB := g.Signature.Results().At(0).Type().Underlying().(*types.Basic); isB && b.Kind() == types.String {
				return canonString(g, depth+1)
			}
		}
		if g != nil && g.Name() == "String" && len(a) == 1 && strings.Contains(fnPkgPath(g), akash) {
			// String() of a projection of the receiver (or of the receiver converted to a sibling id type)
			if projectsReceiver(a[0]) {
				return canonString(g, depth+1)
			}
		}
		return "", false
	}
	return "", false
}

// projectsReceiver: v is the receiver (parameter 0) or a chain of one-argument calls / conversions applied to it.
func projectsReceiver(v ssa.Value) bool {
	for d := 0; d < 6; d++ {
		if p := paramOfValue(v); p != nil {
			return paramIdx(p) == 0
		}
		switch x := v.(type) {
		case *ssa.Call:
			if len(x.Call.Args) != 1 || x.Call.IsInvoke() {
				return false
			}
			v = x.Call.Args[0]
		case *ssa.ChangeType:
			v = x.X
		case *ssa.Convert:
			v = x.X
		default:
			return false
		}
	}
	return false
}
