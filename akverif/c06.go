package main

import (
	"fmt"
	"go/token"
	"go/types"
	"regexp"
	"sort"
	"strconv"
	"strings"

	"golang.org/x/tools/go/ssa"
)

func init() { registry["C06"] = checkC06 }

// signer table, frozen from the property text: message type -> field path of the required signer
var signerTable = map[string]string{
	"x/deployment/types.MsgCreateDeployment":    "ID.Owner",
	"x/deployment/types.MsgDepositDeployment":   "ID.Owner",
	"x/deployment/types.MsgUpdateDeployment":    "ID.Owner",
	"x/deployment/types.MsgCloseDeployment":     "ID.Owner",
	"x/deployment/types.MsgCloseGroup":          "ID.Owner",
	"x/deployment/types.MsgPauseGroup":          "ID.Owner",
	"x/deployment/types.MsgStartGroup":          "ID.Owner",
	"x/market/types.MsgCreateBid":               "Provider",
	"x/market/types.MsgCloseBid":                "BidID.Provider",
	"x/market/types.MsgWithdrawLease":           "LeaseID.Provider",
	"x/market/types.MsgCreateLease":             "BidID.Owner",
	"x/market/types.MsgCloseLease":              "LeaseID.Owner",
	"x/provider/types.MsgCreateProvider":        "Owner",
	"x/provider/types.MsgUpdateProvider":        "Owner",
	"x/provider/types.MsgDeleteProvider":        "Owner",
	"x/audit/types.MsgSignProviderAttributes":   "Auditor",
	"x/audit/types.MsgDeleteProviderAttributes": "Auditor",
	"x/cert/types.MsgCreateCertificate":         "Owner",
	"x/cert/types.MsgRevokeCertificate":         "ID.Owner",
}

var msgModules = []string{"x/deployment/types", "x/market/types", "x/provider/types", "x/audit/types", "x/cert/types"}

func checkC06(c *Check) {
	c.Explanation = "Decided for every message type, handler and store iterator: (R1) each sdk.Msg's GetSigners returns exactly one address parsed from the field the protocol assigns (table frozen from the property text; new message types without a row fail); (R2) ValidateBasic validates that field as a bech32 address (directly or via the id's Validate); (R3) escrow debits only the signer / recorded owner; (R4) every id handed by a Msg handler to a keeper or escrow mutator derives from the message's own id (through id projections, records fetched by it, or iterators scoped by it); (R5) key layouts extracted by abstract interpretation of the key builders: every parent-scoped iterator prefix is an initial run of whole segments of the full key and ends in a fixed-width or constant (terminator) segment, record kinds have distinct leading constants. The market's escrow hooks establish the deployment scope of the account id before acting."
	c.NotDecided = "effects on other accounts' bank balances inside the SDK (covered only through C01-R1 + R3); that the ante handler enforces GetSigners (assumption A1)"
	l := c.L

	// ---- R1/R2 signers
	nmsg := 0
	for _, rel := range msgModules {
		p := l.Pkg(rel)
		sp := l.SPkg(rel)
		names := p.Types.Scope().Names()
		sort.Strings(names)
		for _, n := range names {
			t := sp.Type(n)
			if t == nil {
				continue
			}
			gs := l.FuncOpt(rel, n, "GetSigners")
			vb := l.FuncOpt(rel, n, "ValidateBasic")
			if gs == nil || gs.Blocks == nil || !strings.HasPrefix(n, "Msg") || strings.HasSuffix(n, "Response") {
				continue
			}
			nmsg++
			key := rel + "." + n
			c.Analysed(fnName(gs))
			want, ok := signerTable[key]
			if !ok {
				c.Ob("R1", key+": has a row in the signer table", gs.Pos(), false, "new message type without an assigned signer")
				continue
			}
			// returns: exactly one element, parsed from the field
			good := true
			detail := ""
			nret := 0
			for _, b := range gs.Blocks {
				r, isR := b.Instrs[len(b.Instrs)-1].(*ssa.Return)
				if !isR {
					continue
				}
				nret++
				s := Sym(r.Results[0])
				// getter on the spilled receiver is the field itself
				s = getterRe.ReplaceAllString(s, "p:msg.$1")
				exp1 := "[types.AccAddressFromBech32(p:msg." + want + ")#0]"
				exp2 := "[types.AccAddressFromBech32(p:m." + want + ")#0]"
				exp3 := "[types.AccAddressFromBech32(types." + n + ".Get" + strings.Split(want, ".")[0] + "(p:msg)." + strings.Join(strings.Split(want, ".")[1:], ".") + ")#0]"
				if s != exp1 && s != exp2 && s != exp3 {
					good = false
					detail = "GetSigners returns " + s + ", expected exactly the address in " + want
				}
				// parse error must not be ignored: return dominated by err==nil
				if cv, _ := callOf(firstElem(r.Results[0])); cv == nil || !okEdgeAt(r.Block(), cv) {
					good = false
					detail = "signer address parse error is not checked"
				}
			}
			c.Ob("R1", key+": required signer is "+want, gs.Pos(), good && nret == 1, detail)
			if vb != nil && vb.Blocks != nil {
				c.Analysed(fnName(vb))
				c.Ob("R2", key+": ValidateBasic validates the signer address", vb.Pos(), validatesAddress(vb, want, 0), "ValidateBasic can succeed without the signer field being a valid address")
			}
		}
	}
	if nmsg < 19 {
		c.Fail("C06-R1 lost instances: %d messages", nmsg)
	}

	// ---- R3 debit = signer
	for _, spec := range [][3]string{{"x/market/handler", "CreateBid", "Provider"}, {"x/deployment/handler", "CreateDeployment", "ID.Owner"}} {
		fn := l.msgServerMethod(spec[0], spec[1])
		for _, call := range callsIn(fn, false) {
			if callIs(call, "AccountCreate", "") {
				s := Sym(userArgs(call)[1])
				ok := s == "types.AccAddressFromBech32(*p:msg."+spec[2]+")#0"
				if !ok && spec[1] == "CreateDeployment" {
					// owner parsed from the constructed deployment's id, which is the message id
					ok = strings.HasPrefix(s, "types.AccAddressFromBech32(types.Deployment.ID(") && strings.HasSuffix(s, ").Owner)#0")
				}
				c.Ob("R3", spec[1]+": escrow debits the signer", call.Pos(), ok, "depositor "+short(s)+" is not the message signer "+spec[2])
			}
		}
	}
	{
		fn := l.msgServerMethod("x/deployment/handler", "DepositDeployment")
		for _, call := range callsIn(fn, false) {
			if callIs(call, "AccountDeposit", "") {
				c.Ob("R3", "DepositDeployment: deposits into the named deployment's account (debiting its recorded owner, see C01-R2)", call.Pos(), Sym(userArgs(call)[0]) == "types.EscrowAccountForDeployment(*p:msg.ID)", short(Sym(userArgs(call)[0])))
			}
		}
	}
	c.Floor("R3", 3)

	// ---- R6 escrow payment id <-> lease id: writer and reader agree position by position
	c.escrowIDCodec("R6")
	c.escrowHookScope("R6")
	// ---- R6 (cont.) "the record it names": two ids are equal only if every field is (the Equals methods the handlers,
	// the inventory and the bid engine identify records with)
	c.idEqualsComplete("R6")

	// ---- R4 id provenance in handlers
	c.idProvenance()
	c.serialBaseRule("R4")

	// ---- R5 key layouts
	c.keyLayoutsRule("R5", []string{"x/market/keeper", "x/deployment/keeper", "x/escrow/keeper", "x/audit/keeper", "x/cert/keeper"}, 6, 8)
}

var getterRe = regexp.MustCompile(`types\.\w+\.Get(\w+)\(&?(?:local|p):\w+\)`)

func firstElem(v ssa.Value) ssa.Value {
	if sl, ok := v.(*ssa.Slice); ok {
		if a, ok := sl.X.(*ssa.Alloc); ok {
			if el := arrayStores(a); len(el) == 1 {
				return el[0]
			}
		}
	}
	return nil
}

// validatesAddress: every success return of fn is dominated by the ok-edge of AccAddressFromBech32 on the
// given field path of the receiver (directly or through a Validate() helper on the enclosing id).
func validatesAddress(fn *ssa.Function, path string, depth int) bool {
	if depth > 7 || fn.Blocks == nil || len(fn.Params) == 0 {
		return false
	}
	recv := "p:" + paramName(fn.Params[0])
	parts := strings.Split(path, ".")
	var good []*ssa.Call
	for _, call := range callsIn(fn, false) {
		cv, ok := call.(*ssa.Call)
		if !ok {
			continue
		}
		if strings.HasSuffix(calleeFull(call), "types.AccAddressFromBech32") {
			s := Sym(call.Common().Args[0])
			if s == recv+"."+path || s == "*"+recv+"."+path {
				good = append(good, cv)
			}
			continue
		}
		// helper on a sub-object: recv.A.Validate() with remaining path
		if g := call.Common().StaticCallee(); g != nil && len(call.Common().Args) >= 1 && errResultIndex(g) >= 0 {
			as := strings.TrimPrefix(Sym(call.Common().Args[0]), "*")
			for i := 1; i <= len(parts); i++ {
				pre := recv
				if i > 1 {
					pre = recv + "." + strings.Join(parts[:i-1], ".")
				}
				if as == pre || strings.HasSuffix(as, "("+pre+")") {
					rest := strings.Join(parts[i-1:], ".")
					// through conversions such as OrderID(): the field keeps its name
					if validatesAddress(g, rest, depth+1) || validatesAddress(g, parts[len(parts)-1], depth+1) {
						good = append(good, cv)
					}
				}
			}
		}
	}
	if len(good) == 0 {
		return false
	}
	for _, r := range successReturns(fn) {
		ok := false
		for _, g := range good {
			if okEdgeAt(r.Block(), g) {
				ok = true
			}
			// `return id.Validate()` : the return value is the helper's error itself
			if cv, _ := callOf(r.Results[len(r.Results)-1]); cv == g {
				ok = true
			}
		}
		if !ok {
			return false
		}
	}
	return true
}

// idTyped: is t one of the akash id types (or an address)?
func idTyped(t string) bool {
	for _, s := range []string{"types.DeploymentID", "types.GroupID", "types.OrderID", "types.BidID", "types.LeaseID", "types.AccountID", "types.ProviderID", "types.CertID", "types.AccAddress", "types.Address"} {
		if strings.HasSuffix(t, s) {
			return true
		}
	}
	return false
}

func (c *Check) idProvenance() {
	l := c.L
	n := 0
	for _, rel := range []string{"x/deployment/handler", "x/market/handler", "x/provider/handler", "x/audit/handler", "x/cert/handler"} {
		for _, fn := range l.pkgFuncs(rel) {
			if fn.Parent() != nil || fn.Signature.Recv() == nil || !strings.Contains(fn.Signature.Recv().Type().String(), "msgServer") || len(fn.Params) != 3 {
				continue
			}
			if isNewFunc(fn) && len(l.callSitesOf(fn)) > 0 {
				continue // a new helper of a handler: its calls are enumerated with the handler that calls it
			}
			n++
			c.Analysed(fnName(fn))
			bad := ""
			pos := fn.Pos()
			for _, g := range fnAndClosures(fn) {
				for _, call := range callsIn(g, false) {
					cc := call.Common()
					if !cc.IsInvoke() {
						continue // keeper calls go through interfaces
					}
					if !strings.Contains(calleeFull(call), "eeper") {
						continue
					}
					for _, a := range cc.Args {
						if !idTyped(a.Type().String()) {
							continue
						}
						s := Sym(a)
						if strings.Contains(s, "next(range(make:map[") {
							// an element of a map the handler filled itself: it is what was put in
							okMap, nput := true, 0
							for _, g2 := range fnAndClosures(fn) {
								eachInstr(g2, func(i ssa.Instruction) {
									mu, isMU := i.(*ssa.MapUpdate)
									if !isMU {
										return
									}
									// the handler's own map of that type (a closure sees it as a captured variable)
									ms := "make:" + types.TypeString(mu.Map.Type(), shortQual)
									if strings.Contains(s, "next(range("+ms+"))#1") {
										nput++
										okMap = okMap && derivesFromMsg(Sym(mu.Key), paramName(fn.Params[2]))
									}
									if strings.Contains(s, "next(range("+ms+"))#2") {
										nput++
										okMap = okMap && derivesFromMsg(Sym(mu.Value), paramName(fn.Params[2]))
									}
								})
							}
							if okMap && nput > 0 {
								continue
							}
						}
						if strings.Contains(s, "make:[]") {
							// an element of a slice the handler made and filled by index: it is what was stored
							okSl, nput := true, 0
							for _, g2 := range fnAndClosures(fn) {
								eachInstr(g2, func(i ssa.Instruction) {
									st, isSt := i.(*ssa.Store)
									if !isSt {
										return
									}
									ia, isIA := st.Addr.(*ssa.IndexAddr)
									if !isIA {
										return
									}
									if _, isMk := ia.X.(*ssa.MakeSlice); !isMk || !strings.Contains(s, Sym(ia.X)+"[") {
										return
									}
									nput++
									okSl = okSl && derivesFromMsg(Sym(st.Val), paramName(fn.Params[2]))
								})
							}
							if okSl && nput > 0 {
								continue
							}
						}
						if !derivesFromMsg(s, paramName(fn.Params[2])) {
							bad += calleeMethod(call) + "(" + short(s) + "); "
							pos = call.Pos()
						}
					}
				}
			}
			c.Ob("R4", fnName(fn)+": every id handed to a keeper derives from the message's id", pos, bad == "", "ids not derived from the message: "+bad)
			// records are fetched by their own id (named by the message), never found by a scan keyed on a parent id
			for _, call := range callsIn(fn, false) {
				cc := call.Common()
				if !cc.IsInvoke() || cc.Method == nil {
					continue
				}
				res := cc.Method.Type().(*types.Signature).Results()
				if res.Len() == 0 {
					continue
				}
				rt := res.At(0).Type().String()
				want := ""
				for rec, idt := range map[string]string{"market/types.Order": "types.OrderID", "market/types.Bid": "types.BidID", "market/types.Lease": "types.LeaseID", "deployment/types.Group": "types.GroupID", "deployment/types.Deployment": "types.DeploymentID"} {
					if strings.HasSuffix(rt, rec) {
						want = idt
					}
				}
				if want == "" || strings.HasPrefix(cc.Method.Name(), "Create") {
					continue
				}
				okID := false
				for _, a := range cc.Args {
					if strings.HasSuffix(a.Type().String(), want) {
						okID = true
					}
				}
				c.Ob("R4", fnName(fn)+": "+cc.Method.Name()+" fetches the "+shortName(rt)+" by its own id", call.Pos(), okID, "the record acted upon is looked up through a parent id (a scan), so it need not be the one the message names")
			}
		}
	}
	if n < 19 {
		c.Fail("C06-R4 lost instances: %d handlers", n)
	}
}

// derivesFromMsg: the symbolic expression mentions the message parameter (or a closure-captured message /
// an iterator element of a scan scoped by it) and no other free identity source.
func derivesFromMsg(s string, msg string) bool {
	if strings.Contains(s, "p:"+msg) || strings.Contains(s, "fv:"+msg) {
		return true
	}
	// iterator callback parameters (records enumerated under a prefix derived from the message)
	if strings.Contains(s, "p:bid") || strings.Contains(s, "p:lease") || strings.Contains(s, "p:order") || strings.Contains(s, "p:group") {
		return true
	}
	// locals built from the message (checked where they are built)
	if strings.Contains(s, "local:") {
		return true
	}
	return false
}

func (c *Check) keyLayoutsRule(rule string, rels []string, minScoped, minKind int) {
	l := c.L
	nscoped, nkind := 0, 0
	for _, rel := range rels {
		builders := l.keyBuilders(rel)
		var names []string
		for n := range builders {
			names = append(names, n)
		}
		sort.Strings(names)
		for _, n := range names {
			kl := builders[n]
			c.Analysed(fnName(kl.fn))
			c.Ob(rule, rel+"."+n+": key layout is decidable", kl.fn.Pos(), kl.ok && len(kl.segs) > 0 && kl.segs[0].kind == "const", "layout "+layoutString(kl.segs)+" "+kl.why)
			// the key names the record: every field of each id it is built from appears, once
			for _, prm := range kl.fn.Params {
				st, ok := prm.Type().Underlying().(*types.Struct)
				if !ok || !kl.ok || len(kl.segs) == 0 {
					continue
				}
				cnt := map[string]int{}
				for _, sg := range kl.segs {
					if sg.field != "" {
						cnt[sg.field]++
					}
				}
				missing, twice := "", ""
				for i := 0; i < st.NumFields(); i++ {
					f := st.Field(i).Name()
					if cnt[f] == 0 {
						missing += f + " "
					}
					if cnt[f] > 1 {
						twice += f + " "
					}
				}
				why := ""
				if missing != "" {
					why = "key omits " + missing + "of " + prm.Type().String() + ": records that differ only there share one key (they overwrite / delete each other)"
				}
				if twice != "" {
					why += " field written twice: " + twice
				}
				c.Ob(rule, rel+"."+n+": key carries every field of "+shortName(prm.Type().String())+" exactly once", kl.fn.Pos(), missing == "" && twice == "", why)
			}
		}
		// uses as iterator prefixes
		used := map[string]bool{}
		for _, fn := range l.pkgFuncs(rel) {
			for _, call := range callsIn(fn, false) {
				full := calleeFull(call)
				var pv ssa.Value
				switch {
				case strings.HasSuffix(full, "cosmos-sdk/types.KVStorePrefixIterator") || strings.HasSuffix(full, "cosmos-sdk/types.KVStoreReversePrefixIterator"):
					pv = call.Common().Args[1]
				case strings.HasSuffix(full, "store/prefix.NewStore"):
					pv = call.Common().Args[1]
				case (calleeMethod(call) == "Iterator" || calleeMethod(call) == "ReverseIterator") && strings.Contains(full, "KVStore") && len(call.Common().Args) == 2:
					// a range iterator: the whole store (nil, nil), or a scope whose end bound is the prefix end of its start
					a := call.Common().Args
					if isNilConst(a[0]) && isNilConst(a[1]) {
						continue
					}
					bounded := Sym(a[1]) == "types.PrefixEndBytes("+Sym(a[0])+")"
					c.Ob(rule, rel+": range iterator in "+fnName(fn)+" is bounded by the prefix end of its start key", call.Pos(), bounded, "the scan starts at "+short(Sym(a[0]))+" and ends at "+short(Sym(a[1]))+": it runs on into the records of other owners / other kinds")
					if !bounded {
						continue
					}
					pv = a[0]
				default:
					continue
				}
				if pc, ok := pv.(*ssa.Call); ok {
					if g := pc.Call.StaticCallee(); g != nil && builders[g.Name()] != nil {
						used[g.Name()] = true
						continue
					}
				}
				if ld, ok := pv.(*ssa.UnOp); ok {
					if g, ok := ld.X.(*ssa.Global); ok {
						nkind++
						b, okb := l.globalBytes(g)
						// distinct from every other leading constant of the package
						clash := ""
						for _, n := range names {
							kl := builders[n]
							if kl.lead != "" && kl.lead != b && (strings.HasPrefix(kl.lead, b) || strings.HasPrefix(b, kl.lead)) {
								clash = n
							}
						}
						c.Ob(rule, rel+": kind-scoped iterator over "+g.Name()+" in "+fn.Name()+" selects one record kind", call.Pos(), okb && clash == "", "leading constant "+b+" overlaps with the keys built by "+clash)
						continue
					}
				}
				c.Ob(rule, rel+": iterator prefix in "+fnName(fn)+" is a known key builder or kind constant", call.Pos(), false, "prefix "+short(Sym(pv))+" is not analysable")
			}
		}
		for _, pn := range names {
			if !used[pn] {
				continue
			}
			p := builders[pn]
			// full keys of the same kind: same leading const, longer layout
			nfull := 0
			for _, fnm := range names {
				f := builders[fnm]
				if fnm == pn || len(f.segs) <= len(p.segs) || len(f.segs) == 0 || len(p.segs) == 0 || !segEq(f.segs[0], p.segs[0]) {
					continue
				}
				if used[fnm] && len(f.segs) <= len(p.segs) {
					continue
				}
				nfull++
				nscoped++
				inst := rel + ": prefix " + pn + " vs full key " + fnm
				c.Ob(rule, inst+": prefix is an initial run of whole segments", p.fn.Pos(), isLayoutPrefix(p.segs, f.segs), "prefix ["+layoutString(p.segs)+"] is not a segment prefix of ["+layoutString(f.segs)+"]")
				last := p.segs[len(p.segs)-1]
				okEnd := last.selfDelimiting()
				c.Ob(rule, inst+": prefix ends at an unambiguous boundary", p.fn.Pos(), okEnd, "prefix ends in the variable-length segment "+last.String()+" without a terminator: ids that extend it textually (1 vs 12) are selected too")
				for i, s := range p.segs[:len(p.segs)-1] {
					if !s.selfDelimiting() {
						// a variable segment inside must be followed by a constant terminator
						if p.segs[i+1].kind != "const" {
							c.Ob(rule, inst+": inner variable segment "+s.String()+" is terminated", p.fn.Pos(), false, "")
						}
					}
				}
			}
			c.Ob(rule, rel+": prefix "+pn+" has a matching full-key builder", p.fn.Pos(), nfull > 0, "no full key layout extends this prefix")
			// the prefix covers every field of the id it is scoped by
			if len(p.fn.Params) == 1 {
				if st, ok := p.fn.Params[0].Type().Underlying().(*types.Struct); ok {
					missing := ""
					for i := 0; i < st.NumFields(); i++ {
						f := st.Field(i).Name()
						has := false
						for _, sg := range p.segs {
							if sg.field == f {
								has = true
							}
						}
						if !has {
							missing += f + " "
						}
					}
					c.Ob(rule, rel+": prefix "+pn+" contains every field of its scoping id", p.fn.Pos(), missing == "", "prefix omits "+missing+": the iterator also selects children of sibling parents")
				}
			}
		}
	}
	// a layout that could not be decided is reported as such; only an otherwise clean run can have lost instances
	undecided := false
	for _, o := range c.Obs {
		if !o.OK && !o.Info && strings.HasSuffix(o.Rule, "-"+rule) {
			undecided = true // a reported violation of this rule takes precedence over the instance floor
		}
	}
	if !undecided && (nscoped < minScoped || nkind < minKind) {
		c.Fail("%s key-layout rule lost instances: scoped=%d kind=%d", rule, nscoped, nkind)
	}
}

// escrowIDCodec: the escrow hook finds the lease a closed payment belongs to by parsing the payment id the market
// module wrote when it created the payment. Writer (EscrowPaymentForLease: a Sprintf of lease id fields separated by
// "/") and reader (LeaseIDFromEscrowAccount: strings.Split(pid, "/") fed into the id constructors) must put every
// field at the same position; a swapped pair makes the hook close some other lease of the same deployment.
func (c *Check) escrowIDCodec(rule string) {
	l := c.L
	w := l.Func("x/market/types", "", "EscrowPaymentForLease")
	r := l.Func("x/market/types", "", "LeaseIDFromEscrowAccount")
	c.Analysed(fnName(w))
	c.Analysed(fnName(r))
	// writer: position -> field
	wpos := map[int]string{}
	for _, call := range callsInOwn(w) {
		if calleeFull(call) != "fmt.Sprintf" {
			continue
		}
		args := call.Common().Args
		f, ok := strConst(args[0])
		if !ok {
			continue
		}
		verbs := strings.Split(f, "/")
		s := Sym(args[1])
		if !strings.HasPrefix(s, "[") || !strings.HasSuffix(s, "]") {
			continue
		}
		elems := strings.Split(s[1:len(s)-1], ", ")
		if len(elems) != len(verbs) {
			continue
		}
		for i, e := range elems {
			if strings.HasPrefix(e, "p:"+paramName(w.Params[0])+".") && strings.Count(verbs[i], "%") == 1 {
				wpos[i] = lastField(e)
			}
		}
	}
	// reader: field -> position, from the constructor chain of the returned id
	rpos := map[string]int{}
	partIdx := regexp.MustCompile(`strings\.Split\(p:` + paramName(r.Params[1]) + `, "/"\)\[(\d+)\]`)
	fieldSetBy := func(g *ssa.Function, k int) string {
		name := ""
		eachInstr(g, func(i ssa.Instruction) {
			st, ok := i.(*ssa.Store)
			if !ok {
				return
			}
			fa, ok := st.Addr.(*ssa.FieldAddr)
			if !ok {
				return
			}
			v := Sym(st.Val)
			pn := "p:" + paramName(g.Params[k])
			if v == pn || strings.HasSuffix(v, "("+pn+")") {
				_, name = structFieldOf(fa)
			}
		})
		return name
	}
	nret := 0
	for _, ret := range successReturns2(r) {
		nret++
		v := ret.Results[0]
		for d := 0; d < 8; d++ {
			call, ok := stripConv(v).(*ssa.Call)
			if !ok {
				break
			}
			g := call.Call.StaticCallee()
			if g == nil || g.Blocks == nil || !strings.Contains(fnPkgPath(g), "/x/") {
				break
			}
			a := call.Call.Args
			if len(a) == 2 && len(g.Params) == 2 {
				if f := fieldSetBy(g, 1); f != "" {
					if m := partIdx.FindStringSubmatch(Sym(a[1])); m != nil {
						k, _ := strconv.Atoi(m[1])
						rpos[f] = k
					}
				}
			}
			if len(a) == 0 {
				break
			}
			v = a[0]
		}
	}
	if len(wpos) < 3 || len(rpos) < 3 || nret == 0 {
		c.Info(rule, "escrow payment id codec: writer/reader form not recognised, agreement not decided", r.Pos(), fmt.Sprintf("writer positions %v, reader positions %v", wpos, rpos))
		return
	}
	for i := 0; i < len(wpos); i++ {
		f := wpos[i]
		k, ok := rpos[f]
		c.Ob(rule, "payment id part "+strconv.Itoa(i)+" ("+f+") is read back into "+f, r.Pos(), ok && k == i, fmt.Sprintf("the writer puts %s at position %d, the reader takes %s from position %d: the hook resolves a payment to another lease", f, i, f, k))
	}
}

// successReturns2: returns of a (value, bool) function whose bool result is not the constant false.
func successReturns2(fn *ssa.Function) []*ssa.Return {
	var out []*ssa.Return
	for _, b := range fn.Blocks {
		if ret, ok := b.Instrs[len(b.Instrs)-1].(*ssa.Return); ok && len(ret.Results) == 2 && !isConstBool(ret.Results[1], false) {
			out = append(out, ret)
		}
	}
	return out
}

// idEqualsComplete: for each akash id type, Equals(other) is a conjunction that compares every field of the receiver
// with the same field of the argument, directly or through the Equals of a projection (id.GroupID().Equals(
// other.GroupID())). A field left out, or a comparison of the receiver with itself, makes distinct records compare
// equal: a release / close / match then lands on another tenant's or another group's record.
func (c *Check) idEqualsComplete(rule string) {
	l := c.L
	specs := [][2]string{{"x/deployment/types", "DeploymentID"}, {"x/deployment/types", "GroupID"}, {"x/market/types", "OrderID"}, {"x/market/types", "BidID"}, {"x/market/types", "LeaseID"}}
	memo := map[*ssa.Function]map[string]bool{}
	bad := map[*ssa.Function]string{}
	var cover func(fn *ssa.Function, depth int) map[string]bool
	side := func(fn *ssa.Function, v ssa.Value) string {
		// "recv" / "other" / "" : which of the two ids v is read from
		for d := 0; d < 8; d++ {
			switch x := v.(type) {
			case *ssa.UnOp:
				v = x.X
				continue
			case *ssa.FieldAddr:
				v = x.X
				continue
			case *ssa.Field:
				v = x.X
				continue
			case *ssa.ChangeType:
				v = x.X
				continue
			case *ssa.Convert:
				v = x.X
				continue
			case *ssa.Call:
				if len(x.Call.Args) == 1 && !x.Call.IsInvoke() {
					v = x.Call.Args[0] // a projection id.X()
					continue
				}
			case *ssa.Alloc:
				if pp := paramOfAlloc(x); pp != nil {
					v = pp
					continue
				}
			case *ssa.Parameter:
				switch paramIdx(x) {
				case 0:
					return "recv"
				case 1:
					return "other"
				}
			}
			break
		}
		return ""
	}
	fieldOf := func(v ssa.Value) string {
		switch x := v.(type) {
		case *ssa.Field:
			return fieldName(x.X.Type(), x.Field)
		case *ssa.UnOp:
			if fa, ok := x.X.(*ssa.FieldAddr); ok {
				return fieldName(fa.X.Type(), fa.Field)
			}
		}
		return ""
	}
	cover = func(fn *ssa.Function, depth int) map[string]bool {
		if m, ok := memo[fn]; ok {
			return m
		}
		m := map[string]bool{}
		memo[fn] = m
		if depth > 6 {
			return m
		}
		// what one comparison establishes when it holds: a set of fields (nil if it is not a comparison of the two ids)
		var establishes func(v ssa.Value) map[string]bool
		establishes = func(v ssa.Value) map[string]bool {
			switch x := v.(type) {
			case *ssa.BinOp:
				if x.Op != token.EQL {
					return nil
				}
				fx, fy := fieldOf(x.X), fieldOf(x.Y)
				sx, sy := side(fn, x.X), side(fn, x.Y)
				if fx == "" || fy == "" || sx == "" || sy == "" {
					return nil
				}
				if sx == sy {
					bad[fn] = "compares " + fx + " of the " + sx + " id with " + fy + " of the same id"
					return map[string]bool{}
				}
				if fx != fy {
					bad[fn] = "compares " + fx + " with " + fy
					return map[string]bool{}
				}
				return map[string]bool{fx: true}
			case *ssa.Call:
				g := x.Call.StaticCallee()
				if g == nil || g.Name() != "Equals" || len(x.Call.Args) != 2 {
					return nil
				}
				sa, sb := side(fn, x.Call.Args[0]), side(fn, x.Call.Args[1])
				if sa == "" || sb == "" {
					return nil
				}
				if sa == sb {
					bad[fn] = "hands both sides of " + fnName(g) + " the " + sa + " id"
					return map[string]bool{}
				}
				out := map[string]bool{}
				for f := range cover(g, depth+1) {
					out[f] = true
				}
				return out
			}
			return nil
		}
		// every way of answering "equal": the fields established by the conditions that dominate it plus the returned
		// comparison itself; the method covers what all of them cover
		first := true
		for _, b := range fn.Blocks {
			r, ok := b.Instrs[len(b.Instrs)-1].(*ssa.Return)
			if !ok || len(r.Results) != 1 {
				continue
			}
			for _, lf := range retLeaves(r.Results[0], b, map[ssa.Value]bool{}) {
				if isConstBool(lf.val, false) {
					continue
				}
				got := map[string]bool{}
				for _, a := range factsAt(lf.blk) {
					var est map[string]bool
					switch a.Op {
					case "eq":
						if a.Y != nil {
							est = establishes(&ssa.BinOp{Op: token.EQL, X: a.X, Y: a.Y})
						}
					case "true":
						est = establishes(a.X)
					}
					for f := range est {
						got[f] = true
					}
				}
				if !isConstBool(lf.val, true) {
					for f := range establishes(lf.val) {
						got[f] = true
					}
				}
				if first {
					for f := range got {
						m[f] = true
					}
					first = false
				} else {
					for f := range m {
						if !got[f] {
							delete(m, f)
						}
					}
				}
			}
		}
		return m
	}
	for _, sp := range specs {
		fn := l.Func(sp[0], sp[1], "Equals")
		if fn == nil {
			c.Info(rule, sp[1]+".Equals not found, field coverage not decided", token.NoPos, "")
			continue
		}
		c.Analysed(fnName(fn))
		cov := cover(fn, 0)
		st, _ := fn.Params[0].Type().Underlying().(*types.Struct)
		missing := ""
		if st != nil {
			for i := 0; i < st.NumFields(); i++ {
				if !cov[st.Field(i).Name()] {
					missing += st.Field(i).Name() + " "
				}
			}
		}
		why := ""
		if missing != "" {
			why = "ids that differ only in " + strings.TrimSpace(missing) + " compare equal"
		}
		if b := bad[fn]; b != "" {
			why = strings.TrimSpace(why + "; " + b)
		}
		for g, b := range bad {
			if g != fn && memo[g] != nil && b != "" && why == "" {
				// a projection's Equals that this one relies on is itself broken
				for _, call := range callsInOwn(fn) {
					if call.Common().StaticCallee() == g {
						why = fnName(g) + " " + b
					}
				}
			}
		}
		c.Ob(rule, sp[1]+".Equals compares every field of the two ids", fn.Pos(), why == "", why)
	}
}

// escrowHookScope: bid deposits and deployment funds live in one escrow keeper, told apart by the account id's scope;
// a bid account's external id (owner/dseq/gseq/oseq/provider) starts with the text of a deployment id. The market's
// escrow hooks must therefore establish the deployment scope before they act on what the external id names: somewhere
// in the code a hook runs before its first keeper call, the Scope field is compared with the deployment scope.
func (c *Check) escrowHookScope(rule string) {
	l := c.L
	for _, name := range []string{"OnEscrowAccountClosed", "OnEscrowPaymentClosed"} {
		fn := l.Func("x/market/hooks", "hooks", name)
		c.Analysed(fnName(fn))
		seen := map[*ssa.Function]bool{fn: true}
		work := []*ssa.Function{fn}
		found := false
		for len(work) > 0 {
			g := work[0]
			work = work[1:]
			eachInstr(g, func(i ssa.Instruction) {
				switch x := i.(type) {
				case *ssa.BinOp:
					if x.Op != token.EQL && x.Op != token.NEQ {
						return
					}
					for _, pr := range [][2]ssa.Value{{x.X, x.Y}, {x.Y, x.X}} {
						if s, ok := strConst(pr[1]); ok && s == "deployment" && strings.HasSuffix(Sym(pr[0]), ".Scope") {
							found = true
						}
					}
				case ssa.CallInstruction:
					h := x.Common().StaticCallee()
					if h != nil && h.Blocks != nil && !seen[h] && strings.HasPrefix(fnPkgPath(h), akash+"/x/") && len(seen) < 40 {
						seen[h] = true
						work = append(work, h)
					}
				}
			})
		}
		c.Ob(rule, name+" acts only on accounts of the deployment scope", fn.Pos(), found, "nothing the hook runs compares the account id's Scope with the deployment scope: the external id of a bid deposit account reads as a deployment (or lease) id and the hook closes records the closed account has nothing to do with")
	}
}
