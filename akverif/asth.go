package main

import (
	"go/ast"
)

type astExpr = ast.Expr
type astCompositeLit = ast.CompositeLit

// astInspectKV calls f for every key/value pair of every composite literal in n.
func astInspectKV(n ast.Node, f func(k, v ast.Expr)) {
	ast.Inspect(n, func(x ast.Node) bool {
		if kv, ok := x.(*ast.KeyValueExpr); ok {
			f(kv.Key, kv.Value)
		}
		return true
	})
}

// astInspectKVFile: key/value pairs of the composite literal initialising package var `name`.
func astInspectKVFile(file *ast.File, name string, f func(k, v ast.Expr)) {
	for _, d := range file.Decls {
		gd, ok := d.(*ast.GenDecl)
		if !ok {
			continue
		}
		for _, s := range gd.Specs {
			vs, ok := s.(*ast.ValueSpec)
			if !ok {
				continue
			}
			for i, n := range vs.Names {
				if n.Name == name && i < len(vs.Values) {
					astInspectKV(vs.Values[i], f)
				}
			}
		}
	}
}
