package main

import (
	"go/constant"
	"go/token"
	"go/types"
	"sort"
	"strings"

	"golang.org/x/tools/go/ssa"
)

func init() { registry["C16"] = checkC16 }

type emitInfo struct {
	typ    *types.Named
	fn     *ssa.Function
	action string
	module string
	evType string
	keys   map[string]string // key -> value class
}

func strConst(v ssa.Value) (string, bool) {
	c, ok := v.(*ssa.Const)
	if !ok || c.Value == nil || c.Value.Kind() != constant.String {
		return "", false
	}
	return constant.StringVal(c.Value), true
}

// samePkgReach: fn plus same-package functions reachable by static calls.
func samePkgReach(fn *ssa.Function) []*ssa.Function {
	seen := map[*ssa.Function]bool{fn: true}
	out := []*ssa.Function{fn}
	for i := 0; i < len(out); i++ {
		for _, call := range callsIn(out[i], true) {
			g := call.Common().StaticCallee()
			if g == nil || g.Blocks == nil || seen[g] || fnPkgPath(g) != fnPkgPath(fn) {
				continue
			}
			seen[g] = true
			out = append(out, g)
		}
	}
	return out
}

func emitClass(v ssa.Value) string {
	s := Sym(v)
	switch {
	case strings.Contains(s, "strconv.FormatUint("):
		return "uint64"
	case strings.Contains(s, "Int.String("):
		return "bigint"
	case strings.Contains(s, "encodeHex("):
		return "hex"
	}
	return "string" // bech32 addresses are carried as strings
}

func (l *Loaded) emitInfos(rel string) []*emitInfo {
	p := l.Pkg(rel)
	var out []*emitInfo
	sc := p.Types.Scope()
	for _, n := range sc.Names() {
		tn, ok := sc.Lookup(n).(*types.TypeName)
		if !ok {
			continue
		}
		nt, ok := tn.Type().(*types.Named)
		if !ok {
			continue
		}
		var m *types.Func
		for i := 0; i < nt.NumMethods(); i++ {
			if nt.Method(i).Name() == "ToSDKEvent" {
				m = nt.Method(i)
			}
		}
		if m == nil {
			continue
		}
		fn := l.Prog.FuncValue(m)
		if fn == nil || fn.Blocks == nil {
			continue
		}
		ei := &emitInfo{typ: nt, fn: fn, keys: map[string]string{}}
		reach := samePkgReach(fn)
		// strVia: a string constant, or a parameter of a shared helper bound to one constant at the call sites
		// that this event's ToSDKEvent reaches
		var strVia func(v ssa.Value, d int) (string, bool)
		strVia = func(v ssa.Value, d int) (string, bool) {
			if s, ok := strConst(v); ok {
				return s, true
			}
			par, isPar := v.(*ssa.Parameter)
			if !isPar || d > 3 {
				return "", false
			}
			idx := -1
			for i, q := range par.Parent().Params {
				if q == par {
					idx = i
				}
			}
			found, val := false, ""
			for _, h := range reach {
				for _, call := range callsIn(h, false) {
					if call.Common().StaticCallee() != par.Parent() || call.Common().IsInvoke() || idx >= len(call.Common().Args) {
						continue
					}
					s, ok := strVia(call.Common().Args[idx], d+1)
					if !ok || (found && s != val) {
						return "", false
					}
					found, val = true, s
				}
			}
			return val, found
		}
		for _, g := range reach {
			for _, call := range callsIn(g, false) {
				full := calleeFull(call)
				if strings.HasSuffix(full, "cosmos-sdk/types.NewAttribute") {
					k, ok := strConst(call.Common().Args[0])
					if !ok {
						switch Sym(call.Common().Args[0]) {
						case "g:types.AttributeKeyAction":
							k, ok = "action", true
						case "g:types.AttributeKeyModule":
							k, ok = "module", true
						}
					}
					if !ok {
						ei.keys["<non-constant key "+Sym(call.Common().Args[0])+">"] = "?"
						continue
					}
					switch k {
					case "action":
						ei.action, _ = strVia(call.Common().Args[1], 0)
					case "module":
						ei.module, _ = strVia(call.Common().Args[1], 0)
					default:
						ei.keys[k] = emitClass(call.Common().Args[1])
					}
				}
				if strings.HasSuffix(full, "cosmos-sdk/types.NewEvent") && g == fn {
					ei.evType, _ = strConst(call.Common().Args[0])
				}
			}
		}
		out = append(out, ei)
	}
	return out
}

type parseCase struct {
	action string
	pos    ssa.Instruction
	typ    string            // constructed type
	keys   map[string]string // key -> parse class
}

func parseClass(call *ssa.Call) string {
	switch calleeMethod(call) {
	case "GetUint64":
		return "uint64"
	case "GetAccAddress":
		return "string"
	}
	// GetString: look at how the result is consumed in the same function
	cls := "string"
	fn := call.Parent()
	for _, c2 := range callsIn(fn, false) {
		for _, a := range c2.Common().Args {
			if strings.Contains(Sym(a), Sym(call)) {
				switch {
				case strings.HasSuffix(calleeFull(c2), "NewIntFromString"):
					cls = "bigint"
				case calleeMethod(c2) == "decodeHex":
					cls = "hex"
				case strings.HasSuffix(calleeFull(c2), "AccAddressFromBech32"):
					cls = "string"
				case strings.HasSuffix(calleeFull(c2), "strconv.ParseUint"):
					cls = "uint64"
				}
			}
		}
	}
	return cls
}

func (l *Loaded) parseCases(rel string) (map[string]*parseCase, *ssa.Function) {
	fn := l.Func(rel, "", "ParseEvent")
	out := map[string]*parseCase{}
	for _, b := range fn.Blocks {
		ifi, ok := b.Instrs[len(b.Instrs)-1].(*ssa.If)
		if !ok {
			continue
		}
		bo, ok := ifi.Cond.(*ssa.BinOp)
		if !ok || bo.Op.String() != "==" {
			continue
		}
		act, ok := strConst(bo.Y)
		x := bo.X
		if !ok {
			act, ok = strConst(bo.X)
			x = bo.Y
		}
		if !ok || !strings.HasSuffix(Sym(x), "ev.Action") {
			continue
		}
		pc := &parseCase{action: act, pos: ifi, keys: map[string]string{}}
		caseBlk := b.Succs[0]
		for _, d := range fn.Blocks {
			if !edgeDominates(b, caseBlk, d) {
				continue
			}
			for _, in := range d.Instrs {
				switch x := in.(type) {
				case *ssa.Return:
					if mi, ok := x.Results[0].(*ssa.MakeInterface); ok {
						pc.typ = mi.X.Type().String()
					} else if hc, k := callOf(x.Results[0]); hc != nil {
						// the case body was moved into a new helper: the event it hands back
						if g := newHelperCallee(hc); g != nil {
							if k < 0 {
								k = 0
							}
							for _, hv := range helperReturns(g, k) {
								if mi, ok := hv.(*ssa.MakeInterface); ok {
									pc.typ = mi.X.Type().String()
								}
							}
						}
					}
				case *ssa.Call:
					// collect Get* keys transitively
					var fs []*ssa.Function
					if g := x.Call.StaticCallee(); g != nil && g.Blocks != nil && fnPkgPath(g) == fnPkgPath(fn) {
						fs = samePkgReach(g)
					}
					collect := func(c2 ssa.CallInstruction) {
						if strings.Contains(calleeFull(c2), "akash/sdkutil.Get") {
							if k, ok := strConst(c2.Common().Args[1]); ok {
								pc.keys[k] = parseClass(c2.(*ssa.Call))
							}
						}
					}
					collect(x)
					for _, g := range fs {
						for _, c2 := range callsIn(g, false) {
							collect(c2)
						}
					}
				}
			}
		}
		out[act] = pc
	}
	return out, fn
}

var eventModules = []string{"x/deployment/types", "x/market/types", "x/provider/types", "x/audit/types"}

// ---- effects in keepers -----------------------------------------------------------------

type effect struct {
	typ  string // record type (full)
	kind string // "new", "update", "delete", or state constant name
	site ssa.Instruction
	obj  string // Sym of the object persisted
	objv ssa.Value
}

// persistsValueParam: fn calls KVStore.Set with a value marshalled from the address of a (spilled) parameter.
func persistsValueParam(fn *ssa.Function) *ssa.Parameter {
	if fn.Blocks == nil {
		return nil
	}
	for _, call := range callsIn(fn, false) {
		if !isStoreSet(call) {
			continue
		}
		obj := marshalledObj(call)
		if a, ok := obj.(*ssa.Alloc); ok {
			if p := paramOfAlloc(a); p != nil {
				return p
			}
		}
	}
	return nil
}

func marshalledObj(set ssa.CallInstruction) ssa.Value {
	args := set.Common().Args
	if len(args) != 2 {
		return nil
	}
	m, ok := args[1].(*ssa.Call)
	if !ok || !strings.HasPrefix(calleeMethod(m), "MustMarshal") {
		return nil
	}
	margs := m.Common().Args
	if len(margs) == 0 {
		return nil
	}
	return stripConv(margs[len(margs)-1])
}

var evPairs = map[string]map[string]string{
	"x/market/types.Order":          {"new": "EventOrderCreated", "OrderClosed": "EventOrderClosed", "OrderActive": ""},
	"x/market/types.Bid":            {"new": "EventBidCreated", "BidClosed": "EventBidClosed", "BidActive": "", "BidLost": ""},
	"x/market/types.Lease":          {"new": "EventLeaseCreated", "LeaseClosed": "EventLeaseClosed", "LeaseInsufficientFunds": "EventLeaseClosed"},
	"x/deployment/types.Deployment": {"new": "EventDeploymentCreated", "update": "EventDeploymentUpdated", "DeploymentClosed": "EventDeploymentClosed"},
	"x/deployment/types.Group":      {"new": "", "GroupClosed": "EventGroupClosed", "GroupInsufficientFunds": "EventGroupClosed", "GroupPaused": "EventGroupPaused", "GroupOpen": "EventGroupStarted", "update": ""},
	"x/provider/types.Provider":     {"new": "EventProviderCreated", "update": "EventProviderUpdated", "delete": "EventProviderDeleted"},
	"x/audit/types.Provider":        {"new": "EventTrustedAuditorCreated", "update": "EventTrustedAuditorCreated", "delete": "EventTrustedAuditorDeleted"},
}

// effectsOf lists the persisted effects of a keeper function (direct Set calls and calls of persisting helpers).
func (c *Check) effectsOf(kinds map[string]*recKind, fn *ssa.Function, stateOf map[*ssa.Function][]*stateAssign) []effect {
	var out []effect
	states := func(objAlloc ssa.Value, owner *ssa.Function, write ssa.Instruction) []string {
		var ks []string
		for owner != nil && owner.Parent() != nil {
			owner = owner.Parent()
		}
		sas := stateOf[fn]
		if owner != nil && owner != fn {
			sas = stateOf[owner] // the write (and the state it persists) sits in a new helper of fn
		}
		for _, sa := range sas {
			fa := sa.st.Addr.(*ssa.FieldAddr)
			if fa.X == objAlloc {
				if isConstruction(sa) {
					continue
				}
				vals := sa.vals
				if sa.valPar != nil && owner != nil && owner != fn {
					// the helper assigns the state it is handed: for THIS function that is the argument at its own call
					vals = nil
					if site, ok := liftTo(fn, write).(ssa.CallInstruction); ok && site.Common().StaticCallee() == owner {
						if arg := argFor(site, owner, paramIndex(owner, sa.valPar)); arg != nil {
							vals = c.L.constSetThroughCallers(arg, 0)
						}
					}
				}
				if vals == nil {
					ks = append(ks, "?")
				}
				for k := range vals {
					ks = append(ks, sa.rk.states[k])
				}
			}
		}
		sort.Strings(ks)
		return ks
	}
	deletes := false
	for _, call := range callsIn(fn, false) {
		if calleeMethod(call) == "Delete" && strings.Contains(calleeFull(call), "KVStore") {
			deletes = true // a function that removes the key is a delete path; a partial rewrite is part of it
		}
	}
	for _, call := range callsIn(fn, false) {
		var obj ssa.Value
		if isStoreSet(call) {
			obj = marshalledObj(call)
		} else if g := call.Common().StaticCallee(); g != nil && fnPkgPath(g) == fnPkgPath(fn) {
			if p := persistsValueParam(g); p != nil && g != fn && !(isNewFunc(g) && g.Parent() == nil) { // (a new helper's own Set is already in the scan)
				a := argFor(call, g, paramIndex(g, p))
				// argument is a load of the local record variable
				if u, ok := a.(*ssa.UnOp); ok {
					obj = u.X
				} else if a != nil {
					obj = a
				}
			}
		} else if calleeMethod(call) == "Delete" && strings.Contains(calleeFull(call), "KVStore") {
			out = append(out, effect{typ: relPkg(strings.TrimSuffix(fnPkgPath(fn), "/keeper")) + "/types.Provider", kind: "delete", site: call, obj: Sym(call.Common().Args[0])})
			continue
		}
		if obj == nil {
			continue
		}
		t := obj.Type()
		if p, ok := t.Underlying().(*types.Pointer); ok {
			t = p.Elem()
		}
		typ := relPkg(t.String())
		if _, ok := evPairs[typ]; !ok {
			continue
		}
		ks := states(obj, call.Parent(), call)
		kind := "update"
		if a, ok := obj.(*ssa.Alloc); ok {
			whole := false
			for _, r := range *a.Referrers() {
				if st, ok := r.(*ssa.Store); ok && st.Addr == ssa.Value(a) {
					whole = true
				}
			}
			if !whole {
				kind = "new"
			}
		}
		// a write behind !store.Has(..) creates, behind store.Has(..) updates
		hasFact := func(want bool) bool {
			isHas := func(h *ssa.Call, _ int) bool { return calleeMethod(h) == "Has" }
			if boolCallFactAt(call.Block(), want, isHas) {
				return true
			}
			// the write sits in a new helper shared by several callers: the guard is at this caller's call of it
			if call.Parent() != fn {
				if li := liftTo(fn, call); li != nil && li.Parent() == fn {
					return boolCallFactAt(li.Block(), want, isHas)
				}
			}
			return false
		}
		if hasFact(false) {
			kind = "new"
		} else if hasFact(true) {
			kind = "update"
		}
		if deletes {
			kind = "delete"
		}
		if len(ks) > 0 {
			for _, k := range ks {
				out = append(out, effect{typ: typ, kind: k, site: call, obj: Sym(obj), objv: obj})
			}
			continue
		}
		out = append(out, effect{typ: typ, kind: kind, site: call, obj: Sym(obj), objv: obj})
	}
	return out
}

// emitsOf: EmitEvent(T.ToSDKEvent(..)) calls of fn with the event type name.
func emitsOf(fn *ssa.Function) map[ssa.Instruction]string {
	out := map[ssa.Instruction]string{}
	for _, call := range callsIn(fn, false) {
		if calleeMethod(call) != "EmitEvent" && calleeMethod(call) != "EmitEvents" {
			continue
		}
		t := "?"
		if len(call.Common().Args) > 0 {
			if inner, ok := call.Common().Args[len(call.Common().Args)-1].(*ssa.Call); ok && calleeMethod(inner) == "ToSDKEvent" {
				if g := inner.Call.StaticCallee(); g != nil && g.Signature.Recv() != nil {
					if nt, ok := g.Signature.Recv().Type().(*types.Named); ok {
						t = nt.Obj().Name()
					}
				}
			}
		}
		out[call] = t
	}
	return out
}

func checkC16(c *Check) {
	c.Explanation = "Decided for every event type, parser case and keeper path: (R1) emit/parse codec tables agree per module — every event type's action has a ParseEvent case that constructs that same type, reads exactly the attribute keys the emitter writes, with the same value class per key (uint64 / big integer / hex / address / string), module and event-type constants agree; (R2) in every keeper function, on every nil-error path, a record is persisted as new / with a given state iff exactly the paired event type is emitted (record kind + state -> event table from the property), with the event id taken from the persisted object; events of a lifecycle type are emitted nowhere else; (R4) KVStore writes happen only in keeper packages; (R5) the provider's event dispatcher consults all four module parsers; (R6) no stale record is written after a call that can fire escrow hooks (source of duplicate events); (R7) for every state assignment in an event-emitting keeper function the prior states admitted by its own guards and those of every call site exclude the assigned state (no closed/paused/started event for a record already in that state; one frozen cross-record exception)."
	c.NotDecided = "numeric round trip of ids/prices through the string codec beyond the value class; that a given transaction reaches the emitting function"
	l := c.L

	// ---- R1 codec tables
	nact := 0
	for _, rel := range eventModules {
		modName := l.constVal(rel, "ModuleName")
		cases, pf := l.parseCases(rel)
		c.Analysed(fnName(pf))
		seen := map[string]bool{}
		for _, ei := range l.emitInfos(rel) {
			c.Analysed(fnName(ei.fn))
			nact++
			tname := ei.typ.Obj().Name()
			inst := relPkg(rel) + "." + tname
			c.Ob("R1", inst+": writes module, action and the akash event type", ei.fn.Pos(), ei.action != "" && ei.module == constant.StringVal(modName) && ei.evType == "akash.v1", "module="+ei.module+" action="+ei.action+" type="+ei.evType)
			if seen[ei.action] {
				c.Ob("R1", inst+": action unique within module", ei.fn.Pos(), false, "two event types emit action "+ei.action)
			}
			seen[ei.action] = true
			pc := cases[ei.action]
			c.Ob("R1", inst+": ParseEvent has a case for action "+ei.action, ei.fn.Pos(), pc != nil, "emitted event cannot be decoded by the provider: ParseEvent returns 'Unknown action' for "+ei.action)
			if pc == nil {
				continue
			}
			c.Ob("R1", inst+": parser case constructs the same type", posOr(pc.pos.Pos(), pf.Pos()), pc.typ == ei.typ.String(), "case "+ei.action+" constructs "+pc.typ)
			var ek, pk []string
			for k := range ei.keys {
				ek = append(ek, k)
			}
			for k := range pc.keys {
				pk = append(pk, k)
			}
			sort.Strings(ek)
			sort.Strings(pk)
			c.Ob("R1", inst+": parsed attribute keys == emitted attribute keys", posOr(pc.pos.Pos(), pf.Pos()), strings.Join(ek, ",") == strings.Join(pk, ","), "emitted ["+strings.Join(ek, ",")+"] parsed ["+strings.Join(pk, ",")+"]")
			for _, k := range ek {
				if pcl, ok := pc.keys[k]; ok {
					c.Ob("R1", inst+": attribute "+k+" decoded with the class it is encoded in", posOr(pc.pos.Pos(), pf.Pos()), pcl == ei.keys[k], "encoded as "+ei.keys[k]+" but decoded as "+pcl)
				}
			}
		}
		for a, pc := range cases {
			if !seen[a] {
				c.Ob("R1", relPkg(rel)+": parser case "+a+" has an emitting type", posOr(pc.pos.Pos(), pf.Pos()), false, "ParseEvent handles an action no event type emits")
			}
		}
	}
	if nact < 17 {
		c.Fail("C16-R1 lost instances: %d event types", nact)
	}

	// value range of the numeric decoders (shared with C05-R2)
	c.parseWidthRule("R1")

	// ---- R2 emit <=> write
	kinds := l.recordKinds()
	sas := l.stateAssignments(kinds)
	stateOf := map[*ssa.Function][]*stateAssign{}
	for _, sa := range sas {
		stateOf[sa.fn] = append(stateOf[sa.fn], sa)
	}
	pairsUndecided := 0
	npairs := 0
	lifecycleEvents := map[string]bool{}
	for _, m := range evPairs {
		for _, e := range m {
			if e != "" {
				lifecycleEvents[e] = true
			}
		}
	}
	for _, rel := range []string{"x/market/keeper", "x/deployment/keeper", "x/provider/keeper", "x/audit/keeper"} {
		for _, fn := range l.pkgFuncs(rel) {
			if fn.Parent() != nil || (isNewFunc(fn) && len(l.callSitesOf(fn)) > 0) {
				continue // a new helper's writes and emits are accounted with the pinned function that calls it
			}
			effs := c.effectsOf(kinds, fn, stateOf)
			emits := emitsOf(fn)
			if len(effs) == 0 && len(emits) == 0 {
				continue
			}
			// skip pure persisting helpers (updateX): they are accounted at their call sites
			if persistsValueParam(fn) != nil && len(emits) == 0 && len(stateOf[fn]) == 0 && (strings.HasPrefix(fn.Name(), "update") || strings.HasPrefix(fn.Name(), "save")) {
				continue
			}
			c.Analysed(fnName(fn))
			usedEmit := map[ssa.Instruction]bool{}
			// group effects by paired event type
			byEv := map[string][]effect{}
			for _, e := range effs {
				ev, known := evPairs[e.typ][e.kind]
				if !known {
					c.Ob("R2", fnName(fn)+": "+e.typ+" persisted as "+e.kind+" has a row in the event table", e.site.Pos(), false, "record change with no entry in the lifecycle-event table")
					continue
				}
				if ev == "" {
					continue
				}
				byEv[ev] = append(byEv[ev], e)
			}
			var evs []string
			for ev := range byEv {
				evs = append(evs, ev)
			}
			sort.Strings(evs)
			for _, ev := range evs {
				es := byEv[ev]
				npairs++
				var sets []ssa.Instruction
				seenSite := map[ssa.Instruction]bool{}
				for _, e := range es {
					if !seenSite[e.site] {
						seenSite[e.site] = true
						sets = append(sets, e.site)
					}
				}
				var ems []ssa.Instruction
				for in, t := range emits {
					if t == ev {
						ems = append(ems, in)
						usedEmit[in] = true
					}
				}
				inst := fnName(fn) + ": " + es[0].typ + " " + kindsOf(es) + " <=> " + ev
				isSet := func(in ssa.Instruction) bool {
					for _, s := range sets {
						if s == in {
							return true
						}
					}
					return false
				}
				isEmit := func(in ssa.Instruction) bool {
					for _, s := range ems {
						if s == in {
							return true
						}
					}
					return false
				}
				ok := len(ems) > 0
				if !ok {
					unknown := false
					for _, et := range emits {
						if et == "?" {
							unknown = true
						}
					}
					if unknown {
						// an event is emitted whose type is chosen elsewhere (a helper picks it): whether it is this one is not decided
						c.Info("R2", inst+": the emitted event's type is not visible at the emit site, pairing not decided", sets[0].Pos(), "")
						continue
					}
				}
				detail := "record change is persisted but " + ev + " is never emitted in this function"
				if ok {
					detail = ""
					for _, r := range successReturns(fn) {
						// a path through a write that avoids every emit, or through an emit that avoids every write
						for _, s := range sets {
							if reachableFrom(s, r) && !mustPass(fn, r, isEmit) && !(mustPassFrom(fn, s, r, isEmit) || mustPassTo(fn, s, isEmit)) {
								ok = false
								detail = "a nil-error path persists the change without emitting " + ev
							}
						}
						for _, e := range ems {
							if reachableFrom(e, r) && !(mustPassFrom(fn, e, r, isSet) || mustPassTo(fn, e, isSet)) {
								ok = false
								detail = ev + " is emitted on a nil-error path that does not persist the change"
							}
						}
					}
					// exactly one: emits are not more numerous than writes, and no emit is in a loop that the write is not in
					if len(ems) > len(sets) {
						ok = false
						detail = ev + " emitted at more sites than the change is written"
					}
					for _, e := range ems {
						if h := loopHeaderOf(e.Block()); h != nil {
							inLoop := false
							for _, s := range sets {
								if loopHeaderOf(s.Block()) == h {
									inLoop = true
								}
							}
							if !inLoop {
								ok = false
								detail = ev + " emitted inside a loop the write is not part of"
							}
						}
					}
				}
				c.Ob("R2", inst, sets[0].Pos(), ok, detail)
				// R3 id agreement: event constructor argument derives from the persisted object's ID
				for _, e := range ems {
					call := e.(ssa.CallInstruction)
					inner := call.Common().Args[len(call.Common().Args)-1].(*ssa.Call)
					evs := Sym(inner)
					okid := false
					for _, ef := range es {
						o := strings.TrimPrefix(ef.obj, "&")
						if strings.HasPrefix(o, "local:") {
							// a spilled parameter is the same object
							evs = strings.ReplaceAll(evs, "p:"+strings.TrimPrefix(o, "local:"), o)
						}
						if strings.Contains(evs, ".ID("+o+")") || strings.Contains(evs, ".ID(*"+o+")") || strings.Contains(evs, o+".") || strings.Contains(evs, "p:id.") || strings.Contains(evs, "(p:id)") {
							okid = true
						}
						// provider: owner parsed from the persisted provider's Owner
						if strings.Contains(evs, "AccAddressFromBech32("+o+".Owner)") {
							okid = true
						}
						// the write and the emit sit in different new helpers of this function: the same record once the
						// helpers' parameters are followed to the arguments they were called with
						if !okid && ef.objv != nil && len(ctorArgsOf(inner)) > 0 {
							if idc, isC := ctorArgsOf(inner)[0].(*ssa.Call); isC && calleeMethod(idc) == "ID" && len(idc.Call.Args) == 1 {
								rootOf := func(v ssa.Value) string {
									if al, isA := v.(*ssa.Alloc); isA {
										if pp := paramOfAlloc(al); pp != nil {
											v = pp
										}
									}
									r := recordRoot(v)
									s := strings.TrimPrefix(strings.TrimPrefix(Sym(r), "&"), "*")
									if in, isI := r.(ssa.Instruction); isI && in.Parent() != nil {
										return fnName(in.Parent()) + ":" + s
									}
									if pp, isP := r.(*ssa.Parameter); isP {
										return fnName(pp.Parent()) + ":" + s
									}
									return s
								}
								if a, b := rootOf(idc.Call.Args[0]), rootOf(ef.objv); a == b && (idc.Parent() != fn || ef.site.Parent() != fn) {
									okid = true
								}
							}
						}
						// the id comes out of a new helper shared by several callers: read what the helper returns at that
						// position, with its parameter standing for the argument of this call
						if len(ctorArgsOf(inner)) > 0 {
							if ex, isEx := callerValue(ctorArgsOf(inner)[0]).(*ssa.Extract); isEx {
								if hc, isHC := ex.Tuple.(*ssa.Call); isHC {
									if g := newHelperCallee(hc); g != nil {
										bare := func(s string) string {
											return strings.TrimPrefix(strings.TrimPrefix(strings.TrimPrefix(s, "&"), "local:"), "p:")
										}
										for _, rv := range helperReturns(g, ex.Index) {
											rs := Sym(rv)
											for pi, prm := range g.Params {
												if pi < len(hc.Call.Args) && strings.Contains(rs, "AccAddressFromBech32(p:"+paramName(prm)+".Owner)") && bare(Sym(hc.Call.Args[pi])) == bare(o) {
													okid = true
												}
											}
										}
									}
								}
							}
						}
						// the expression the persisted object's id field was initialised with, written out again
						ctorCall := inner
						if len(inner.Call.Args) > 0 && calleeMethod(inner) == "ToSDKEvent" {
							if cc, _ := callOf(inner.Call.Args[0]); cc != nil {
								ctorCall = cc
							}
						}
						if len(ctorCall.Call.Args) > 0 {
							idArg := Sym(ctorCall.Call.Args[0])
							eachInstr(fn, func(i ssa.Instruction) {
								if st, isS := i.(*ssa.Store); isS {
									a := Sym(st.Addr)
									if strings.HasPrefix(a, "&"+o+".") && strings.HasSuffix(a, "ID") && !strings.Contains(strings.TrimPrefix(a, "&"+o+"."), ".") && Sym(st.Val) == idArg {
										okid = true
									}
								}
							})
						}
					}
					c.Ob("R3", fnName(fn)+": "+ev+" identifies the persisted object", e.Pos(), okid, "event built from "+short(evs)+" but the persisted object is "+es[0].obj)
				}
			}
			// emits of lifecycle types without a paired write in this function
			for in, t := range emits {
				if !usedEmit[in] && t == "?" {
					// the event is not built in place (it comes out of a helper): its type, and so its pairing, is not decided
					c.Info("R2", fnName(fn)+": an event of a type that is not visible at the emit site is emitted, pairing not decided", in.Pos(), "")
					pairsUndecided++
					continue
				}
				if !usedEmit[in] && lifecycleEvents[t] {
					c.Ob("R2", fnName(fn)+": "+t+" emitted only together with its record change", in.Pos(), false, t+" is emitted but no corresponding record change is persisted in this function")
				}
			}
		}
	}
	c.eventSwitchExhaustive("R2", []string{"x/deployment/keeper", "x/market/keeper", "x/provider/keeper", "x/audit/keeper"})
	if npairs < 16-pairsUndecided {
		c.Fail("C16-R2 lost instances: %d pairs", npairs)
	}
	// events emitted on a branched context are lost: sdk.Context.CacheContext() comes with a fresh event manager, so
	// whatever keepers and hooks emit below it never reaches the transaction even though the writes are committed
	ncc := 0
	for _, fn := range l.prodFuncs() {
		p := relPkg(fnPkgPath(fn))
		if !strings.HasPrefix(p, "x/") || strings.Contains(p, "/client") || strings.Contains(p, "/simulation") {
			continue
		}
		for _, call := range callsInOwn(fn) {
			if m := calleeMethod(call); (m == "CacheContext" || m == "WithEventManager") && strings.Contains(calleeFull(call), "cosmos-sdk/types.Context") {
				ncc++
				c.Ob("R2", "context branched / event manager replaced in "+fnName(fn), call.Pos(), false, "state changes made under this context are committed but their events are discarded: the transaction's events no longer describe what it changed")
			}
		}
	}
	c.Ob("R2", "module code never branches the context or swaps the event manager (see violations otherwise)", token.NoPos, ncc == 0, "")
	// lifecycle events are emitted only from keepers
	for _, fn := range l.prodFuncs() {
		if strings.Contains(fnPkgPath(fn), "/keeper") {
			continue
		}
		for in, t := range emitsOf(fn) {
			if lifecycleEvents[t] {
				c.Ob("R2", t+" emitted outside a keeper in "+fnName(fn), in.Pos(), false, "lifecycle event emitted where no record is written")
			}
		}
	}

	// ---- R4 who-may-write
	nw := 0
	for _, fn := range l.prodFuncs() {
		for _, call := range callsIn(fn, false) {
			m := calleeMethod(call)
			if (m == "Set" || m == "Delete") && strings.Contains(calleeFull(call), "types.KVStore") {
				nw++
				p := fnPkgPath(fn)
				ok := strings.HasSuffix(p, "/keeper") && strings.HasPrefix(relPkg(p), "x/")
				c.Ob("R4", "KVStore."+m+" in "+fnName(fn), call.Pos(), ok, "module store written outside its keeper package (no event discipline applies there)")
			}
		}
	}
	if nw < 20 {
		c.Fail("C16-R4 lost instances")
	}

	// ---- R5 dispatcher
	pe := l.Func("events", "", "processEvent")
	c.Analysed(fnName(pe))
	for _, rel := range eventModules {
		found := false
		for _, call := range callsIn(pe, false) {
			if g := call.Common().StaticCallee(); g != nil && g.Name() == "ParseEvent" && fnPkgPath(g) == akash+"/"+rel {
				found = true
			}
		}
		c.Ob("R5", "provider event dispatcher consults "+rel+".ParseEvent", pe.Pos(), found, "events of this module are never decoded by the provider")
	}
	c.okOnlyPublished("R5")

	// ---- R6 stale records across hook-firing calls (duplicate / spurious events)
	c.staleAcrossHooksRule("R6", kinds)

	// ---- R7 no closed/paused/started event for a record already in that state
	nself := 0
	selfAdj := 0
	for _, sa := range sas {
		emitter := sa.fn
		for d := 0; d < 4 && isNewFunc(emitter) && emitter.Parent() == nil; d++ {
			site := transparentSite(emitter)
			if site == nil {
				break
			}
			emitter = site.Parent() // the event may be emitted by a sibling helper of the same pinned function
			for emitter.Parent() != nil {
				emitter = emitter.Parent()
			}
		}
		if isConstruction(sa) || sa.vals == nil || (len(emitsOf(sa.fn)) == 0 && len(emitsOf(emitter)) == 0) {
			continue
		}
		if sa.valPar != nil && isNewFunc(sa.fn) {
			if ns := len(l.callSitesOf(sa.fn)); ns > 1 {
				// the merged helper of several transitions: which guard goes with which state is a per-caller question
				c.Info("R7", fnName(sa.fn)+": state assigned from a parameter in a new helper with "+itoa(ns)+" callers, no-op events not decided", sa.st.Pos(), "")
				selfAdj += ns
				continue
			}
		}
		nself++
		self := ""
		pre := sa.pre
		if fnName(sa.fn) == "x/deployment/keeper.(Keeper).OnPauseGroup" {
			pre = c.refineOnBidClosedQ(kinds, sa, true) // see C04-R1: lease active => group open
		}
		for to := range sa.vals {
			// frozen exception: a group is set to insufficient_funds only by the account-closed hook, which acts only on
			// an active deployment and closes it in the same call; the hook can therefore not meet a group that it
			// already moved to insufficient_funds (cross-record invariant, not derivable from the guards on the group)
			if fnName(sa.fn) == "x/deployment/keeper.(Keeper).OnCloseGroup" && sa.rk.states[to] == "GroupInsufficientFunds" {
				continue
			}
			if pre[to] {
				self += sa.rk.states[to] + " "
			}
		}
		c.Ob("R7", fnName(sa.fn)+": "+sa.rk.name+" -> "+sa.rk.setString(sa.vals)+" (with its event) never applies to a record already in that state", sa.st.Pos(), self == "", "guards admit a record that is already "+self+": the event is emitted again although nothing changed (admitted prior states "+sa.rk.setString(pre)+" via "+strings.Join(sa.sites, " ; ")+")")
	}
	if nself < 7-selfAdj {
		c.Fail("C16-R7 lost instances: %d event-emitting transitions", nself)
	}
}

func kindsOf(es []effect) string {
	m := map[string]bool{}
	for _, e := range es {
		m[e.kind] = true
	}
	var s []string
	for k := range m {
		s = append(s, k)
	}
	sort.Strings(s)
	return strings.Join(s, "|")
}

// mustPassTo: every path from entry to instruction `to` passes an instruction satisfying pred.
func mustPassTo(fn *ssa.Function, to ssa.Instruction, pred func(ssa.Instruction) bool) bool {
	return mustPass(fn, to, pred)
}

func posOr(a, b token.Pos) token.Pos {
	if a.IsValid() {
		return a
	}
	return b
}

// eventSwitchExhaustive (R2): where a keeper function picks the event to emit by comparing a state value against
// state constants, every state its callers can pass has a branch that emits. A state that falls through is stored
// without its event (the escrow hooks close groups with "insufficient funds": a helper that only knows "closed" leaves
// that close unannounced).
func (c *Check) eventSwitchExhaustive(rule string, rels []string) {
	l := c.L
	var possible func(fn *ssa.Function, v ssa.Value, depth int) map[int64]bool
	possible = func(fn *ssa.Function, v ssa.Value, depth int) map[int64]bool {
		if s := constSet(v, map[ssa.Value]bool{}); s != nil {
			return s
		}
		var p *ssa.Parameter
		switch x := v.(type) {
		case *ssa.Parameter:
			p = x
		case *ssa.UnOp:
			if a, ok := x.X.(*ssa.Alloc); ok {
				p = paramOfAlloc(a)
			}
		}
		if p == nil || depth > 3 {
			return nil
		}
		g := p.Parent()
		sites := l.callSitesOf(g)
		if len(sites) == 0 {
			return nil
		}
		out := map[int64]bool{}
		for _, site := range sites {
			a := argFor(site, g, paramIndex(g, p))
			if a == nil {
				return nil
			}
			s := possible(site.Parent(), a, depth+1)
			if s == nil {
				return nil
			}
			for k := range s {
				out[k] = true
			}
		}
		return out
	}
	for _, rel := range rels {
		for _, fn := range l.pkgFuncs(rel) {
			// comparisons of one value with state constants whose true edge leads to an emit
			type sw struct {
				v     ssa.Value
				cases map[int64]bool
				pos   ssa.Instruction
			}
			sws := map[string]*sw{}
			for _, b := range fn.Blocks {
				ifi, ok := b.Instrs[len(b.Instrs)-1].(*ssa.If)
				if !ok {
					continue
				}
				bo, ok := ifi.Cond.(*ssa.BinOp)
				if !ok || bo.Op != token.EQL || !strings.HasSuffix(bo.X.Type().String(), "_State") {
					continue
				}
				k, isK := constInt(bo.Y)
				if !isK {
					continue
				}
				emits := false
				tb := b.Succs[0]
				for _, in := range tb.Instrs {
					if ci, isC := in.(ssa.CallInstruction); isC && calleeMethod(ci) == "EmitEvent" {
						emits = true
					}
				}
				if !emits {
					continue
				}
				key := Sym(bo.X)
				if sws[key] == nil {
					sws[key] = &sw{v: bo.X, cases: map[int64]bool{}, pos: ifi}
				}
				sws[key].cases[k] = true
			}
			for key, s := range sws {
				if len(s.cases) < 2 {
					continue // a single guarded emit is not an event-selecting switch
				}
				persists := false
				for _, call := range callsInOwn(fn) {
					if isStoreSet(call) {
						persists = true
					}
				}
				if !persists {
					continue
				}
				c.Analysed(fnName(fn))
				poss := possible(fn, s.v, 0)
				if poss == nil {
					c.Info(rule, fnName(fn)+": states reaching the event-selecting switch on "+short(key)+" not enumerable, exhaustiveness not decided", s.pos.Pos(), "")
					continue
				}
				missing := ""
				for k := range poss {
					if !s.cases[k] {
						missing += itoa(int(k)) + " "
					}
				}
				c.Ob(rule, fnName(fn)+": the event-selecting switch on "+short(key)+" has a branch for every state its callers pass", s.pos.Pos(), missing == "", "state value(s) "+strings.TrimSpace(missing)+" reach the switch, are stored, and emit no event: that change of the record is never announced")
			}
		}
	}
}

// ctorArgsOf: the arguments of the event constructor behind an EmitEvent argument (X.ToSDKEvent() or the constructor /
// literal itself): for a struct literal, the values stored into its fields.
func ctorArgsOf(inner *ssa.Call) []ssa.Value {
	var v ssa.Value = inner
	if calleeMethod(inner) == "ToSDKEvent" && len(inner.Call.Args) > 0 {
		v = inner.Call.Args[0]
	}
	if cc, ok := v.(*ssa.Call); ok {
		return cc.Call.Args
	}
	// a composite literal: loaded from an alloc whose fields were stored
	if ld, ok := v.(*ssa.UnOp); ok {
		if al, isA := ld.X.(*ssa.Alloc); isA && al.Referrers() != nil {
			var out []ssa.Value
			for _, r := range *al.Referrers() {
				if fa, isFA := r.(*ssa.FieldAddr); isFA && fa.Referrers() != nil {
					for _, r2 := range *fa.Referrers() {
						if st, isS := r2.(*ssa.Store); isS && st.Addr == ssa.Value(fa) {
							out = append(out, st.Val)
						}
					}
				}
			}
			return out
		}
	}
	return nil
}
