package main

import (
	"fmt"
	"go/ast"
	"go/constant"
	"go/types"
	"strings"

	"golang.org/x/tools/go/ssa"
)

// Key layouts: abstract interpretation of the store-key builder functions.

type seg struct {
	kind  string // "const" "fixed" "addrstr" "addrbytes" "var"
	n     int    // width for fixed
	bytes string // hex for const
	field string // source field name (last path element)
	src   string
}

func (s seg) String() string {
	switch s.kind {
	case "const":
		return "const[" + s.bytes + "]"
	case "fixed":
		return fmt.Sprintf("fixed%d(%s)", s.n, s.field)
	}
	return s.kind + "(" + s.field + ")"
}

func (s seg) selfDelimiting() bool {
	return s.kind == "const" || s.kind == "fixed" || s.kind == "addrstr" || s.kind == "addrbytes"
}

type keyLayout struct {
	fn   *ssa.Function
	lead string // bytes of the leading constant (the record-kind prefix) before merging
	segs []seg
	ok   bool
	why  string
}

func layoutString(segs []seg) string {
	var s []string
	for _, x := range segs {
		s = append(s, x.String())
	}
	return strings.Join(s, " | ")
}

// globalBytes: the constant bytes of a package-level `var x = []byte{...}`.
func (l *Loaded) globalBytes(g *ssa.Global) (string, bool) {
	p := l.ByPath[g.Pkg.Pkg.Path()]
	if p == nil {
		return "", false
	}
	for _, f := range p.Syntax {
		for _, d := range f.Decls {
			gd, ok := d.(*ast.GenDecl)
			if !ok {
				continue
			}
			for _, sp := range gd.Specs {
				vs, ok := sp.(*ast.ValueSpec)
				if !ok {
					continue
				}
				for i, n := range vs.Names {
					if n.Name != g.Name() || i >= len(vs.Values) {
						continue
					}
					cl, ok := vs.Values[i].(*ast.CompositeLit)
					if !ok {
						return "", false
					}
					out := ""
					for _, e := range cl.Elts {
						tv := p.TypesInfo.Types[e]
						if tv.Value == nil {
							return "", false
						}
						v, _ := constant.Int64Val(tv.Value)
						out += fmt.Sprintf("%02x", v)
					}
					return out, true
				}
			}
		}
	}
	return "", false
}

func lastField(sym string) string {
	s := sym
	for _, suf := range []string{")", "]"} {
		s = strings.TrimSuffix(s, suf)
	}
	if i := strings.LastIndex(s, "."); i >= 0 {
		return s[i+1:]
	}
	return s
}

// klEnv binds the parameters of an inlined builder to the argument values at the inlining call.
type klEnv struct {
	m      map[*ssa.Parameter]ssa.Value
	parent *klEnv
}

func (e *klEnv) resolve(v ssa.Value) (ssa.Value, *klEnv) {
	for e != nil {
		p, isP := v.(*ssa.Parameter)
		if !isP {
			return v, e
		}
		a, ok := e.m[p]
		if !ok {
			return v, e
		}
		v, e = a, e.parent
	}
	return v, nil
}

func bindArgs(g *ssa.Function, call *ssa.Call, parent *klEnv) *klEnv {
	env := &klEnv{m: map[*ssa.Parameter]ssa.Value{}, parent: parent}
	for i, p := range g.Params {
		if i < len(call.Call.Args) {
			env.m[p] = call.Call.Args[i]
		}
	}
	return env
}

// keyLayoutOf extracts the layout of a straight-line key builder.
func (l *Loaded) keyLayoutOf(fn *ssa.Function) *keyLayout { return l.keyLayoutEnv(fn, nil, 0) }

func (l *Loaded) keyLayoutEnv(fn *ssa.Function, env *klEnv, depth int) *keyLayout {
	kl := &keyLayout{fn: fn, ok: true}
	fail := func(f string, a ...interface{}) {
		kl.ok = false
		if kl.why == "" {
			kl.why = fmt.Sprintf(f, a...)
		}
	}
	classify := func(v ssa.Value) seg {
		v, _ = env.resolve(v)
		s := Sym(v)
		// []byte(string field)
		if cv, ok := v.(*ssa.Convert); ok {
			if b, ok := cv.X.Type().Underlying().(*types.Basic); ok && b.Kind() == types.String {
				cx, _ := env.resolve(cv.X)
				f := lastField(Sym(cx))
				s = Sym(cx)
				if f == "Owner" || f == "Provider" || f == "Auditor" {
					return seg{kind: "addrstr", field: f, src: s}
				}
				return seg{kind: "var", field: f, src: s}
			}
		}
		// a string copied into the key as it is (copy(dst, s)): the same bytes as []byte(s)
		if b, ok := v.Type().Underlying().(*types.Basic); ok && b.Kind() == types.String {
			cx, _ := env.resolve(v)
			f := lastField(Sym(cx))
			if f == "Owner" || f == "Provider" || f == "Auditor" {
				return seg{kind: "addrstr", field: f, src: Sym(cx)}
			}
		}
		if call, ok := v.(*ssa.Call); ok && calleeMethod(call) == "Bytes" {
			recv := call.Common()
			var rv ssa.Value
			if recv.IsInvoke() {
				rv = recv.Value
			} else if len(recv.Args) > 0 {
				rv = recv.Args[0]
			}
			rs := Sym(rv)
			t := rv.Type().String()
			if strings.HasSuffix(t, "types.Address") || strings.HasSuffix(t, "types.AccAddress") {
				f := lastField(rs)
				if strings.HasPrefix(rs, "p:") && !strings.Contains(rs, ".") {
					f = "Owner" // a bare address parameter scopes by the leading address
				}
				return seg{kind: "addrbytes", field: f, src: rs}
			}
			return seg{kind: "var", field: lastField(rs), src: rs}
		}
		if ld, ok := v.(*ssa.UnOp); ok {
			if g, ok := ld.X.(*ssa.Global); ok {
				if b, ok := l.globalBytes(g); ok {
					return seg{kind: "const", bytes: b, src: g.Name()}
				}
			}
		}
		return seg{kind: "var", field: lastField(s), src: s}
	}
	for _, b := range fn.Blocks {
		// skip panic blocks
		if len(b.Instrs) > 0 {
			if _, isPanic := b.Instrs[len(b.Instrs)-1].(*ssa.Panic); isPanic {
				continue
			}
		}
		for _, in := range b.Instrs {
			call, ok := in.(*ssa.Call)
			if !ok {
				continue
			}
			full := calleeFull(call)
			args := call.Call.Args
			switch {
			case full == "bytes.NewBuffer" || full == "(*bytes.Buffer).Write":
				v := args[len(args)-1]
				// another key builder of the package: inline its layout
				if inner, ok := v.(*ssa.Call); ok {
					if g := inner.Call.StaticCallee(); g != nil && g.Blocks != nil && g != fn && fnPkgPath(g) == fnPkgPath(fn) && isBytesResult(g) {
						sub := l.keyLayoutEnv(g, bindArgs(g, inner, env), depth+1)
						if !sub.ok {
							fail("inlined builder %s: %s", g.Name(), sub.why)
						}
						if len(kl.segs) == 0 {
							kl.lead = sub.lead
						}
						kl.segs = append(kl.segs, sub.segs...)
						continue
					}
				}
				kl.segs = append(kl.segs, classify(v))
			case full == "builtin.copy" && isByteSlice(args[0].Type()):
				// key := make([]byte, n); copy(key[k:], part) ... : the parts in the order they are copied (straight-line
				// builders only; the destination offsets are taken to follow one another, as the running length does)
				if loopHeaderOf(b) != nil {
					fail("copy into the key inside a loop")
				}
				src := args[1]
				if inner, ok := src.(*ssa.Call); ok {
					if g := inner.Call.StaticCallee(); g != nil && g.Blocks != nil && g != fn && fnPkgPath(g) == fnPkgPath(fn) && isBytesResult(g) {
						sub := l.keyLayoutEnv(g, bindArgs(g, inner, env), depth+1)
						if !sub.ok {
							fail("inlined builder %s: %s", g.Name(), sub.why)
						}
						if len(kl.segs) == 0 {
							kl.lead = sub.lead
						}
						kl.segs = append(kl.segs, sub.segs...)
						continue
					}
				}
				kl.segs = append(kl.segs, classify(src))
			case full == "builtin.append" && len(args) == 2 && isByteSlice(args[0].Type()):
				// key = append(key, part...) / append(key, 'c'): the parts in the order they are appended (straight-line
				// builders only)
				if loopHeaderOf(b) != nil {
					fail("append to the key inside a loop")
				}
				src := args[1]
				if sl, isSl := src.(*ssa.Slice); isSl {
					if arr, isArr := sl.X.(*ssa.Alloc); isArr {
						// individual bytes: append(key, '/')
						if els := arrayStores(arr); els != nil {
							okc := true
							hex := ""
							for _, e := range els {
								k, isK := constInt(e)
								if !isK {
									okc = false
									break
								}
								hex += fmt.Sprintf("%02x", k)
							}
							if okc {
								kl.segs = append(kl.segs, seg{kind: "const", bytes: hex})
								continue
							}
							fail("non-constant byte appended to the key")
						}
					}
				}
				kl.segs = append(kl.segs, classify(src))
			case full == "(*bytes.Buffer).WriteString":
				sv, _ := env.resolve(args[1])
				s := Sym(sv)
				if k, ok := strConst(args[1]); ok {
					kl.segs = append(kl.segs, seg{kind: "const", bytes: fmt.Sprintf("%x", k)})
				} else if f := lastField(s); f == "Owner" || f == "Provider" || f == "Auditor" {
					// an address kept as text, written as such (same bytes as Write([]byte(addr)))
					kl.segs = append(kl.segs, seg{kind: "addrstr", field: f, src: s})
				} else {
					kl.segs = append(kl.segs, seg{kind: "var", field: lastField(s), src: s})
				}
			case full == "(*bytes.Buffer).WriteRune" || full == "(*bytes.Buffer).WriteByte":
				if k, ok := constInt(args[1]); ok {
					kl.segs = append(kl.segs, seg{kind: "const", bytes: fmt.Sprintf("%02x", k)})
				} else {
					fail("non-constant rune")
				}
			case strings.HasSuffix(full, "ndian).PutUint64") || strings.HasSuffix(full, "ndian).PutUint32") || strings.HasSuffix(full, "ndian).PutUint16"):
				// binary.BigEndian.PutUintNN(key[pos:], v): a fixed-width segment at the running offset
				if !strings.Contains(full, "bigEndian") {
					fail("little-endian number in a key: numeric order is not byte order")
				}
				if loopHeaderOf(b) != nil {
					fail("number written into the key inside a loop")
				}
				v := stripConv(args[len(args)-1])
				v, _ = env.resolve(v)
				v = stripConv(v)
				n := 8
				if strings.HasSuffix(full, "32") {
					n = 4
				} else if strings.HasSuffix(full, "16") {
					n = 2
				}
				if w := intWidth(v.Type()); w != 0 && int(w/8) > n {
					fail("field %s (%d bits) is written as %d bits: ids that differ only in the dropped bits share one key", lastField(Sym(v)), w, n*8)
				}
				kl.segs = append(kl.segs, seg{kind: "fixed", n: n, field: lastField(Sym(v)), src: Sym(v)})
			case full == "encoding/binary.Write":
				written := args[2]
				if mi, isMI := written.(*ssa.MakeInterface); isMI {
					written = mi.X
				}
				v := stripConv(args[2])
				v, _ = env.resolve(v)
				v = stripConv(v)
				w := intWidth(v.Type())
				if w == 0 {
					fail("binary.Write of non-fixed-width value %s", Sym(v))
				}
				// the bytes written are those of the converted value: a narrowing conversion drops the high bytes of the field
				if ww := intWidth(written.Type()); ww != 0 && ww < w {
					fail("field %s (%d bits) is written as %d bits: ids that differ only in the dropped bits share one key", lastField(Sym(v)), w, ww)
					w = ww
				}
				kl.segs = append(kl.segs, seg{kind: "fixed", n: int(w / 8), field: lastField(Sym(v)), src: Sym(v)})
			case strings.HasPrefix(full, "(*bytes.Buffer)."):
				if calleeMethod(call) != "Bytes" {
					fail("unmodelled buffer operation %s", full)
				}
			default:
				// a helper of the package that appends to the buffer it is handed: inline what it writes
				if g := call.Call.StaticCallee(); g != nil && g.Blocks != nil && g != fn && fnPkgPath(g) == fnPkgPath(fn) && depth < 4 {
					takesBuf := false
					for _, p := range g.Params {
						if p.Type().String() == "*bytes.Buffer" {
							takesBuf = true
						}
					}
					if takesBuf {
						sub := l.keyLayoutEnv(g, bindArgs(g, call, env), depth+1)
						if !sub.ok {
							fail("inlined writer %s: %s", g.Name(), sub.why)
						}
						if len(kl.segs) == 0 {
							kl.lead = sub.lead
						}
						kl.segs = append(kl.segs, sub.segs...)
						continue
					}
				}
				// calls to another key builder: inline its layout
				if g := call.Call.StaticCallee(); g != nil && g.Blocks != nil && fnPkgPath(g) == fnPkgPath(fn) && isBytesResult(g) && strings.Contains(Sym(in.(ssa.Value)), "") {
					// only when its result feeds a buffer write / append in this function; handled by classify via Write
				}
			}
		}
	}
	// a builder that only hands on the result of another builder of the package
	if len(kl.segs) == 0 && kl.ok && depth < 4 {
		for _, b := range fn.Blocks {
			if r, isR := b.Instrs[len(b.Instrs)-1].(*ssa.Return); isR && len(r.Results) == 1 {
				if inner, isC := r.Results[0].(*ssa.Call); isC {
					if g := inner.Call.StaticCallee(); g != nil && g.Blocks != nil && g != fn && fnPkgPath(g) == fnPkgPath(fn) && isBytesResult(g) {
						sub := l.keyLayoutEnv(g, bindArgs(g, inner, env), depth+1)
						if !sub.ok {
							fail("delegated builder %s: %s", g.Name(), sub.why)
						}
						kl.lead = sub.lead
						kl.segs = append(kl.segs, sub.segs...)
					}
				}
			}
		}
	}
	if kl.lead == "" && len(kl.segs) > 0 && kl.segs[0].kind == "const" {
		kl.lead = kl.segs[0].bytes
	}
	// merge adjacent consts
	var m []seg
	for _, s := range kl.segs {
		if len(m) > 0 && m[len(m)-1].kind == "const" && s.kind == "const" {
			m[len(m)-1].bytes += s.bytes
			continue
		}
		m = append(m, s)
	}
	kl.segs = m
	return kl
}

func isBytesResult(fn *ssa.Function) bool {
	r := fn.Signature.Results()
	if r.Len() != 1 {
		return false
	}
	sl, ok := r.At(0).Type().Underlying().(*types.Slice)
	if !ok {
		return false
	}
	b, ok := sl.Elem().Underlying().(*types.Basic)
	return ok && b.Kind() == types.Byte
}

func segEq(a, b seg) bool {
	if a.kind != b.kind {
		return false
	}
	switch a.kind {
	case "const":
		return a.bytes == b.bytes
	case "fixed":
		return a.n == b.n && a.field == b.field
	}
	return a.field == b.field
}

// isLayoutPrefix: p is an initial run of whole segments of f (a const segment of p may be a byte-prefix of f's).
func isLayoutPrefix(p, f []seg) bool {
	if len(p) > len(f) {
		return false
	}
	for i := range p {
		if !segEq(p[i], f[i]) {
			return false
		}
	}
	return true
}

// keyBuilders: functions of a keeper package that build keys with a bytes.Buffer.
func (l *Loaded) keyBuilders(rel string) map[string]*keyLayout {
	out := map[string]*keyLayout{}
	for _, fn := range l.pkgFuncs(rel) {
		if fn.Parent() != nil || !isBytesResult(fn) {
			continue
		}
		uses := false
		for _, call := range callsIn(fn, false) {
			if strings.HasPrefix(calleeFull(call), "(*bytes.Buffer).") || calleeFull(call) == "bytes.NewBuffer" {
				uses = true
			}
			if calleeFull(call) == "builtin.copy" && len(call.Common().Args) == 2 && isByteSlice(call.Common().Args[0].Type()) && call.Parent() == fn {
				uses = true
			}
			if calleeFull(call) == "builtin.append" && len(call.Common().Args) == 2 && isByteSlice(call.Common().Args[0].Type()) && call.Parent() == fn {
				uses = true
			}
		}
		if !uses {
			continue
		}
		kl := l.keyLayoutOf(fn)
		// a generic helper whose leading bytes are a parameter is judged through the builders that call it
		if kl.ok && len(kl.segs) > 0 && kl.segs[0].kind == "var" && strings.HasPrefix(kl.segs[0].src, "p:") && !strings.Contains(kl.segs[0].src, ".") && isNewFunc(fn) {
			continue
		}
		out[fn.Name()] = kl
	}
	// functions that derive a key from another builder's key without writing a buffer themselves
	for changed := true; changed; {
		changed = false
		for _, fn := range l.pkgFuncs(rel) {
			if fn.Parent() != nil || !isBytesResult(fn) || out[fn.Name()] != nil {
				continue
			}
			derives := false
			for _, call := range callsInOwn(fn) {
				if g := call.Common().StaticCallee(); g != nil && g != fn && fnPkgPath(g) == fnPkgPath(fn) && out[g.Name()] != nil && out[g.Name()].fn == g {
					derives = true
				}
			}
			if !derives {
				continue
			}
			kl := l.keyLayoutOf(fn)
			if kl.ok && len(kl.segs) == 0 {
				kl.ok = false
				kl.why = "the key is derived from another builder's key by an operation that is not modelled (slicing / appending): its boundary cannot be checked against the segment layout"
			}
			out[fn.Name()] = kl
			changed = true
		}
	}
	return out
}

func isByteSlice(t types.Type) bool {
	sl, ok := t.Underlying().(*types.Slice)
	if !ok {
		return false
	}
	b, ok := sl.Elem().Underlying().(*types.Basic)
	return ok && b.Kind() == types.Byte
}
