package main

import (
	"go/token"
	"go/types"
	"sort"
	"strings"

	"golang.org/x/tools/go/ssa"
)

func init() { registry["C12"] = checkC12 }

func checkC12(c *Check) {
	c.Explanation = "Decided by effect summaries and path analysis on the inventory service: (R1) resource arithmetic (ResourceUnits.Add/Sub and what they call) writes through no pointer reachable from receiver or argument and returns no pointer derived from them (mod/alias summaries with reaching-store analysis for local struct fields); (R2) the status computation has an empty mod-set with respect to the reservation list and node snapshot; (R3) a reservation is appended and positively acknowledged only on the true edge of reservationAllocateable(inventory, free ports, reservations, new reservation built from the committed resources); that predicate subtracts every not-yet-allocated reservation before the new one; reservation processing is re-enabled only after a successful inventory fetch was stored; (R4) the release path removes at most one entry (the removal is followed by leaving the scan) and is the only removal; a miss replies with an error; (R5) the reservation list, node snapshot and free-port counter are written only inside the service's loop function. Borrowers of the reservation list neither store into it nor append to a re-slice of it. status, like reserve/unreserve/lookup, answers only after asking the inventory loop."
	c.NotDecided = "that first-fit placement implies feasibility of the real placement; unsigned port arithmetic"
	l := c.L
	mc := newModCtx(l)

	// ---- R1 purity of arithmetic
	for _, name := range []string{"Add", "Sub"} {
		fn := l.Func("types", "ResourceUnits", name)
		c.Analysed(fnName(fn))
		s := mc.summary(fn)
		var muts []string
		var idx []int
		for i := range s.mut {
			idx = append(idx, i)
		}
		sort.Ints(idx)
		for _, i := range idx {
			muts = append(muts, paramLabel(fn, i)+": "+s.mut[i])
		}
		c.Ob("R1", "ResourceUnits."+name+" does not write through its operands", fn.Pos(), len(muts) == 0, "operand memory is modified: "+strings.Join(muts, "; "))
		var al []string
		idx = nil
		for i := range s.alias {
			if i >= 0 {
				idx = append(idx, i)
			}
		}
		sort.Ints(idx)
		for _, i := range idx {
			al = append(al, paramLabel(fn, i))
		}
		c.Ob("R1", "ResourceUnits."+name+" returns a value sharing no pointer with its operands", fn.Pos(), len(al) == 0, "the result shares memory with "+strings.Join(al, ", ")+": a later operation on the result changes the operand")
	}
	// the unit helpers mutate only their receiver
	for _, t := range []string{"CPU", "Memory", "Storage"} {
		for _, m := range []string{"add", "sub"} {
			fn := l.Func("types", t, m)
			s := mc.summary(fn)
			_, mutOther := s.mut[1]
			c.Ob("R1", t+"."+m+" leaves its argument untouched", fn.Pos(), !mutOther, s.mut[1])
		}
	}
	rv := l.Func("types", "ResourceValue", "add")
	c.Ob("R1", "ResourceValue.add is pure", rv.Pos(), len(mc.summary(rv).mut) == 0, "")

	c.borrowedReservationList("R5")
	// ---- R2 status read-only
	gs := l.Func("provider/cluster", "inventoryService", "getStatus")
	c.Analysed(fnName(gs))
	{
		s := mc.summary(gs)
		bad := ""
		for i, why := range s.mut {
			if i >= 1 {
				bad += paramLabel(gs, i) + ": " + why + "; "
			}
		}
		c.Ob("R2", "status computation writes nothing reachable from the reservations or the node snapshot", gs.Pos(), bad == "", "a read-only status query modifies outstanding reservations: "+bad)
		// one entry per reservation
		n := 0
		for _, call := range callsIn(gs, false) {
			if calleeFull(call) == "builtin.append" && (strings.Contains(Sym(call.Common().Args[0]), "status.Active") || strings.Contains(Sym(call.Common().Args[0]), "status.Pending")) {
				n++
				// appended once per iteration of the outer loop over reservations, not in the inner loop
				h := loopHeaderOf(call.Block())
				outer := h != nil && strings.HasSuffix(Sym(h.Instrs[len(h.Instrs)-1].(*ssa.If).Cond), "< builtin.len(p:reservations))")
				c.Ob("R2", "status reports one entry per reservation", call.Pos(), outer, "entries are appended inside the per-resource loop")
				// ... with that reservation's own amounts: the accumulator that is appended starts from zero in every
				// iteration of the loop over reservations (it is declared inside that loop)
				if outer {
					body := loopBlocks(h)
					elem := sliceLitElem(call.Common().Args[1])
					var acc *ssa.Alloc
					if ld, isLd := elem.(*ssa.UnOp); isLd {
						acc, _ = ld.X.(*ssa.Alloc)
					}
					_, isPhi := elem.(*ssa.Phi)
					switch {
					case isPhi:
						// the accumulator lives in registers: it is carried from one reservation to the next iff its chain of
						// phis / accumulating calls (x = x.Add(..)) reaches a phi at the header of the loop over reservations
						carried := false
						seen := map[ssa.Value]bool{}
						var walk func(v ssa.Value, d int)
						walk = func(v ssa.Value, d int) {
							if v == nil || seen[v] || d > 12 {
								return
							}
							seen[v] = true
							switch x := v.(type) {
							case *ssa.Phi:
								if x.Block() == h {
									carried = true
								}
								for _, e := range x.Edges {
									walk(e, d+1)
								}
							case *ssa.Extract:
								walk(x.Tuple, d+1)
							case *ssa.Call:
								if len(x.Call.Args) > 0 && !x.Call.IsInvoke() {
									walk(x.Call.Args[0], d+1)
								}
							}
						}
						walk(elem, 0)
						c.Ob("R2", "the amounts appended for a reservation are accumulated from zero for that reservation", call.Pos(), !carried, "the accumulator is carried over from one reservation to the next: every entry also contains the amounts of the reservations before it, and changes when one of those is released")
					case acc != nil:
						c.Ob("R2", "the amounts appended for a reservation are accumulated from zero for that reservation", call.Pos(), body[acc.Block()], "the accumulator '"+acc.Comment+"' is declared outside the loop over reservations: every entry also contains the amounts of the reservations before it, and changes when one of those is released")
					default:
						c.Info("R2", "status entry: accumulator form not recognised, per-reservation reset not decided", call.Pos(), "appended value "+short(Sym(call.Common().Args[1])))
					}
				}
			}
		}
		if n != 2 && len(helpersOf(gs)) > 0 {
			// the two lists are assembled in new helpers and handed back: the per-entry rules above are written for the
			// in-place form and do not decide this one
			c.Info("R2", "status lists are assembled outside getStatus, per-entry rules not decided", gs.Pos(), "")
		} else {
			c.Ob("R2", "status lists allocated and pending reservations", gs.Pos(), n == 2, "")
		}
	}

	// ---- R3 grant guarded
	run := l.Func("provider/cluster", "inventoryService", "run")
	c.Analysed(fnName(run))
	var grantIf *ssa.If
	var ra *ssa.Call
	for _, call := range callsIn(run, false) {
		if g := call.Common().StaticCallee(); g != nil && g.Name() == "reservationAllocateable" {
			ra = call.(*ssa.Call)
			for _, rr := range *ra.Referrers() {
				if ifi, ok := rr.(*ssa.If); ok {
					grantIf = ifi
				}
			}
		}
	}
	c.Ob("R3", "reserve path evaluates the capacity predicate", run.Pos(), ra != nil && grantIf != nil, "")
	c.commitLevelRoles("R3")
	c.endpointCountSums("R3")
	// value families of the loop-carried locals
	resFam := valueFamily(run, func(v ssa.Value) bool {
		p, ok := v.(*ssa.Parameter)
		return ok && paramName(p) == "reservations" && p.Parent() == run
	})
	invFam := valueFamily(run, func(v ssa.Value) bool {
		ta, ok := v.(*ssa.TypeAssert)
		return ok && strings.HasSuffix(ta.AssertedType.String(), "[]github.com/ovrclk/akash/provider/cluster/types.Node")
	})
	if ra != nil && grantIf != nil {
		a := ra.Call.Args
		okArgs := invFam[a[0]] && strings.Contains(Sym(a[1]), "availableExternalPorts") && resFam[a[2]] &&
			strings.HasPrefix(Sym(a[3]), "cluster.newReservation(") && strings.Contains(Sym(a[3]), "committedResources(")
		c.Ob("R3", "capacity predicate sees (node snapshot, free ports, outstanding reservations, new reservation from committed resources)", ra.Pos(), okArgs, short(Sym(a[3])))
		napp := 0
		var blocks []*ssa.BasicBlock
		blocks = append(blocks, run.Blocks...)
		for _, hfn := range helpersOf(run) {
			blocks = append(blocks, hfn.Blocks...)
		}
		for _, b := range blocks {
			for _, in := range b.Instrs {
				switch x := in.(type) {
				case *ssa.Call:
					if calleeFull(x) == "builtin.append" && resFam[x.Call.Args[0]] {
						if _, isSlice := x.Call.Args[0].(*ssa.Slice); isSlice {
							continue
						}
						napp++
						ok := b.Parent() == grantIf.Block().Parent() && edgeDominates(grantIf.Block(), grantIf.Block().Succs[0], b) && strings.HasPrefix(Sym(x.Call.Args[1]), "[cluster.newReservation(")
						c.Ob("R3", "reservation list grows only when the capacity predicate holds", x.Pos(), ok, "a reservation is recorded without (or against) the capacity check")
					}
				case *ssa.Send:
					if v := sentValueField(x); v != nil {
						if cv, _ := callOf(stripConv(v)); cv != nil && cv.Call.StaticCallee() != nil && cv.Call.StaticCallee().Name() == "newReservation" {
							ok := b.Parent() == grantIf.Block().Parent() && edgeDominates(grantIf.Block(), grantIf.Block().Succs[0], b)
							c.Ob("R3", "positive reserve reply only when the capacity predicate holds", x.Pos(), ok, "")
						}
					}
				}
			}
		}
		c.Ob("R3", "exactly one site appends to the reservation list", run.Pos(), napp == 1, "append sites: "+itoa(napp))
	}
	// predicate shape
	raf := l.Func("provider/cluster", "", "reservationAllocateable")
	c.Analysed(fnName(raf))
	{
		var inLoop, final *ssa.Call
		for _, call := range callsIn(raf, false) {
			if g := call.Common().StaticCallee(); g != nil && g.Name() == "reservationAdjustInventory" {
				if loopHeaderOf(call.Block()) != nil {
					inLoop = call.(*ssa.Call)
				} else {
					final = call.(*ssa.Call)
				}
			}
		}
		ok := inLoop != nil && final != nil
		if ok {
			// the loop skips only allocated reservations
			skipOK := false
			for _, a := range factsAt(inLoop.Block()) {
				if a.Op == "false" && strings.HasSuffix(Sym(a.X), ".allocated") {
					skipOK = true
				}
			}
			nf := 0
			for _, a := range factsAt(inLoop.Block()) {
				if a.If != nil && loopHeaderOf(inLoop.Block()) != a.If.Block() {
					nf++
				}
			}
			c.Ob("R3", "predicate subtracts every not-yet-allocated reservation (and skips only allocated ones)", inLoop.Pos(), skipOK && nf == 1, "pending reservations are skipped under a different condition")
			// failure of any step yields false
			rejects := false
			for _, b := range raf.Blocks {
				h := loopHeaderOf(inLoop.Block())
				if r, isR := b.Instrs[len(b.Instrs)-1].(*ssa.Return); isR && isConstBool(r.Results[0], false) && h != nil && h.Succs[0].Dominates(b) {
					rejects = true
				}
			}
			c.Ob("R3", "predicate is false as soon as a pending reservation no longer fits", raf.Pos(), rejects, "")
			// final answer is the fit of the new reservation on the adjusted inventory
			fin := false
			for _, r := range successReturns(raf) {
				if cv, idx := callOf(r.Results[0]); cv == final && idx == 2 {
					fin = true
				}
			}
			c.Ob("R3", "predicate's answer is the fit of the new reservation on what the pending ones left", final.Pos(), fin && strings.Contains(Sym(final.Call.Args[2]), "p:newReservation"), "")
			// what one pending reservation leaves (nodes and free external ports) is what the next one, and finally the new
			// one, is placed on
			carries := func(v ssa.Value, k int) bool {
				seen := map[ssa.Value]bool{}
				var walk func(x ssa.Value) bool
				walk = func(x ssa.Value) bool {
					if seen[x] {
						return false
					}
					seen[x] = true
					if ex, isEx := x.(*ssa.Extract); isEx && ex.Tuple == ssa.Value(inLoop) && ex.Index == k {
						return true
					}
					if ph, isPhi := x.(*ssa.Phi); isPhi {
						for _, e := range ph.Edges {
							if walk(e) {
								return true
							}
						}
					}
					return false
				}
				return walk(v)
			}
			for k, what := range []string{"node availability", "free external ports"} {
				c.Ob("R3", "predicate: "+what+" left by one pending reservation is what the next one is placed on", inLoop.Pos(), carries(inLoop.Call.Args[k], k), "every pending reservation is checked against the full "+what+": their sum can exceed it")
				c.Ob("R3", "predicate: the new reservation is placed on the "+what+" the pending ones left", final.Pos(), carries(final.Call.Args[k], k), "the new reservation is checked against the "+what+" before the pending ones were placed")
			}
		} else {
			c.Ob("R3", "predicate places pending reservations then the new one", raf.Pos(), false, "")
		}
	}
	// the inventory handed on after placing a reservation carries the adjusted availability of every node
	{
		adj := l.Func("provider/cluster", "", "reservationAdjustInventory")
		c.Analysed(fnName(adj))
		n := 0
		for _, call := range callsIn(adj, false) {
			if calleeFull(call) != "builtin.append" || !strings.HasSuffix(call.Common().Args[0].Type().String(), "cluster/types.Node") {
				continue
			}
			n++
			el := Sym(call.Common().Args[1])
			ok := strings.HasPrefix(el, "[cluster.NewNode(") && strings.Contains(el, "types.Node.Available(") && strings.Contains(el, "ResourceUnits.Sub(")
			if ok {
				// third argument: the running availability (phi over Available() and Sub results), not the node's original
				if sl, isSl := call.Common().Args[1].(*ssa.Slice); isSl {
					if arr, isA := sl.X.(*ssa.Alloc); isA {
						for _, e := range arrayStores(arr) {
							if nn, isC := stripConv(e).(*ssa.Call); isC && len(nn.Call.Args) == 3 {
								// the availability handed on carries the results of the subtractions
								if a2 := Sym(nn.Call.Args[2]); !strings.Contains(a2, "ResourceUnits.Sub(") {
									ok = false
								}
							} else {
								ok = false
							}
						}
					}
				}
			}
			c.Ob("R3", "placing a reservation hands on every node with its adjusted availability", call.Pos(), ok, "a node is carried over with its original availability after resources were placed on it: "+short(el))
		}
		c.Ob("R3", "the adjusted inventory is rebuilt node by node", adj.Pos(), n >= 1, "")
		// a unit is placed only if Sub succeeded, and the count is decremented per placed unit
		okSub := false
		for _, call := range callsIn(adj, false) {
			if calleeMethod(call) == "Sub" {
				for _, rr := range *call.(*ssa.Call).Referrers() {
					if ex, isEx := rr.(*ssa.Extract); isEx && ex.Index == 1 {
						okSub = true
					}
				}
			}
		}
		c.Ob("R3", "a unit counts as placed only if subtracting it from the node's availability succeeded", adj.Pos(), okSub, "")
	}
	// re-enable only after a successful fetch
	{
		var allow *ssa.Function
		for _, g := range fnAndClosures(run)[1:] {
			eachInstr(g, func(i ssa.Instruction) {
				if st, ok := i.(*ssa.Store); ok && strings.Contains(Sym(st.Addr), "reserveChLocal") && strings.Contains(Sym(st.Val), "reservech") {
					allow = g
				}
			})
		}
		c.Ob("R3", "reservation processing has a single enabling site", run.Pos(), allow != nil, "")
		if allow != nil {
			n := 0
			for _, b := range run.Blocks {
				for _, in := range b.Instrs {
					call, ok := in.(*ssa.Call)
					if !ok {
						continue
					}
					callee := ""
					if mc2, ok := call.Call.Value.(*ssa.MakeClosure); ok {
						callee = mc2.Fn.Name()
					} else if f := call.Call.StaticCallee(); f != nil {
						callee = f.Name()
					} else {
						callee = Sym(call.Call.Value)
					}
					if !strings.Contains(callee, allow.Name()) && call.Call.StaticCallee() != allow {
						continue
					}
					n++
					okErr := false
					for _, a := range factsAt(b) {
						if a.Op == "eq" && isNilConst(a.Y) && strings.Contains(Sym(a.X), "Result.Error(") {
							okErr = true
						}
					}
					// the snapshot was taken from this result before enabling
					stored := false
					for v := range invFam {
						if ta, ok := v.(*ssa.TypeAssert); ok && instrDominates(ta, call) {
							stored = true
						}
					}
					c.Ob("R3", "reservations are processed again only after a successful inventory fetch was stored", call.Pos(), okErr && stored, "requests are granted against a stale node snapshot after a failed refresh")
				}
			}
			c.Ob("R3", "enabling site is called from the fetch-result case", run.Pos(), n >= 1, "")
		}
	}

	// ---- R4 release removes exactly one
	{
		nrem := 0
		for _, b := range run.Blocks {
			for _, in := range b.Instrs {
				call, ok := in.(*ssa.Call)
				if !ok || calleeFull(call) != "builtin.append" {
					continue
				}
				sl0, isSl := call.Call.Args[0].(*ssa.Slice)
				if !isSl || !resFam[sl0.X] {
					continue
				}
				nrem++
				h := loopHeaderOf(b)
				ok2 := h != nil
				if ok2 {
					// from the removal, the scan's header is not re-entered before the outer loop's select
					hdr := h.Instrs[len(h.Instrs)-1]
					ok2 = mustPassFrom(run, call, hdr, func(i ssa.Instruction) bool { _, isSel := i.(*ssa.Select); return isSel })
				}
				c.Ob("R4", "release leaves the scan right after removing one reservation", call.Pos(), ok2, "the scan continues over the shifted slice after a removal: a second entry can be removed or skipped")
				// guarded by order equality
				eq := false
				for _, a := range factsAt(b) {
					if a.Op == "true" {
						if cv, _ := callOf(a.X); cv != nil && calleeMethod(cv) == "Equals" && strings.Contains(Sym(cv.Call.Args[0]), "OrderID(") && strings.HasSuffix(Sym(cv.Call.Args[1]), ".order") {
							eq = true
						}
					}
				}
				c.Ob("R4", "the reservation removed is the one of the requested order", call.Pos(), eq, "")
			}
		}
		helperRem := 0
		if nrem == 0 {
			for _, h := range helpersOf(run) {
				eachInstr(h, func(i ssa.Instruction) {
					if call, ok := i.(*ssa.Call); ok && calleeFull(call) == "builtin.append" && len(call.Call.Args) == 2 {
						_, s0 := call.Call.Args[0].(*ssa.Slice)
						_, s1 := call.Call.Args[1].(*ssa.Slice)
						if s0 && s1 {
							helperRem++
						}
					}
				})
			}
		}
		if nrem == 0 && helperRem > 0 {
			// the release case was moved into a new helper that hands the shortened list back: the rules above are
			// written for the in-loop form and do not decide this one
			c.Info("R4", "the removal sits in a new helper of the loop function: single-removal rules not decided", run.Pos(), "")
		} else {
			c.Ob("R4", "exactly one removal site", run.Pos(), nrem == 1, "removal sites: "+itoa(nrem))
		}
		// not found -> error reply
		nf := false
		eachInstr(run, func(i ssa.Instruction) {
			if s, ok := i.(*ssa.Send); ok && strings.Contains(Sym(s.X), "err: g:cluster.errReservationNotFound") {
				nf = true
			}
		})
		c.Ob("R4", "a release or lookup miss is answered with an error", run.Pos(), nf, "")
	}

	// ---- R5 confinement
	{
		bad := ""
		n := 0
		for _, fn := range l.pkgFuncs("provider/cluster") {
			root := fn
			for root.Parent() != nil {
				root = root.Parent()
			}
			eachInstr(fn, func(i ssa.Instruction) {
				if st, ok := i.(*ssa.Store); ok {
					if fa, ok := st.Addr.(*ssa.FieldAddr); ok {
						tn, f := structFieldOf(fa)
						if strings.HasSuffix(tn, "cluster.inventoryService") && f == "availableExternalPorts" {
							n++
							if root != run && root.Name() != "newInventoryService" {
								bad += fnName(fn) + " "
							}
						}
						if strings.HasSuffix(tn, "cluster.reservation") && f == "allocated" {
							n++
							if root != run {
								bad += fnName(fn) + " "
							}
						}
					}
				}
			})
		}
		c.Ob("R5", "free-port counter and allocation flags are written only by the service loop", run.Pos(), bad == "" && n >= 3, "written from "+bad)
		c.portTransitions(run)
		c.inventoryClientRules("R4")
		// a reservation is found / released by comparing order ids: equal means every field equal (shared with C06-R6)
		c.idEqualsComplete("R4")
		// the commit levels the inventory scales by are the ones the operator configured, kind by kind
		c.configPlumbing("R3")
		c.cancelBeforeDrain("R5", run)
	}
}

func paramLabel(fn *ssa.Function, i int) string {
	if i < 0 {
		return "captured/global state"
	}
	if i < len(fn.Params) {
		if i == 0 && fn.Signature.Recv() != nil {
			return "receiver " + fn.Params[i].Name()
		}
		return "argument " + fn.Params[i].Name()
	}
	return "param#" + itoa(i)
}

// valueFamily: values of fn connected to a seed through phis, appends, slices and conversions (a loop-carried
// local variable and everything it is rebuilt from).
func valueFamily(fn *ssa.Function, seed func(ssa.Value) bool) map[ssa.Value]bool {
	fam := map[ssa.Value]bool{}
	for _, p := range fn.Params {
		if seed(p) {
			fam[p] = true
		}
	}
	eachInstr(fn, func(i ssa.Instruction) {
		if v, ok := i.(ssa.Value); ok && seed(v) {
			fam[v] = true
		}
	})
	changed := true
	for changed {
		changed = false
		// the family extends through new helpers (see transparent.go): arguments bind parameters, returned
		// members make the call a member
		eachInstrDeep(fn, func(i ssa.Instruction) {
			v, ok := i.(ssa.Value)
			if !ok || fam[v] {
				return
			}
			switch x := i.(type) {
			case *ssa.Phi:
				for _, e := range x.Edges {
					if fam[e] {
						fam[v] = true
						changed = true
					}
				}
			case *ssa.Slice:
				if fam[x.X] {
					fam[v] = true
					changed = true
				}
			case *ssa.Call:
				if calleeFull(x) == "builtin.append" && fam[x.Call.Args[0]] {
					fam[v] = true
					changed = true
				}
				if g := newHelperCallee(x); g != nil {
					for k, a := range x.Call.Args {
						if fam[a] && k < len(g.Params) && !fam[g.Params[k]] {
							fam[g.Params[k]] = true
							changed = true
						}
					}
					if g.Signature.Results().Len() == 1 {
						for _, rv := range helperReturns(g, 0) {
							if fam[rv] && !fam[v] {
								fam[v] = true
								changed = true
							}
						}
					}
				}
			case *ssa.Extract:
				if cv, isC := x.Tuple.(*ssa.Call); isC {
					if g := newHelperCallee(cv); g != nil {
						for _, rv := range helperReturns(g, x.Index) {
							if fam[rv] && !fam[v] {
								fam[v] = true
								changed = true
							}
						}
					}
				}
			}
		})
	}
	return fam
}

// sentValueField: for a send of an inventoryResponse literal, the value stored in its `value` field.
func sentValueField(s *ssa.Send) ssa.Value {
	ld, ok := s.X.(*ssa.UnOp)
	if !ok {
		return nil
	}
	a, ok := ld.X.(*ssa.Alloc)
	if !ok {
		return nil
	}
	var out ssa.Value
	for _, r := range *a.Referrers() {
		if fa, ok := r.(*ssa.FieldAddr); ok && fieldName(fa.X.Type(), fa.Field) == "value" {
			for _, rr := range *fa.Referrers() {
				if st, ok := rr.(*ssa.Store); ok {
					out = st.Val
				}
			}
		}
	}
	return out
}

// portTransitions (R3): the free-external-port counter follows the deployment status of a reservation: its endpoint
// count is subtracted exactly on the transition not-deployed -> deployed and added back exactly on deployed ->
// not-deployed. Decided by enumerating the four (was deployed, is deployed) cases against the conditions that
// dominate each update of the counter.
func (c *Check) portTransitions(run *ssa.Function) {
	l := c.L
	n := 0
	eachInstrDeep(run, func(i ssa.Instruction) {
		st, ok := i.(*ssa.Store)
		if !ok {
			return
		}
		fa, isFA := st.Addr.(*ssa.FieldAddr)
		if !isFA || fieldName(fa.X.Type(), fa.Field) != "availableExternalPorts" {
			return
		}
		bo, isBO := st.Val.(*ssa.BinOp)
		if !isBO || (bo.Op != token.ADD && bo.Op != token.SUB) {
			return
		}
		fn := st.Parent()
		// the assignment "res.allocated = <status == deployed>" that precedes the update
		var flagStore *ssa.Store
		eachInstr(fn, func(j ssa.Instruction) {
			if s2, isSt := j.(*ssa.Store); isSt {
				if f2, isF := s2.Addr.(*ssa.FieldAddr); isF && fieldName(f2.X.Type(), f2.Field) == "allocated" && instrDominates(s2, st) {
					flagStore = s2
				}
			}
		})
		n++
		inst := "free external ports " + map[bool]string{true: "+=", false: "-="}[bo.Op == token.ADD] + " endpoints of a reservation only on the matching status transition"
		if flagStore == nil {
			c.Ob("R3", inst, st.Pos(), false, "the update is not preceded by the assignment of the reservation's deployed flag")
			return
		}
		statusEq, _ := flagStore.Val.(*ssa.BinOp) // status == deployed
		classify := func(v ssa.Value) string {
			if statusEq != nil && v == ssa.Value(statusEq) {
				return "now"
			}
			if ld, isLd := v.(*ssa.UnOp); isLd && ld.Op == token.MUL {
				if f3, isF := ld.X.(*ssa.FieldAddr); isF && fieldName(f3.X.Type(), f3.Field) == "allocated" {
					if instrDominates(flagStore, ld) {
						return "now"
					}
					return "prev"
				}
			}
			return ""
		}
		type asg struct{ now, prev bool }
		consistent := []asg{{false, false}, {false, true}, {true, false}, {true, true}}
		val := func(a asg, w string) bool {
			if w == "now" {
				return a.now
			}
			return a.prev
		}
		for _, at := range factsAt(st.Block()) {
			var keep []asg
			for _, a := range consistent {
				okA := true
				switch at.Op {
				case "true", "false":
					if w := classify(at.X); w != "" {
						okA = val(a, w) == (at.Op == "true")
					}
				case "eq", "neq":
					// status == deployed written out again
					if statusEq != nil && at.Y != nil && Sym(at.X) == Sym(statusEq.X) && Sym(at.Y) == Sym(statusEq.Y) {
						okA = a.now == (at.Op == "eq")
					} else if at.Y != nil {
						wx, wy := classify(at.X), classify(at.Y)
						if wx != "" && wy != "" {
							okA = (val(a, wx) == val(a, wy)) == (at.Op == "eq")
						}
					}
				}
				if okA {
					keep = append(keep, a)
				}
			}
			consistent = keep
		}
		want := asg{now: true, prev: false}
		if bo.Op == token.ADD {
			want = asg{now: false, prev: true}
		}
		okT := len(consistent) == 1 && consistent[0] == want
		desc := ""
		for _, a := range consistent {
			desc += "(was deployed=" + map[bool]string{true: "yes", false: "no"}[a.prev] + ", is deployed=" + map[bool]string{true: "yes", false: "no"}[a.now] + ") "
		}
		c.Ob("R3", inst, st.Pos(), okT, "the counter is updated in the cases "+desc+": ports are freed that were never taken, or taken twice ("+l.Pos(st.Pos())+")")
	})
	if n != 2 {
		c.Ob("R3", "free external ports are adjusted once for deployed and once for no-longer-deployed", run.Pos(), false, "found "+itoa(n)+" updates of the counter")
	}
}

// inventoryClientRules: (shared: C12-R4, C13-R4 — an order's reservation can only be released through the loop —,
// C14-R6 — manifest updates of a deployed lease are routed by a successful lookup).
func (c *Check) inventoryClientRules(rule string) {
	l := c.L
	run := l.Func("provider/cluster", "inventoryService", "run")
	// the service's client-side entry points decide nothing themselves: every return of reserve / unreserve / lookup
	// has passed the select that talks to the loop (the loop is the only place that knows the reservations)
	names := []string{"reserve", "unreserve", "lookup"}
	if c.ID == "C12" {
		names = append(names, "status") // what is reported is the loop's list at the time of asking, not a kept copy
	}
	for _, name := range names {
		fn := l.Func("provider/cluster", "inventoryService", name)
		c.Analysed(fnName(fn))
		okAll := true
		nret := 0
		for _, b := range fn.Blocks {
			if r, isR := b.Instrs[len(b.Instrs)-1].(*ssa.Return); isR {
				nret++
				if !mustPass(fn, r, func(in ssa.Instruction) bool { _, isSel := in.(*ssa.Select); return isSel }) {
					okAll = false
				}
			}
		}
		c.Ob(rule, name+" answers only after asking the inventory loop", fn.Pos(), okAll && nret > 0, "a return is reachable without the request having been put to the loop: the answer is computed from something other than the loop's reservation list")
	}
	// a lookup finds a reservation whatever its deployment status (manifest updates of a deployed lease look it up)
	{
		var lookSel *ssa.Select
		lookIdx := -1
		eachInstrDeep(run, func(i ssa.Instruction) {
			if sel, isSel := i.(*ssa.Select); isSel {
				for k, stt := range sel.States {
					if strings.HasSuffix(strings.ReplaceAll(Sym(stt.Chan), "*", ""), "is.lookupch") {
						lookSel, lookIdx = sel, k
					}
				}
			}
		})
		okLook := lookSel != nil
		why := "lookup case not found in the service loop"
		if lookSel != nil {
			home := lookSel.Parent()
			// the case block
			var caseBlk *ssa.BasicBlock
			eachInstr(home, func(i ssa.Instruction) {
				if ifi, isIf := i.(*ssa.If); isIf {
					if b, isB := ifi.Cond.(*ssa.BinOp); isB && b.Op == token.EQL {
						if ex, isEx := b.X.(*ssa.Extract); isEx && ex.Tuple == ssa.Value(lookSel) && ex.Index == 0 {
							if k, isK := constInt(b.Y); isK && int(k) == lookIdx {
								caseBlk = ifi.Block().Succs[0]
							}
						}
					}
				}
			})
			if caseBlk == nil {
				okLook = false
			} else {
				eachInstrDeep(home, func(i ssa.Instruction) {
					ifi, isIf := i.(*ssa.If)
					if !isIf || !domLift(home, caseBlk, ifi) {
						return
					}
					if strings.HasSuffix(Sym(ifi.Cond), ".allocated") || strings.Contains(Sym(ifi.Cond), ".allocated ") {
						okLook = false
						why = "the lookup skips reservations by their deployed flag (" + l.Pos(ifi.Pos()) + "): a deployed lease's reservation is reported as not found and its manifest updates are dropped"
					}
				})
			}
		}
		c.Ob(rule, "lookup finds a reservation whatever its deployment status", run.Pos(), okLook, why)
	}
}

// commitLevelRoles: the reservation checked against capacity is the request "scaled by the provider's configured commit
// levels": in the function that builds it, every call of the commit-level helper pairs the level of one resource kind
// (CPU / Memory / Storage) with the requested quantity of that same kind and stores the result into that same kind,
// and each of the three kinds is scaled.
func (c *Check) commitLevelRoles(rule string) {
	l := c.L
	fn := l.Func("provider/cluster", "inventoryService", "committedResources")
	c.Analysed(fnName(fn))
	seen := map[string]bool{}
	kindOf := func(s string) string {
		for _, k := range []string{"CPU", "Memory", "Storage"} {
			if strings.Contains(s, "Get"+k+"(") || strings.Contains(s, "."+k+".") || strings.HasSuffix(s, "."+k) {
				return k
			}
		}
		return ""
	}
	for _, g := range fnAndClosuresDeep(fn) {
		for _, call := range callsInOwn(g) {
			if !strings.HasSuffix(calleeFull(call), "cluster/util.ComputeCommittedResources") {
				continue
			}
			a := call.Common().Args
			lvl := strings.TrimSuffix(lastField(Sym(a[0])), "CommitLevel")
			src := kindOf(Sym(a[1]))
			dst := ""
			if cv, ok := call.(*ssa.Call); ok {
				for _, r := range *cv.Referrers() {
					if st, isS := r.(*ssa.Store); isS {
						if fa, isFA := st.Addr.(*ssa.FieldAddr); isFA {
							tn, _ := structFieldOf(fa)
							for _, k := range []string{"CPU", "Memory", "Storage"} {
								if strings.HasSuffix(tn, "types."+k) {
									dst = k
								}
							}
						}
					}
				}
			}
			seen[lvl] = true
			ok := lvl != "" && lvl == src && (dst == "" || dst == lvl)
			c.Ob(rule, "committed "+src+" of a request is scaled by the "+src+" commit level", call.Pos(), ok, "the "+src+" quantity is scaled by the "+lvl+" commit level and booked as "+dst+": reservations are checked against capacity with the wrong amount")
		}
	}
	c.Ob(rule, "all three resource kinds of a request are scaled by their commit level", fn.Pos(), seen["CPU"] && seen["Memory"] && seen["Storage"], "a kind is booked unscaled or scaled by another kind's level")
}

// sliceLitElem: the single element of a one-element slice literal (the variadic argument of append(xs, v)).
func sliceLitElem(v ssa.Value) ssa.Value {
	sl, ok := v.(*ssa.Slice)
	if !ok {
		return nil
	}
	arr, ok := sl.X.(*ssa.Alloc)
	if !ok {
		return nil
	}
	var elem ssa.Value
	n := 0
	for _, r := range *arr.Referrers() {
		if ia, ok := r.(*ssa.IndexAddr); ok {
			for _, rr := range *ia.Referrers() {
				if st, ok := rr.(*ssa.Store); ok && st.Addr == ssa.Value(ia) {
					elem = st.Val
					n++
				}
			}
		}
	}
	if n != 1 {
		return nil
	}
	return elem
}

// configPlumbing: where the provider service copies its configuration into the cluster service's, a field is filled
// from the field of the same name (the three commit levels differ only in name: a crossed pair scales storage by the
// memory level).
func (c *Check) configPlumbing(rule string) {
	l := c.L
	ns := l.Func("provider", "", "NewService")
	if ns == nil {
		c.Info(rule, "provider.NewService not found, configuration plumbing not decided", token.NoPos, "")
		return
	}
	c.Analysed(fnName(ns))
	n := 0
	for _, g := range fnAndClosuresDeep(ns) {
		eachInstr(g, func(i ssa.Instruction) {
			st, ok := i.(*ssa.Store)
			if !ok {
				return
			}
			dfa, ok := st.Addr.(*ssa.FieldAddr)
			if !ok {
				return
			}
			dt, df := structFieldOf(dfa)
			if !strings.HasSuffix(dt, ".Config") && !strings.HasSuffix(dt, "Config") {
				return
			}
			sf := ""
			var srcT types.Type
			switch v := st.Val.(type) {
			case *ssa.Field:
				if strings.Contains(v.X.Type().String(), "Config") {
					sf = fieldName(v.X.Type(), v.Field)
					srcT = v.X.Type()
				}
			case *ssa.UnOp:
				if fa, isFA := v.X.(*ssa.FieldAddr); isFA {
					if tn, f := structFieldOf(fa); strings.Contains(tn, "Config") {
						sf = f
						srcT = fa.X.Type()
					}
				}
			}
			if sf == "" || srcT == nil {
				return
			}
			// only a crossed pair is judged: the source has a field of the destination's name and another one was taken
			if pt, isP := srcT.Underlying().(*types.Pointer); isP {
				srcT = pt.Elem()
			}
			sst, isS := srcT.Underlying().(*types.Struct)
			if !isS {
				return
			}
			hasSame := false
			for k := 0; k < sst.NumFields(); k++ {
				if sst.Field(k).Name() == df {
					hasSame = true
				}
			}
			if !hasSame {
				return
			}
			n++
			c.Ob(rule, "cluster configuration field "+df+" is filled from the provider configuration's "+df, st.Pos(), sf == df, "cluster."+df+" is filled from "+sf+": the operator's "+df+" setting is ignored and another one applied in its place")
		})
	}
	if n == 0 {
		c.Info(rule, "no configuration field copies found in provider.NewService, plumbing not decided", ns.Pos(), "")
	}
}

// endpointCountSums: the number of external ports a reservation needs is the sum over its resource entries: the counter
// returned by reservationCountEndpoints is carried around the loop over the entries and each iteration ADDS to it. An
// assignment keeps only the last entry's ports: a multi-service group is granted although the free ports do not
// cover it.
func (c *Check) endpointCountSums(rule string) {
	l := c.L
	fn := l.Func("provider/cluster", "", "reservationCountEndpoints")
	if fn == nil {
		c.Info(rule, "reservationCountEndpoints not found, port sum not decided", token.NoPos, "")
		return
	}
	c.Analysed(fnName(fn))
	decided := false
	for _, b := range fn.Blocks {
		r, ok := b.Instrs[len(b.Instrs)-1].(*ssa.Return)
		if !ok || len(r.Results) != 1 {
			continue
		}
		ph, isPhi := r.Results[0].(*ssa.Phi)
		if !isPhi {
			// returned straight from the loop header's phi, possibly through the exit block
			if u, isU := r.Results[0].(*ssa.UnOp); isU {
				_ = u
			}
			continue
		}
		if loopHeaderOf(ph.Block()) == nil {
			continue
		}
		decided = true
		sums := true
		for _, e := range ph.Edges {
			if k, isK := constInt(e); isK && k == 0 {
				continue // initial value
			}
			bo, isBO := e.(*ssa.BinOp)
			if !isBO || bo.Op != token.ADD || (bo.X != ssa.Value(ph) && bo.Y != ssa.Value(ph)) {
				sums = false
			}
		}
		c.Ob(rule, "the external ports of a reservation are summed over its resource entries", r.Pos(), sums, "the count returned is not the running sum: entries before the last one are not counted against the free external ports")
	}
	if !decided {
		c.Info(rule, "reservationCountEndpoints: form of the count not recognised, sum not decided", fn.Pos(), "")
	}
}

// borrowedReservationList: the loop function owns the list of outstanding reservations; everything else that is
// handed the list (metrics, the admission predicate, the status computation) borrows it. A borrower must not store
// into its elements, and must not append to the list or to a re-slice of it (append writes into the shared backing
// array whenever capacity allows: the in-place filter idiom `xs[:0]` overwrites the owner's entries).
func (c *Check) borrowedReservationList(rule string) {
	l := c.L
	run := l.Func("provider/cluster", "inventoryService", "run")
	n := 0
	owner := map[*ssa.Function]bool{}
	for _, h := range helpersOf(run) {
		owner[h] = true // code split off the loop function is still the loop
	}
	for _, fn := range l.pkgFuncs("provider/cluster") {
		if fn == run || fn.Parent() == run {
			continue
		}
		top := fn
		for top.Parent() != nil {
			top = top.Parent()
		}
		if top == run || owner[top] {
			continue
		}
		for _, p := range fn.Params {
			sl, ok := p.Type().Underlying().(*types.Slice)
			if !ok || !strings.HasSuffix(sl.Elem().String(), "cluster.reservation") {
				continue
			}
			n++
			rooted := map[ssa.Value]bool{p: true}
			for changed := true; changed; {
				changed = false
				eachInstr(fn, func(i ssa.Instruction) {
					v, isV := i.(ssa.Value)
					if !isV || rooted[v] {
						return
					}
					switch x := i.(type) {
					case *ssa.Slice:
						if rooted[x.X] {
							rooted[v] = true
							changed = true
						}
					case *ssa.Phi:
						for _, e := range x.Edges {
							if rooted[e] {
								rooted[v] = true
								changed = true
							}
						}
					case *ssa.Call:
						if calleeFull(x) == "builtin.append" && len(x.Call.Args) > 0 && rooted[x.Call.Args[0]] {
							rooted[v] = true
							changed = true
						}
					}
				})
			}
			bad := ""
			var pos token.Pos = fn.Pos()
			eachInstr(fn, func(i ssa.Instruction) {
				switch x := i.(type) {
				case *ssa.Store:
					if ia, isIA := x.Addr.(*ssa.IndexAddr); isIA && rooted[ia.X] {
						bad = "stores into an element of the list it was handed"
						pos = x.Pos()
					}
				case *ssa.Call:
					if calleeFull(x) == "builtin.append" && len(x.Call.Args) > 0 && rooted[x.Call.Args[0]] {
						bad = "appends to (a re-slice of) the list it was handed: the append writes into the backing array the service loop still uses"
						pos = x.Pos()
					}
				}
			})
			c.Ob(rule, fnName(fn)+" only reads the reservation list it is handed", pos, bad == "", fnName(fn)+" "+bad+": outstanding reservations are overwritten or lost outside the service loop")
		}
	}
	if n < 2 {
		c.Fail("C12-%s lost instances: %d borrowers of the reservation list", rule, n)
	}
}
