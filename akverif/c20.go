package main

import (
	"go/token"
	"go/types"
	"strings"

	"golang.org/x/tools/go/ssa"
)

func init() { registry["C20"] = checkC20 }

// bodyPaths enumerates the acyclic paths through one iteration of the loop with header h (from the body entry
// back to the header or out of the loop) and reports, per path, how many instructions satisfy each predicate.
func bodyPaths(h *ssa.BasicBlock, preds []func(ssa.Instruction) bool, visit func(counts []int, exits bool)) {
	bodyPathsFrom(h, h.Succs[0], preds, visit)
}

// bodyPathsFrom: as bodyPaths, with the successor of the header that enters the body given explicitly.
func bodyPathsFrom(h, entry *ssa.BasicBlock, preds []func(ssa.Instruction) bool, visit func(counts []int, exits bool)) {
	body := loopBlocks(h)
	var walk func(b *ssa.BasicBlock, counts []int, seen map[*ssa.BasicBlock]bool, depth int)
	walk = func(b *ssa.BasicBlock, counts []int, seen map[*ssa.BasicBlock]bool, depth int) {
		if depth > 64 {
			return
		}
		c2 := append([]int{}, counts...)
		for _, in := range b.Instrs {
			for i, p := range preds {
				if p(in) {
					c2[i]++
				}
			}
		}
		for _, s := range b.Succs {
			if s == h {
				visit(c2, false)
				continue
			}
			if !body[s] {
				visit(c2, true)
				continue
			}
			if seen[s] {
				continue // inner loop: ignore repeated iterations
			}
			seen[s] = true
			walk(s, c2, seen, depth+1)
			delete(seen, s)
		}
		if len(b.Succs) == 0 {
			visit(c2, true)
		}
	}
	walk(entry, make([]int, len(preds)), map[*ssa.BasicBlock]bool{entry: true}, 0)
}

func checkC20(c *Check) {
	c.Explanation = "Decided over package provider/manifest: (R1) linearity of reply obligations — a submission received by the manager is appended to the request queue on every path; on every path through one iteration of the validation loop a request is either answered (send on its reply channel) or moved to the pending list, exactly once; both queues are cleared only right after a loop over that same queue that answers every element without early exit; (R2) exit and failure paths — the manager's loop exit passes through the function that answers everything outstanding, a failed chain fetch answers all queued requests, the fetch channel variable is reset on every path after its result was received (so a later submission can trigger a new fetch), and a submission that cannot be enqueued because the manager is stopping is answered; (R3) the reply channel has capacity >= 1 and Submit returns on the first of reply / context done / service done; (R4) the announcement is dominated by: leases held, chain data present, a validated manifest present, and carries the latest validated manifest and the fetched data; pending submissions are acknowledged only after the announcement loop; (R5) only manifests whose validation returned nil are recorded, and validation runs only with chain data present. The manager's inbox methods send to its loop without a default case."
	c.NotDecided = "hang-freedom when a callee (hostname service, chain query) never returns"
	l := c.L
	pkg := "provider/manifest"
	nrm := func(s string) string { return strings.ReplaceAll(s, "*", "") }
	run := l.Func(pkg, "manager", "run")
	defer c.cancelBeforeDrain("R2", run)
	defer c.leaseClosedRouting("R4")
	vr := l.Func(pkg, "manager", "validateRequests")
	fa := l.Func(pkg, "manager", "fillAllRequests")
	em := l.Func(pkg, "manager", "emitReceivedEvents")
	for _, f := range []*ssa.Function{run, vr, fa, em} {
		c.Analysed(fnName(f))
	}
	// ---- R1 (a) clear only after a draining loop
	nclear := 0
	for _, fn := range l.pkgFuncs(pkg) {
		eachInstr(fn, func(i ssa.Instruction) {
			st, ok := i.(*ssa.Store)
			if !ok || !isNilConst(st.Val) {
				return
			}
			q := nrm(Sym(st.Addr))
			if q != "&p:m.requests" && q != "&p:m.pendingRequests" {
				return
			}
			nclear++
			queue := strings.TrimPrefix(q, "&p:m.")
			// find the loop over that queue whose exit dominates the store
			ok2 := false
			why := "the queue is cleared without a preceding loop that answers each element"
			for _, b := range fn.Blocks {
				ifi, isIf := b.Instrs[len(b.Instrs)-1].(*ssa.If)
				if !isIf {
					continue
				}
				// the loop's bound test, in either polarity: `i < len(queue)` continues into the body, `i >= len(queue)`
				// leaves the loop
				cs := nrm(Sym(ifi.Cond))
				entry, exit := b.Succs[0], b.Succs[1]
				switch {
				case strings.HasSuffix(cs, "< builtin.len(p:m."+queue+"))"):
				case strings.HasSuffix(cs, ">= builtin.len(p:m."+queue+"))") && loopHeaderOf(b) != nil:
					entry, exit = b.Succs[1], b.Succs[0]
				default:
					continue
				}
				if !(exit == st.Block() || exit.Dominates(st.Block())) {
					continue
				}
				// no other header for the same queue between
				okBody := true
				hdr := b
				if lh := loopHeaderOf(b); lh != nil && lh != b && entry == b.Succs[1] {
					hdr = lh
				}
				bodyPathsFrom(hdr, entry, []func(ssa.Instruction) bool{
					func(i ssa.Instruction) bool { // answered
						s, isS := i.(*ssa.Send)
						if !isS {
							return false
						}
						cs := nrm(Sym(s.Chan))
						return strings.HasPrefix(cs, "p:m."+queue+"[") && (queue == "pendingRequests" || strings.HasSuffix(cs, ".ch"))
					},
					func(i ssa.Instruction) bool { // moved to pending
						s2, isSt := i.(*ssa.Store)
						return isSt && queue == "requests" && nrm(Sym(s2.Addr)) == "&p:m.pendingRequests" && strings.Contains(nrm(Sym(s2.Val)), "p:m.requests[") && strings.Contains(nrm(Sym(s2.Val)), ".ch]")
					},
				}, func(counts []int, exits bool) {
					if exits || counts[0]+counts[1] != 1 {
						okBody = false
					}
				})
				if okBody {
					ok2 = true
				} else {
					why = "an iteration of the loop over " + queue + " can leave an element unanswered, answer it twice, or exit early"
				}
			}
			c.Ob("R1", "queue "+queue+" is cleared in "+fn.Name()+" only after every element was answered or moved exactly once", st.Pos(), ok2, why)
		})
	}
	if nclear < 4 {
		c.Fail("C20-R1 lost instances: %d clears", nclear)
	}
	// (b) enqueue on receive
	{
		ok := false
		eachInstrDeep(run, func(i ssa.Instruction) {
			if st, isSt := i.(*ssa.Store); isSt && nrm(Sym(st.Addr)) == "&p:m.requests" {
				v := Sym(st.Val)
				if strings.HasPrefix(nrm(v), "builtin.append(p:m.requests, [") && strings.Contains(v, "Select#") {
					ok = true
				}
			}
		})
		c.Ob("R1", "every submission received by the manager is queued", run.Pos(), ok, "a received submission is dropped without reply")
		// the handler then validates, announces, (re)starts the fetch
		for _, want := range []string{"validateRequests", "emitReceivedEvents", "maybeFetchData"} {
			found := false
			for _, call := range callsIn(run, false) {
				if calleeMethod(call) == want {
					for _, a := range factsAt(call.Block()) {
						_ = a
					}
					found = true
				}
			}
			c.Ob("R1", "the manager loop drives "+want, run.Pos(), found, "")
		}
	}
	// other sends on reply channels only in the known functions
	for _, fn := range l.pkgFuncs(pkg) {
		eachInstr(fn, func(i ssa.Instruction) {
			s, ok := i.(*ssa.Send)
			if !ok {
				return
			}
			cs := nrm(Sym(s.Chan))
			if !(strings.HasSuffix(cs, ".ch") || strings.Contains(cs, "pendingRequests[")) || !strings.Contains(s.Chan.Type().String(), "error") {
				return
			}
			root := fn
			for root.Parent() != nil {
				root = root.Parent()
			}
			okf := inCodeOf(vr, root) || inCodeOf(fa, root) || inCodeOf(em, root) || root.Name() == "handleManifest" || root.Name() == "run" && strings.Contains(fnName(root), "service")
			c.Ob("R1", "reply sent from "+fnName(fn), s.Pos(), okf, "a reply is written outside the queue discipline (risk of double reply)")
		})
	}

	// ---- R2 exit / failure paths
	{
		// loop exit -> fillAllRequests(ErrNotRunning)
		var fill ssa.CallInstruction
		for _, call := range callsIn(run, false) {
			if call.Common().StaticCallee() == fa && strings.Contains(Sym(call.Common().Args[1]), "ErrNotRunning") {
				fill = call
			}
		}
		ok := fill != nil
		if ok {
			for _, r := range successReturns(run) {
				if !mustPass(run, r, func(i ssa.Instruction) bool { return i == fill.(ssa.Instruction) }) {
					ok = false
				}
			}
		}
		c.Ob("R2", "the manager answers everything outstanding before it terminates", run.Pos(), ok, "submissions queued at shutdown are never answered")
		// fetch failure answers all
		okErr := false
		for _, call := range callsIn(run, false) {
			if call.Common().StaticCallee() == fa && strings.Contains(Sym(call.Common().Args[1]), "Result.Error(") {
				for _, a := range factsAt(call.Block()) {
					if a.Op == "neq" && isNilConst(a.Y) && strings.Contains(Sym(a.X), "Result.Error(") {
						okErr = true
					}
				}
			}
		}
		c.Ob("R2", "a failed chain fetch answers every queued submission with the error", run.Pos(), okErr, "")
		// runch reset on every path after its receive
		var sel *ssa.Select
		eachInstr(run, func(i ssa.Instruction) {
			if s, isS := i.(*ssa.Select); isS && sel == nil {
				sel = s
			}
		})
		okReset := false
		detail := "fetch channel variable not found"
		if sel != nil {
			for idx, st := range sel.States {
				ph, isPhi := st.Chan.(*ssa.Phi)
				if !isPhi || st.Dir != types.RecvOnly || !strings.Contains(st.Chan.Type().String(), "runner.Result") {
					continue
				}
				// case block for idx
				var cb *ssa.BasicBlock
				eachInstr(run, func(i ssa.Instruction) {
					if ifi, ok := i.(*ssa.If); ok {
						if b, ok := ifi.Cond.(*ssa.BinOp); ok {
							if ex, ok := b.X.(*ssa.Extract); ok && ex.Tuple == ssa.Value(sel) {
								if k, ok := constInt(b.Y); ok && int(k) == idx {
									cb = ifi.Block().Succs[0]
								}
							}
						}
					}
				})
				if cb == nil {
					// last case: else branch of the previous test
					continue
				}
				okReset = true
				detail = ""
				// every phi edge of the loop-carried variable coming from a block dominated by the case is nil
				var chk func(p *ssa.Phi, seen map[*ssa.Phi]bool)
				chk = func(p *ssa.Phi, seen map[*ssa.Phi]bool) {
					if seen[p] {
						return
					}
					seen[p] = true
					for k, e := range p.Edges {
						pred := p.Block().Preds[k]
						if cb == pred || cb.Dominates(pred) {
							if q, isQ := e.(*ssa.Phi); isQ && (cb == q.Block() || cb.Dominates(q.Block())) {
								chk(q, seen) // a merge inside the case: all its inputs must be nil
								continue
							}
							if !isNilConst(stripConv(e)) {
								okReset = false
								detail = "after its result was received the fetch channel stays set on a path back to the loop (" + short(Sym(e)) + "): no new fetch is ever started and queued submissions are never answered"
							}
						}
					}
				}
				chk(ph, map[*ssa.Phi]bool{})
			}
		}
		c.Ob("R2", "the fetch channel is reset on every path after its result was received", run.Pos(), okReset, detail)
		// maybeFetchData starts a fetch iff no data and none in flight
		mf := l.Func(pkg, "manager", "maybeFetchData")
		okmf := false
		for _, call := range callsIn(mf, false) {
			if calleeMethod(call) == "fetchData" {
				d, r := false, false
				for _, a := range factsAt(call.Block()) {
					if a.Op == "eq" && isNilConst(a.Y) && nrm(Sym(a.X)) == "p:m.data" {
						d = true
					}
					if a.Op == "eq" && isNilConst(a.Y) && Sym(a.X) == "p:runch" {
						r = true
					}
				}
				okmf = d && r
			}
		}
		c.Ob("R2", "a fetch is started exactly when there is no data and none in flight", mf.Pos(), okmf, "")
		// every submission queued by the loop is followed, within the same iteration, by the fetch trigger: a request
		// parked for missing chain data (for example after a failed fetch) must cause a new fetch or it is never answered
		{
			nq := 0
			okq := true
			eachInstrDeep(run, func(i ssa.Instruction) {
				st, isSt := i.(*ssa.Store)
				if !isSt || nrm(Sym(st.Addr)) != "&p:m.requests" || !strings.HasPrefix(Sym(st.Val), "builtin.append(") {
					return
				}
				at := liftTo(run, st)
				if at == nil {
					return
				}
				h := loopHeaderOf(at.Block())
				if h == nil {
					return
				}
				nq++
				pred := func(in ssa.Instruction) bool {
					x, isC := in.(ssa.CallInstruction)
					return isC && calleeMethod(x) == "maybeFetchData"
				}
				// queued inside a new helper: the trigger may follow inside that helper, on every way out of it
				inHelper := false
				if hf := st.Parent(); hf != run && hf.Parent() == nil {
					inHelper = true
					nout := 0
					for _, b := range hf.Blocks {
						if r, isR := b.Instrs[len(b.Instrs)-1].(*ssa.Return); isR && reachableFrom(st, r) {
							nout++
							if !mustPassFrom(hf, st, r, pred) {
								inHelper = false
							}
						}
					}
					if nout == 0 {
						inHelper = false
					}
				}
				if !inHelper && !mustPassFrom(run, at, h.Instrs[0], pred) {
					okq = false
				}
			})
			c.Ob("R2", "queuing a submission is followed by the fetch trigger before the loop waits again", run.Pos(), okq && nq >= 1, "a submission can be parked without (re)starting the chain fetch it waits for: after a failed fetch it is never answered")
		}
		// handleManifest answers when stopping
		hm := l.Func(pkg, "manager", "handleManifest")
		okhm := false
		eachInstr(hm, func(i ssa.Instruction) {
			if s, isS := i.(*ssa.Send); isS && nrm(Sym(s.Chan)) == "p:req.ch" && strings.Contains(Sym(s.X), "ErrNotRunning") {
				okhm = true
			}
		})
		c.Ob("R2", "a submission that cannot be enqueued because the manager is stopping is answered", hm.Pos(), okhm, "")
	}

	// ---- R3 Submit
	sub := l.Func(pkg, "service", "Submit")
	c.Analysed(fnName(sub))
	{
		capOK := false
		eachInstr(sub, func(i ssa.Instruction) {
			if mk, ok := i.(*ssa.MakeChan); ok {
				if k, isK := constInt(mk.Size); isK && k >= 1 {
					capOK = true
				}
			}
		})
		c.Ob("R3", "the reply channel is buffered: the manager's reply never blocks", sub.Pos(), capOK, "an abandoned submission (context cancelled) would block the manager forever")
		nsel := 0
		ok := true
		eachInstr(sub, func(i ssa.Instruction) {
			if s, isS := i.(*ssa.Select); isS {
				nsel++
				ctx, done := false, false
				for _, st := range s.States {
					cs := Sym(st.Chan)
					if strings.Contains(cs, "Context.Done(") {
						ctx = true
					}
					if strings.Contains(cs, "Lifecycle.Done(") || strings.Contains(cs, "LifecycleReader.Done(") || strings.Contains(cs, "ShuttingDown(") {
						done = true
					}
				}
				if !ctx || !done || !s.Blocking {
					ok = false
				}
			}
		})
		c.Ob("R3", "Submit returns on the first of reply / context done / service done", sub.Pos(), ok && nsel == 2, "")
	}

	// ---- R4 announce guard
	{
		var pub *ssa.Call
		for _, call := range callsIn(em, false) {
			if calleeMethod(call) == "Publish" {
				pub = call.(*ssa.Call)
			}
		}
		c.Ob("R4", "the announcement site exists", em.Pos(), pub != nil, "")
		if pub != nil {
			lease, data, mani := false, false, false
			for _, a := range factsAt(pub.Block()) {
				x := nrm(Sym(a.X))
				if a.Op == "neq" && x == "builtin.len(p:m.leases)" && Sym(a.Y) == "0" {
					lease = true
				}
				if a.Op == "neq" && x == "p:m.data" && isNilConst(a.Y) {
					data = true
				}
				if a.Op == "neq" && x == "builtin.len(p:m.manifests)" && Sym(a.Y) == "0" {
					mani = true
				}
			}
			c.Ob("R4", "announce only while a lease is held", pub.Pos(), lease, "")
			c.Ob("R4", "announce only with the deployment's chain data", pub.Pos(), data, "")
			c.Ob("R4", "announce only with a validated manifest", pub.Pos(), mani, "")
			ev := nrm(Sym(pub.Call.Args[len(pub.Call.Args)-1]))
			c.Ob("R4", "the latest validated manifest and the fetched data are announced, per held lease", pub.Pos(),
				strings.Contains(ev, "Manifest: p:m.manifests[(builtin.len(p:m.manifests) - 1)]") && strings.Contains(ev, "Deployment: p:m.data") && strings.Contains(ev, "LeaseID: p:m.leases[") && loopHeaderOf(pub.Block()) != nil, short(ev))
			// pending acknowledged only after the announcement loop
			h := loopHeaderOf(pub.Block())
			okAck := false
			eachInstrDeep(em, func(i ssa.Instruction) {
				if s, isS := i.(*ssa.Send); isS && strings.Contains(nrm(Sym(s.Chan)), "p:m.pendingRequests[") && isNilConst(stripConv(s.X)) && h != nil {
					if s.Parent() == pub.Parent() {
						if h.Succs[1] == s.Block() || h.Succs[1].Dominates(s.Block()) {
							okAck = true
						}
						return
					}
					// announcement and acknowledgement live in different (new) helpers: compare their calls in em
					pl, al := liftTo(em, pub), liftTo(em, s)
					if pl != nil && al != nil && pl != al && instrDominates(pl, al) {
						okAck = true
					}
				}
			})
			c.Ob("R4", "accepted submissions are acknowledged only after the announcement", pub.Pos(), okAck, "")
		}
		// no leases -> everything answered with the specific error
		okNo := false
		for _, call := range callsIn(em, false) {
			if call.Common().StaticCallee() == fa && strings.Contains(Sym(call.Common().Args[1]), "ErrNoLeaseForDeployment") {
				for _, a := range factsAt(call.Block()) {
					if a.Op == "eq" && nrm(Sym(a.X)) == "builtin.len(p:m.leases)" && Sym(a.Y) == "0" {
						okNo = true
					}
				}
			}
		}
		c.Ob("R4", "without a lease every submission is answered with the no-lease error", em.Pos(), okNo, "")
	}

	// ---- R2 (cont.) no wait that can never end: a receive from a timer's channel on the edge where that timer's Stop()
	// returned true waits for a tick that Stop just cancelled. It is tolerated only where the timer field can be shown to
	// be nil always (every non-nil assignment is itself behind "field != nil": by induction from the nil the
	// constructor leaves, none is ever executed).
	c.timerDrainRule("R2", pkg)
	// validating a submission asks the cluster's hostname service: that call must come back when the service is down
	c.serviceClientSends("R2")

	// ---- R5 only validated manifests (validity = hash equals the latest recorded version, stand-alone and cross validation)
	c.manifestVersionRule("R5")
	c.onlyValidatedRecorded("R5")
	c.managerInboxBlocking("R5")
}

// leaseClosedRouting: the manifest service hands every lease-closed event of this provider to the deployment's manager
// (which then answers later submissions with "no lease" and stops announcing). Between the event's type case and
// manager.removeLease there are exactly two conditions: the lease's provider is this provider, and a manager exists.
// Shared: C20-R4 (announce only while a lease is held), C09-R4 (a manifest is accepted only for a lease at this provider).
func (c *Check) leaseClosedRouting(rule string) {
	l := c.L
	srun := l.Func("provider/manifest", "service", "run")
	c.Analysed(fnName(srun))
	var rm ssa.CallInstruction
	for _, call := range callsIn(srun, false) {
		if calleeMethod(call) == "removeLease" {
			rm = call
		}
	}
	if rm == nil {
		c.Ob(rule, "manifest service: a lease-closed event reaches the manager", srun.Pos(), false, "no call of manager.removeLease in the service loop")
		return
	}
	// the type case
	var caseBlk *ssa.BasicBlock
	eachInstr(rm.Parent(), func(i ssa.Instruction) {
		if ta, ok := i.(*ssa.TypeAssert); ok && ta.CommaOk && strings.HasSuffix(ta.AssertedType.String(), "market/types.EventLeaseClosed") {
			for _, r := range *ta.Referrers() {
				if ex, isEx := r.(*ssa.Extract); isEx && ex.Index == 1 && ex.Referrers() != nil {
					for _, rr := range *ex.Referrers() {
						if ifi, isIf := rr.(*ssa.If); isIf {
							caseBlk = ifi.Block().Succs[0]
						}
					}
				}
			}
		}
	})
	if caseBlk == nil {
		c.Ob(rule, "manifest service: a lease-closed event reaches the manager", rm.Pos(), false, "removeLease is not in the lease-closed case of the event switch")
		return
	}
	okProv, okMgr := false, false
	extra := ""
	for _, a := range factsAt(rm.Block()) {
		if a.If == nil || !(a.If.Block() == caseBlk || domSame(caseBlk, a.If.Block())) {
			continue
		}
		x, y := Sym(a.X), ""
		if a.Y != nil {
			y = Sym(a.Y)
		}
		switch {
		case a.Op == "eq" && ((strings.HasSuffix(x, ".ID.Provider") && strings.Contains(y, "Provider(") && strings.Contains(y, "Address(")) || (strings.HasSuffix(y, ".ID.Provider") && strings.Contains(x, "Provider(") && strings.Contains(x, "Address("))):
			okProv = true
		case a.Op == "neq" && a.Y != nil && isNilConst(a.Y) && strings.Contains(x, "managers["):
			okMgr = true
		default:
			extra += a.Op + " " + short(x) + " " + short(y) + "; "
		}
	}
	c.Ob(rule, "manifest service: lease-closed events are filtered by the lease's provider being this provider", rm.Pos(), okProv, "the event is not compared with this provider's address: closed leases of this provider are ignored (or foreign ones acted on)")
	// ... and removeLease really hands it over: the send to the manager's loop may be abandoned only for shutdown, never
	// because the loop is busy right now (a select with a default case drops the removal)
	if g := rm.Common().StaticCallee(); g != nil && g.Blocks != nil {
		eachInstrDeep(g, func(i ssa.Instruction) {
			sel, isSel := i.(*ssa.Select)
			if !isSel {
				return
			}
			sends := false
			for _, st := range sel.States {
				if st.Dir == types.SendOnly {
					sends = true
				}
			}
			if sends {
				c.Ob(rule, "manager.removeLease waits until the manager's loop has taken the removal (or shutdown)", sel.Pos(), sel.Blocking, "the select that hands the closed lease to the manager's loop has a default case: while the loop is busy the removal is dropped and the manager keeps accepting manifests for a closed lease")
			}
		})
	}
	c.Ob(rule, "manifest service: every lease-closed event of this provider with a manager reaches manager.removeLease", rm.Pos(), okMgr && extra == "", "removeLease is skipped under an extra condition ("+extra+"): the manager keeps a closed lease and goes on accepting and announcing manifests for it")
}

// onlyValidatedRecorded: the manager records (and later announces) a manifest only on the nil edge of the validation
// of the very request it came from, validation runs only with chain data present, and nothing else writes the list
// of validated manifests (shared by C10 and C20).
func (c *Check) onlyValidatedRecorded(rule string) {
	l := c.L
	pkg := "provider/manifest"
	vr := l.Func(pkg, "manager", "validateRequests")
	c.Analysed(fnName(vr))
	{
		okData := true
		nl := 0
		for _, call := range callsIn(vr, false) {
			if calleeMethod(call) == "validateRequest" {
				nl++
				d := false
				for _, a := range factsAt(call.Block()) {
					if a.Op == "neq" && nrm(Sym(a.X)) == "p:m.data" && isNilConst(a.Y) {
						d = true
					}
				}
				if !d {
					okData = false
				}
				// manifests collected only on the nil edge, from the same request
				vcall := call.(*ssa.Call)
				okApp := false
				for _, c2 := range callsIn(vr, false) {
					if calleeFull(c2) == "builtin.append" && strings.Contains(Sym(c2.Common().Args[1]), ".value.Manifest") {
						same := strings.Contains(nrm(Sym(c2.Common().Args[1])), strings.TrimSuffix(strings.TrimPrefix(nrm(Sym(vcall.Call.Args[1])), ""), ""))
						reqArg := nrm(Sym(vcall.Call.Args[1]))
						same = strings.Contains(nrm(Sym(c2.Common().Args[1])), "&"+reqArg+".value.Manifest") || same
						if okEdgeAt(c2.Block(), vcall) && same {
							okApp = true
						}
					}
				}
				c.Ob(rule, "a manifest is collected only if the validation of that same request returned nil", call.Pos(), okApp, "an unvalidated manifest can be recorded and announced")
			}
		}
		c.Ob(rule, "validation runs only with the deployment's chain data present", vr.Pos(), okData && nl == 1, "")
		// m.manifests grows only from the collected list
		nm := 0
		for _, fn := range l.pkgFuncs(pkg) {
			eachInstr(fn, func(i ssa.Instruction) {
				if st, ok := i.(*ssa.Store); ok && nrm(Sym(st.Addr)) == "&p:m.manifests" {
					nm++
					v := nrm(Sym(st.Val))
					c.Ob(rule, "validated-manifest list written in "+fn.Name(), st.Pos(), inCodeOf(vr, fn) && strings.HasPrefix(v, "builtin.append(p:m.manifests, [") && strings.Contains(v, ".value.Manifest"), short(v))
				}
			})
		}
		if nm < 1 {
			c.Fail("%s-%s lost instances", c.ID, rule)
		}
	}
}

func (c *Check) timerDrainRule(rule, pkg string) {
	l := c.L
	for _, fn := range l.pkgFuncs(pkg) {
		eachInstr(fn, func(i ssa.Instruction) {
			rc, ok := i.(*ssa.UnOp)
			if !ok || rc.Op != token.ARROW {
				return
			}
			ld, ok := rc.X.(*ssa.UnOp)
			if !ok {
				return
			}
			fa, ok := ld.X.(*ssa.FieldAddr)
			if !ok {
				return
			}
			tn, f := structFieldOf(fa)
			if tn != "time.Timer" || f != "C" {
				return
			}
			timer := Sym(fa.X)
			stopped := false
			for _, a := range factsAt(rc.Block()) {
				if a.Op == "true" {
					if cv, _ := callOf(a.X); cv != nil && calleeFull(cv) == "(*time.Timer).Stop" && Sym(cv.Call.Args[0]) == timer {
						stopped = true
					}
				}
			}
			if !stopped {
				return
			}
			// can the timer field hold a timer at all?
			field := lastField(timer)
			alwaysNil, nst := true, 0
			for _, g := range l.pkgFuncs(pkg) {
				eachInstr(g, func(j ssa.Instruction) {
					st, isS := j.(*ssa.Store)
					if !isS {
						return
					}
					sfa, isFA := st.Addr.(*ssa.FieldAddr)
					if !isFA {
						return
					}
					if _, sf := structFieldOf(sfa); sf != field || !strings.HasSuffix(st.Val.Type().String(), "time.Timer") {
						return
					}
					if isNilConst(st.Val) {
						return
					}
					nst++
					guarded := false
					for _, a := range factsAt(st.Block()) {
						if a.Op == "neq" && isNilConst(a.Y) && "&"+Sym(a.X) == Sym(st.Addr) {
							guarded = true
						}
					}
					if !guarded {
						alwaysNil = false
					}
				})
			}
			if alwaysNil {
				c.Info(rule, "timer drain after a successful Stop() in "+fnName(fn)+" is dead code (the timer field is never set)", rc.Pos(), "every assignment of a timer to ."+field+" is behind ."+field+" != nil")
				return
			}
			c.Ob(rule, "no receive from a timer's channel after its Stop() returned true in "+fnName(fn), rc.Pos(), false, "Stop() returning true means the tick was cancelled: the receive from ."+field+".C never completes and the manager stops answering submissions")
		})
	}
}

// announcesLatestManifest: what the manifest manager hands to the deployment manager (the ManifestReceived event) is
// the manifest validated last, together with the fetched chain data, for the lease it is announced for. Shared by
// C14 (the last deploy uses the most recently received manifest) and C20-R4.
func (c *Check) announcesLatestManifest(rule string) {
	l := c.L
	nrm := func(s string) string { return strings.ReplaceAll(s, "*", "") }
	em := l.Func("provider/manifest", "manager", "emitReceivedEvents")
	c.Analysed(fnName(em))
	var pub *ssa.Call
	for _, call := range callsIn(em, false) {
		if calleeMethod(call) == "Publish" {
			pub = call.(*ssa.Call)
		}
	}
	if pub == nil {
		c.Ob(rule, "the manifest announcement site exists", em.Pos(), false, "")
		return
	}
	ev := nrm(Sym(pub.Call.Args[len(pub.Call.Args)-1]))
	c.Ob(rule, "the manifest announced to the deployment manager is the one validated last", pub.Pos(), strings.Contains(ev, "Manifest: p:m.manifests[(builtin.len(p:m.manifests) - 1)]"), "the event carries "+short(ev)+": after an update the deployment manager is handed an older manifest and deploys it")
}

// managerInboxBlocking: the manifest service hands lease, version-update, removal and manifest events to a
// deployment's manager through the manager's handle* / removeLease methods. Each of them sends to the manager's loop
// in a select whose only other way out is shutdown: with a default case the event is dropped whenever the loop is
// busy (validating, waiting for the hostname check), and the manager goes on with a superseded version / a closed lease.
func (c *Check) managerInboxBlocking(rule string) {
	l := c.L
	n := 0
	for _, fn := range l.pkgFuncs("provider/manifest") {
		if fn.Signature.Recv() == nil || !strings.HasSuffix(fn.Signature.Recv().Type().String(), "manifest.manager") {
			continue
		}
		if fn.Name() == "run" || fn.Parent() != nil {
			continue
		}
		eachInstr(fn, func(i ssa.Instruction) {
			sel, isSel := i.(*ssa.Select)
			if !isSel {
				return
			}
			sends := ""
			for _, st := range sel.States {
				if st.Dir == types.SendOnly {
					sends = short(strings.ReplaceAll(Sym(st.Chan), "*", ""))
				}
			}
			if sends == "" {
				return
			}
			n++
			c.Ob(rule, "manager."+fn.Name()+" waits until the manager's loop has taken the event (or shutdown)", sel.Pos(), sel.Blocking, "the select that sends on "+sends+" has a default case: while the manager's loop is busy the event is dropped")
		})
	}
	if n < 3 {
		c.Fail("%s-%s lost instances: %d inbox sends of the manifest manager", c.ID, rule, n)
	}
}
