package main

import (
	"fmt"
	"os"

	"golang.org/x/tools/go/ssa"
)

func init() {
	registry["DBG"] = func(c *Check) {
		fn := c.L.Func(os.Getenv("DBG_PKG"), os.Getenv("DBG_RECV"), os.Getenv("DBG_FN"))
		for _, g := range fnAndClosures(fn) {
			fmt.Println("FUNC", fnName(g))
			for _, b := range g.Blocks {
				fmt.Println(" block", b.Index, b.Comment, "preds", len(b.Preds))
				for _, i := range b.Instrs {
					switch x := i.(type) {
					case ssa.CallInstruction:
						fmt.Println("   call", calleeFull(x), "|", Sym(x.Common().Value), "|", func() string {
							if v := x.Value(); v != nil {
								return Sym(v)
							}
							return ""
						}())
					case *ssa.Store:
						fmt.Println("   store", Sym(x.Addr), "<-", Sym(x.Val))
					case *ssa.If:
						fmt.Println("   if", Sym(x.Cond))
					case *ssa.Return:
						s := ""
						for _, r := range x.Results {
							s += Sym(r) + "; "
						}
						fmt.Println("   return", s)
					}
				}
			}
		}
	}
}
