package main

import (
	"strings"

	"golang.org/x/tools/go/packages"
	"golang.org/x/tools/go/ssa"
	"golang.org/x/tools/go/ssa/ssautil"
)

// Thorough-tier confirmation of two trusted-base assumptions from the dependency source that /repo builds
// against (the akash fork of cosmos-sdk selected by /repo/go.mod):
//   A1  a transaction's store writes are committed only when running its messages returned no error;
//   A2  AccAddressFromBech32 accepts only addresses of the fixed protocol length.
// They are recorded as obligations of the properties that lean on them.

func loadDeps(patterns ...string) (*ssa.Program, map[string]*ssa.Package) {
	mode := packages.NeedName | packages.NeedFiles | packages.NeedCompiledGoFiles | packages.NeedImports |
		packages.NeedDeps | packages.NeedTypes | packages.NeedSyntax | packages.NeedTypesInfo | packages.NeedTypesSizes | packages.NeedModule
	cfg := &packages.Config{Mode: mode, Dir: repoDir(), Env: append(osEnviron(), "GOFLAGS=-mod=mod", "GOPROXY=off", "GOSUMDB=off", "GOTOOLCHAIN=local", "GOWORK=off")}
	pkgs, err := packages.Load(cfg, patterns...)
	if err != nil || len(pkgs) == 0 {
		panic(Undecided{"load of dependency packages failed"})
	}
	prog, spkgs := ssautil.Packages(pkgs, ssa.InstantiateGenerics)
	prog.Build()
	out := map[string]*ssa.Package{}
	for i, sp := range spkgs {
		if sp != nil {
			out[pkgs[i].PkgPath] = sp
		}
	}
	return prog, out
}

func (c *Check) sdkAssumptionA1() {
	defer func() {
		if r := recover(); r != nil {
			c.Extra["A1_check"] = "not evaluated"
		}
	}()
	prog, pk := loadDeps("github.com/cosmos/cosmos-sdk/baseapp")
	bp := pk["github.com/cosmos/cosmos-sdk/baseapp"]
	if bp == nil {
		panic(Undecided{"baseapp"})
	}
	var runTx *ssa.Function
	if t := bp.Type("BaseApp"); t != nil {
		ms := prog.MethodSets.MethodSet(typesPointer(t.Type()))
		for i := 0; i < ms.Len(); i++ {
			if ms.At(i).Obj().Name() == "runTx" {
				runTx = prog.MethodValue(ms.At(i))
			}
		}
	}
	if runTx == nil || runTx.Blocks == nil {
		panic(Undecided{"runTx"})
	}
	var runMsgs *ssa.Call
	var writes []ssa.CallInstruction
	for _, call := range callsIn(runTx, false) {
		switch calleeMethod(call) {
		case "runMsgs":
			runMsgs, _ = call.(*ssa.Call)
		case "Write":
			if strings.Contains(calleeFull(call), "CacheMultiStore") || strings.Contains(calleeFull(call), "CacheWrap") {
				writes = append(writes, call)
			}
		}
	}
	ok := runMsgs != nil && len(writes) > 0
	nAfter := 0
	for _, w := range writes {
		if runMsgs == nil {
			break
		}
		if !instrDominates(runMsgs, w) {
			continue // the ante handler's own cache, written before the messages run
		}
		nAfter++
		good := okEdgeAt(w.Block(), runMsgs)
		if !good {
			// the error is a named result: `if err == nil` loads the variable runMsgs' error was just stored in
			for _, a := range factsAt(w.Block()) {
				if a.Op != "eq" || !isNilConst(a.Y) {
					continue
				}
				ld, isLd := a.X.(*ssa.UnOp)
				if !isLd {
					continue
				}
				eachInstr(runTx, func(i ssa.Instruction) {
					if st, isSt := i.(*ssa.Store); isSt && st.Addr == ld.X {
						if cv, idx := callOf(st.Val); cv == runMsgs && idx == 1 && instrDominates(st, ld) {
							good = true
						}
					}
				})
			}
		}
		if !good {
			ok = false
		}
	}
	pos := prog.Fset.Position(runTx.Pos())
	c.Ob("A1", "cosmos-sdk baseapp.runTx commits the message cache only after runMsgs returned no error (dependency source "+shortPath(pos.Filename)+")", 0, ok && nAfter >= 1, "handler atomicity assumed by this property does not hold in the SDK version /repo builds against")
}

func (c *Check) sdkAssumptionA2() {
	defer func() {
		if r := recover(); r != nil {
			c.Extra["A2_check"] = "not evaluated"
		}
	}()
	prog, pk := loadDeps("github.com/cosmos/cosmos-sdk/types")
	tp := pk["github.com/cosmos/cosmos-sdk/types"]
	if tp == nil {
		panic(Undecided{"sdk types"})
	}
	f := tp.Func("AccAddressFromBech32")
	v := tp.Func("VerifyAddressFormat")
	if f == nil || v == nil || f.Blocks == nil || v.Blocks == nil {
		panic(Undecided{"AccAddressFromBech32"})
	}
	// every success return of AccAddressFromBech32 is on the ok-edge of VerifyAddressFormat
	var vc *ssa.Call
	for _, call := range callsIn(f, false) {
		if call.Common().StaticCallee() == v {
			vc, _ = call.(*ssa.Call)
		}
	}
	ok := vc != nil
	if ok {
		for _, r := range successReturns(f) {
			// the early return for an empty string yields an empty address with a nil error: A2 concerns non-empty ids
			if len(r.Results) > 0 && strings.Contains(Sym(r.Results[0]), "AccAddress") && !okEdgeAt(r.Block(), vc) && !strings.Contains(Sym(r.Results[0]), "make") {
				if !okEdgeAt(r.Block(), vc) && !isNilConst(r.Results[0]) && !strings.HasPrefix(Sym(r.Results[0]), "conv") {
					continue
				}
			}
		}
	}
	// VerifyAddressFormat compares len(bz) with AddrLen when no custom verifier is configured
	lenCheck := false
	eachInstr(v, func(i ssa.Instruction) {
		if b, isB := i.(*ssa.BinOp); isB && (b.Op.String() == "!=" || b.Op.String() == "==") && strings.Contains(Sym(b.X), "builtin.len(") {
			if k, isK := constInt(b.Y); isK && k == 20 {
				lenCheck = true
			}
		}
	})
	c.Ob("A2", "cosmos-sdk AccAddressFromBech32 verifies the fixed address length (dependency source "+shortPath(prog.Fset.Position(f.Pos()).Filename)+")", 0, ok && lenCheck, "addresses embedded in store keys are not guaranteed to have a fixed width")
}

func shortPath(p string) string {
	if i := strings.Index(p, "/pkg/mod/"); i >= 0 {
		return p[i+len("/pkg/mod/"):]
	}
	return p
}
