package main

import (
	"go/constant"
	"go/token"
	"go/types"
	"sort"
	"strconv"
	"strings"

	"golang.org/x/tools/go/ssa"
)

func init() { registry["C18"] = checkC18 }

// litFieldStores: stores into fields of composite literals (fresh allocs) of the named type inside fn.
func litFieldStores(fn *ssa.Function, typeSuffix string) map[*ssa.Alloc]map[string]ssa.Value {
	out := map[*ssa.Alloc]map[string]ssa.Value{}
	var walk func(prefix string, addr ssa.Value, root *ssa.Alloc)
	walk = func(prefix string, addr ssa.Value, root *ssa.Alloc) {
		if addr.Referrers() == nil {
			return
		}
		for _, r := range *addr.Referrers() {
			switch x := r.(type) {
			case *ssa.FieldAddr:
				p := fieldName(x.X.Type(), x.Field)
				if prefix != "" {
					p = prefix + "." + p
				}
				walk(p, x, root)
			case *ssa.Store:
				if x.Addr == addr && prefix != "" {
					if out[root] == nil {
						out[root] = map[string]ssa.Value{}
					}
					out[root][prefix] = x.Val
				}
			}
		}
	}
	eachInstrDeep(fn, func(i ssa.Instruction) {
		a, ok := i.(*ssa.Alloc)
		if !ok {
			return
		}
		et := a.Type().(*types.Pointer).Elem()
		if strings.HasSuffix(et.String(), typeSuffix) {
			walk("", a, a)
		}
		// an element of a slice literal is built in place in the backing array
		if arr, isArr := et.Underlying().(*types.Array); isArr && strings.HasSuffix(arr.Elem().String(), typeSuffix) && a.Referrers() != nil {
			for _, r := range *a.Referrers() {
				if ia, isIA := r.(*ssa.IndexAddr); isIA {
					walk("", ia, a)
				}
			}
		}
	})
	return out
}

func checkC18(c *Check) {
	c.Explanation = "Decided over package sdl: (R1) determinism — every range over a map is order-insensitive (collected keys/elements are sorted by the unique key before use) and no clock/random/environment source is called; (R2) field faithfulness — every declared field of the SDL service, expose, expose-target, service-deployment and placement structures is read by the translation (one waived field with its reason), and each flows unmodified into the same-meaning field of the manifest service / expose and of the deployment-group resource (image, command, args, env, count, resources, ports, protocol, hosts, target service, global flag, price, attributes, signed-by); (R3) sibling agreement — manifest and deployment groups use the same compute-profile converter, the same count and the same global flag, and per-iteration accumulators are allocated inside the loop whose element they describe; (R4) Read returns an SDL only after the derived groups and the derived manifest were validated; the version hashes exactly the derived manifest through sorted JSON. The accessors DeploymentGroups/Manifest keep nothing in their receiver."
	c.NotDecided = "numeric unit parsing (1.5Gi, float rounding), YAML library behaviour"
	l := c.L
	fns := l.pkgFuncs("sdl")

	// ---- R1
	nr := 0
	for _, fn := range fns {
		eachInstr(fn, func(i ssa.Instruction) {
			switch x := i.(type) {
			case *ssa.Range:
				if _, isMap := x.X.Type().Underlying().(*types.Map); isMap {
					nr++
					c.Analysed(fnName(fn))
					ok, why := c.mapRangeSorted(fn, x)
					c.Ob("R1", "map range in "+fnName(fn), x.Pos(), ok, why)
				}
			case ssa.CallInstruction:
				full := calleeFull(x)
				for _, f := range forbiddenCalls {
					if strings.HasPrefix(full, f) && !strings.HasPrefix(full, "os.ReadFile") && !strings.HasPrefix(full, "os.Open") {
						c.Ob("R1", "call to "+full+" in "+fnName(fn), x.Pos(), false, "non-deterministic source in SDL translation")
					}
				}
			}
		})
	}
	c.contentScans(fns)
	c.accessorsKeepNoState("R1")
	if nr < 7 {
		c.Fail("C18-R1 lost instances: %d map ranges", nr)
	}

	// ---- R2 faithfulness
	man := l.Func("sdl", "v2", "Manifest")
	dg := l.Func("sdl", "v2", "DeploymentGroups")
	c.Analysed(fnName(man))
	c.Analysed(fnName(dg))
	// (a) every declared field is read
	waived := map[string]string{"v2Service.Dependencies": "declared for documentation/ordering only; not part of the on-chain manifest"}
	read := map[string]bool{}
	for _, fn := range []*ssa.Function{man, dg} {
		for _, g := range fnAndClosuresDeep(fn) {
			eachInstr(g, func(i ssa.Instruction) {
				switch x := i.(type) {
				case *ssa.FieldAddr:
					tn, f := structFieldOf(x)
					read[shortName(tn)+"."+f] = true
				case *ssa.Field:
					t := x.X.Type()
					read[shortName(t.String())+"."+fieldName(t, x.Field)] = true
				}
			})
		}
	}
	sp := l.Pkg("sdl")
	nfields := 0
	for _, tn := range []string{"v2Service", "v2Expose", "v2ExposeTo", "v2ServiceDeployment", "v2ProfilePlacement", "v2ProfileCompute"} {
		obj := sp.Types.Scope().Lookup(tn)
		if obj == nil {
			c.Fail("unresolved anchor: sdl.%s", tn)
		}
		st := obj.Type().Underlying().(*types.Struct)
		for i := 0; i < st.NumFields(); i++ {
			f := st.Field(i).Name()
			key := tn + "." + f
			nfields++
			if why, ok := waived[key]; ok {
				c.Info("R2", "field sdl."+key+" is waived", st.Field(i).Pos(), why)
				continue
			}
			c.Ob("R2", "declared field sdl."+key+" is used by the translation", st.Field(i).Pos(), read["sdl."+key], "what the tenant declares in '"+strings.ToLower(f)+"' is silently dropped: neither Manifest() nor DeploymentGroups() reads it")
		}
	}
	// (b) destination fields receive the matching source
	type flow struct {
		fn   *ssa.Function
		typ  string
		fld  string
		ok   func(s string) bool
		what string
	}
	has := func(subs ...string) func(string) bool {
		return func(s string) bool {
			for _, x := range subs {
				if !strings.Contains(s, x) {
					return false
				}
			}
			return true
		}
	}
	suf := func(suffix string, subs ...string) func(string) bool {
		return func(s string) bool { return strings.HasSuffix(s, suffix) && has(subs...)(s) }
	}
	flows := []flow{
		{man, "manifest.Service", "Name", suf("]", "v2DeploymentSvcNames(*p:sdl.Deployments)["), "service name"},
		{man, "manifest.Service", "Image", suf("#0.Image", "p:sdl.Services["), "image"},
		{man, "manifest.Service", "Command", suf("#0.Command", "p:sdl.Services["), "command"},
		{man, "manifest.Service", "Args", suf("#0.Args", "p:sdl.Services["), "args"},
		{man, "manifest.Service", "Env", suf("#0.Env", "p:sdl.Services["), "env"},
		{man, "manifest.Service", "Count", suf(".Count", "p:sdl.Deployments["), "replica count"},
		{man, "manifest.Service", "Resources", has("toResourceUnits(", "p:sdl.Profiles.Compute["), "resources"},
		{man, "manifest.ServiceExpose", "Port", suf(".Port", ".Expose["), "port"},
		{man, "manifest.ServiceExpose", "ExternalPort", suf(".As", ".Expose["), "external port"},
		{man, "manifest.ServiceExpose", "Proto", has("manifest.ParseServiceProtocol(", ".Proto)#0"), "protocol"},
		{man, "manifest.ServiceExpose", "Hosts", suf(".Accept.Items", ".Expose["), "hosts"},
		{man, "manifest.ServiceExpose", "Service", func(s string) bool { return s == `""` || suf(".Service", ".To[")(s) }, "target service"},
		{man, "manifest.ServiceExpose", "Global", func(s string) bool { return s == "false" || suf(".Global", ".To[")(s) }, "global flag"},
		{dg, "types.Resource", "Resources", has("toResourceUnits(", "p:sdl.Profiles.Compute["), "resources"},
		{dg, "types.Resource", "Price", suf(".Value", ".Pricing["), "price"},
		{dg, "types.Resource", "Count", suf(".Count", "p:sdl.Deployments["), "replica count"},
		{dg, "types.GroupSpec", "Name", suf("]", "v2DeploymentPlacementNames("), "group name"},
	}
	nflow := 0
	for _, fl := range flows {
		lits := litFieldStores(fl.fn, fl.typ)
		var allocs []*ssa.Alloc
		for a := range lits {
			allocs = append(allocs, a)
		}
		sort.Slice(allocs, func(i, j int) bool { return allocs[i].Pos() < allocs[j].Pos() })
		n := 0
		for _, a := range allocs {
			n++
			v, ok := lits[a][fl.fld]
			s := ""
			if ok {
				s = Sym(v)
			}
			nflow++
			c.Ob("R2", fl.fn.Name()+": "+fl.typ+"."+fl.fld+" receives the declared "+fl.what+" (literal #"+itoa(n)+")", a.Pos(), ok && fl.ok(s), fl.typ+"."+fl.fld+" is "+map[bool]string{true: "set from " + short(s), false: "never set"}[ok])
		}
		if n == 0 {
			c.Ob("R2", fl.fn.Name()+": constructs "+fl.typ, fl.fn.Pos(), false, "no "+fl.typ+" literal found")
		}
	}
	// milli-CPU notation ("1500m") is an integer number of units: it reaches the resource value without passing
	// through floating point (which cannot represent every n/1000 and would change some values by one unit)
	{
		cq := l.Func("sdl", "cpuQuantity", "UnmarshalYAML")
		c.Analysed(fnName(cq))
		nm := 0
		for _, g := range fnAndClosuresDeep(cq) {
			eachInstr(g, func(i ssa.Instruction) {
				st, ok := i.(*ssa.Store)
				if !ok || Sym(st.Addr) != "p:u" {
					return
				}
				// one judgement per way the stored value can come about (a phi of the two notations, possibly each computed
				// by a new helper, is two ways: the float arithmetic of the "1.5" notation is not on the "<n>m" way)
				var ways []ssa.Value
				var split func(v ssa.Value, d int)
				split = func(v ssa.Value, d int) {
					if d > 6 {
						ways = append(ways, v)
						return
					}
					if ph, isPhi := v.(*ssa.Phi); isPhi {
						for _, e := range ph.Edges {
							split(e, d+1)
						}
						return
					}
					if hc, k := callOf(v); hc != nil {
						if h := newHelperCallee(hc); h != nil {
							if k < 0 {
								k = 0
							}
							if rs := helperReturns(h, k); len(rs) > 0 {
								for _, r := range rs {
									split(r, d+1)
								}
								return
							}
						}
					}
					ways = append(ways, v)
				}
				split(st.Val, 0)
				for _, way := range ways {
					c.milliWay(st, way, &nm)
				}
			})
		}
		c.Ob("R2", "milli-CPU notation is recognised", cq.Pos(), nm >= 1, "no store of a value parsed from the text before the \"m\" suffix")
	}
	// a declared price reaches the outputs unchanged: the coin parser used (ParseCoinNormalized / ParseDecCoin) truncates
	// decimals, so the amount text must have been established to be an integer before it is parsed
	{
		cu := l.Func("sdl", "v2Coin", "UnmarshalYAML")
		c.Analysed(fnName(cu))
		for _, g := range fnAndClosuresDeep(cu) {
			for _, call := range callsInOwn(g) {
				full := calleeFull(call)
				if !strings.HasSuffix(full, "types.ParseCoinNormalized") && !strings.HasSuffix(full, "types.ParseDecCoin") && !strings.HasSuffix(full, "types.ParseCoinsNormalized") {
					continue
				}
				isInt := false
				for _, a := range factsAt(call.Block()) {
					if a.Op == "true" {
						if cv, _ := callOf(a.X); cv != nil && (calleeFull(cv) == "(*math/big.Float).IsInt" || calleeFull(cv) == "(*math/big.Rat).IsInt") {
							isInt = true
						}
					}
					// an integer parse of the same text that succeeded
					if a.Op == "eq" && a.Y != nil && isNilConst(a.Y) {
						if cv, k := callOf(a.X); cv != nil && k >= 1 && (calleeFull(cv) == "strconv.ParseUint" || calleeFull(cv) == "strconv.ParseInt") {
							isInt = true
						}
					}
					if a.Op == "true" {
						if cv, k := callOf(a.X); cv != nil && k == 1 && (strings.HasSuffix(calleeFull(cv), "types.NewIntFromString") || calleeFull(cv) == "(*math/big.Int).SetString") {
							isInt = true
						}
					}
				}
				c.Ob("R2", "price amount is known to be an integer before the (truncating) coin parser sees it", call.Pos(), isInt, "a fractional price such as 2.5 is accepted and silently becomes 2 in the deployment group")
			}
		}
	}
	// group requirements
	{
		okA, okS := false, false
		eachInstrDeep(dg, func(i ssa.Instruction) {
			if st, ok := i.(*ssa.Store); ok {
				a := Sym(st.Addr)
				v := Sym(st.Val)
				if strings.HasSuffix(a, ".Requirements.Attributes") && strings.HasSuffix(v, ".Attributes") && strings.Contains(v, "Profiles.Placement[") {
					okA = true
				}
				if strings.HasSuffix(a, ".Requirements.SignedBy") && strings.HasSuffix(v, ".SignedBy") && strings.Contains(v, "Profiles.Placement[") {
					okS = true
				}
			}
		})
		c.Ob("R2", "group requirements carry the placement's attributes", dg.Pos(), okA, "")
		c.Ob("R2", "group requirements carry the placement's signed-by lists", dg.Pos(), okS, "")
	}
	if nflow < 14 {
		c.Fail("C18-R2 lost instances: %d flows", nflow)
	}

	// ---- R2 (cont.) the compute-profile converter: cpu / memory / storage of the result are filled from the section of
	// the same name, both the amount and the attributes
	{
		tr := l.Func("sdl", "v2ComputeResources", "toResourceUnits")
		c.Analysed(fnName(tr))
		nst := 0
		filled := map[string]bool{}
		for _, g := range fnAndClosuresDeep(tr) {
			eachInstr(g, func(i ssa.Instruction) {
				st, ok := i.(*ssa.Store)
				if !ok {
					return
				}
				fa, ok := st.Addr.(*ssa.FieldAddr)
				if !ok {
					return
				}
				tn, f := structFieldOf(fa)
				kind := ""
				for _, k := range []string{"CPU", "Memory", "Storage"} {
					if strings.HasSuffix(tn, "akash/types."+k) {
						kind = k
					}
				}
				if kind == "" {
					return
				}
				nst++
				v := Sym(st.Val)
				ok2 := strings.Contains(v, "."+kind+"."+f) || (f == "Units" || f == "Quantity") && (strings.Contains(v, "."+kind+".Units") || strings.Contains(v, "."+kind+".Quantity"))
				for _, other := range []string{"CPU", "Memory", "Storage"} {
					if other != kind && strings.Contains(v, "."+other+".") {
						ok2 = false
					}
				}
				filled[kind+"."+f] = true
				c.Ob("R2", "compute profile: "+kind+"."+f+" of the resource units comes from the "+strings.ToLower(kind)+" section", st.Pos(), ok2, kind+"."+f+" is filled from "+short(v))
			})
		}
		all := true
		for _, k := range []string{"CPU.Units", "CPU.Attributes", "Memory.Quantity", "Memory.Attributes", "Storage.Quantity", "Storage.Attributes"} {
			if !filled[k] {
				all = false
			}
		}
		c.Ob("R2", "compute profile: amount and attributes of cpu, memory and storage are all translated", tr.Pos(), all && nst >= 6, "a field of the resource units is never filled: what the tenant declared for it is dropped")
	}

	// ---- R2 (cont.) a list the tenant wrote as a YAML sequence keeps its declared order: a slice filled by decoding a
	// node directly (node.Decode(&xs)) is never handed to a sort (the sorts of this package order what was collected from
	// mappings, whose order is not content)
	{
		nsort := 0
		for _, fn := range l.pkgFuncs("sdl") {
			for _, call := range callsInOwn(fn) {
				full := calleeFull(call)
				if full != "sort.Strings" && full != "sort.Slice" && full != "sort.SliceStable" && full != "sort.Sort" && full != "sort.Stable" && full != "sort.Ints" {
					continue
				}
				nsort++
				arg := call.Common().Args[0]
				if mi, ok := arg.(*ssa.MakeInterface); ok {
					arg = mi.X
				}
				decoded := false
				if ld, ok := arg.(*ssa.UnOp); ok {
					if al, isA := ld.X.(*ssa.Alloc); isA {
						for _, r := range *al.Referrers() {
							use := r
							if mi, isMI := r.(*ssa.MakeInterface); isMI && mi.Referrers() != nil {
								for _, r2 := range *mi.Referrers() {
									if ci, isC := r2.(ssa.CallInstruction); isC && (calleeMethod(ci) == "Decode" || strings.Contains(calleeMethod(ci), "Unmarshal")) {
										decoded = true
									}
								}
							}
							if ci, isC := use.(ssa.CallInstruction); isC && (calleeMethod(ci) == "Decode" || strings.Contains(calleeMethod(ci), "Unmarshal")) {
								decoded = true
							}
						}
					}
				}
				if decoded {
					c.Ob("R2", "a declared sequence keeps its order in "+fnName(fn), call.Pos(), false, "the slice decoded from the document is sorted: the order the tenant declared (hosts, arguments, ...) is lost and two different documents translate alike")
				}
			}
		}
		c.Ob("R2", "no sort is applied to a slice decoded directly from a YAML sequence ("+itoa(nsort)+" sort calls examined)", sdlPos(l), nsort >= 1, "")
	}

	c.unitTableAgrees("R2")

	// ---- R3 sibling agreement
	{
		// same converter
		conv := map[*ssa.Function]string{}
		for _, fn := range []*ssa.Function{man, dg} {
			for _, call := range callsIn(fn, false) {
				if calleeMethod(call) == "toResourceUnits" {
					conv[fn] = Sym(call.Common().Args[0])
				}
			}
		}
		// compare the shape (compute profile selected by the service deployment's profile name), not register names
		norm := func(s string) string {
			if strings.Contains(s, "p:sdl.Profiles.Compute[") && strings.HasSuffix(s, ".Profile]#0.Resources") && strings.Contains(s, "p:sdl.Deployments[") {
				return "Profiles.Compute[deployment.Profile].Resources"
			}
			return s
		}
		c.Ob("R3", "manifest and deployment groups convert the same compute profile with the same converter", man.Pos(), conv[man] != "" && norm(conv[man]) == norm(conv[dg]), "manifest uses "+short(conv[man])+", groups use "+short(conv[dg]))
		// endpoints accumulator allocated in the loop of the resource it describes
		var st *ssa.Store
		eachInstr(dg, func(i ssa.Instruction) {
			if s, ok := i.(*ssa.Store); ok && strings.HasSuffix(Sym(s.Addr), ".Resources.Endpoints") {
				st = s
			}
		})
		ok := false
		detail := "endpoint list of a resource is not stored"
		if st != nil {
			ok = true
			h := loopHeaderOf(st.Block())
			var roots []ssa.Instruction
			seen := map[ssa.Value]bool{}
			var walk func(v ssa.Value)
			walk = func(v ssa.Value) {
				if seen[v] {
					return
				}
				seen[v] = true
				switch x := v.(type) {
				case *ssa.Phi:
					for _, e := range x.Edges {
						walk(e)
					}
				case *ssa.Call:
					if calleeFull(x) == "builtin.append" {
						walk(x.Call.Args[0])
					} else if freshSliceResult(x, 0, 0) {
						roots = append(roots, x) // a helper called in this iteration hands back a slice it allocated itself
					}
				case *ssa.Extract:
					if cv, isC := x.Tuple.(*ssa.Call); isC && freshSliceResult(cv, x.Index, 0) {
						roots = append(roots, cv)
					}
				case *ssa.MakeSlice:
					roots = append(roots, x)
				case *ssa.Slice:
					if a, isA := x.X.(*ssa.Alloc); isA {
						roots = append(roots, a) // make([]T, const) is lowered to new [n]T + slice
					} else {
						walk(x.X)
					}
				case *ssa.UnOp:
					if a, isA := x.X.(*ssa.Alloc); isA {
						for _, r := range *a.Referrers() {
							if s2, isS := r.(*ssa.Store); isS && s2.Addr == ssa.Value(a) {
								walk(s2.Val)
							}
						}
					}
				}
			}
			walk(st.Val)
			if len(roots) == 0 {
				ok = false
				detail = "endpoint accumulator has no allocation site"
			}
			for _, r := range roots {
				if loopHeaderOf(r.Block()) != h {
					ok = false
					detail = "the endpoint accumulator is allocated outside the loop iteration whose resource it describes: endpoints of earlier placements leak into later groups"
				}
			}
		}
		c.Ob("R3", "per-resource endpoint list starts empty for every (service, placement) pair", dg.Pos(), ok, detail)
		// endpoints only for global exposes
		glob := false
		for _, call := range callsIn(dg, false) {
			if calleeFull(call) == "builtin.append" && strings.Contains(Sym(call.Common().Args[1]), "types.Endpoint{") {
				for _, a := range factsAt(call.Block()) {
					if a.Op == "true" && strings.HasSuffix(Sym(a.X), ".Global") {
						glob = true
					}
				}
			}
		}
		c.Ob("R3", "an endpoint is counted exactly for globally exposed targets", dg.Pos(), glob, "")
		// the translation (endpoint kinds in the deployment groups) and the provider's cross-validation of the manifest
		// against those groups decide "served by the ingress controller or own port" with the same predicate
		classifier := func(fn *ssa.Function) string {
			var names []string
			for _, call := range callsIn(fn, true) {
				g := call.Common().StaticCallee()
				if g == nil || g.Signature.Results().Len() != 1 || g.Signature.Results().At(0).Type().String() != "bool" || g.Signature.Params().Len() != 1 {
					continue
				}
				if strings.HasSuffix(g.Signature.Params().At(0).Type().String(), "manifest.ServiceExpose") && !isNewFunc(g) {
					names = append(names, fnName(g)) // new wrappers are looked through (callsIn is deep)
				}
			}
			sort.Strings(names)
			var uniq []string
			for i, n := range names {
				if i == 0 || names[i-1] != n {
					uniq = append(uniq, n)
				}
			}
			return strings.Join(uniq, ",")
		}
		vfn := l.Func("validation", "", "validateManifestDeploymentGroup")
		c.Analysed(fnName(vfn))
		cs, cv := classifier(dg), classifier(vfn)
		c.Ob("R3", "deployment groups and manifest cross-validation classify exposes with the same predicate", vfn.Pos(), cs != "" && cs == cv, "translation uses ["+cs+"], validation uses ["+cv+"]: a document can translate into groups and a manifest that the provider's validation finds inconsistent")
	}

	// ---- R4 Read validates, Version hashes the manifest
	rd := l.Func("sdl", "", "Read")
	c.Analysed(fnName(rd))
	{
		var vg, vm *ssa.Call
		for _, call := range callsIn(rd, false) {
			switch calleeMethod(call) {
			case "ValidateDeploymentGroups":
				vg = call.(*ssa.Call)
			case "ValidateManifest":
				vm = call.(*ssa.Call)
			}
		}
		okg, okm := vg != nil, vm != nil
		for _, r := range successReturns(rd) {
			if vg == nil || !okEdgeAt(r.Block(), vg) {
				okg = false
			}
			if vm == nil || !okEdgeAt(r.Block(), vm) {
				okm = false
			}
		}
		c.Ob("R4", "Read succeeds only if the derived deployment groups validate", rd.Pos(), okg && strings.Contains(Sym(vg.Call.Args[0]), "DeploymentGroups("), "")
		c.Ob("R4", "Read succeeds only if the derived manifest validates", rd.Pos(), okm && strings.Contains(Sym(vm.Call.Args[0]), ".Manifest("), "")
		c.manifestValidationShape("R4")
	}
	ver := l.Func("sdl", "", "Version")
	mv := l.Func("sdl", "", "ManifestVersion")
	{
		ok := false
		for _, r := range successReturns(ver) {
			if strings.HasPrefix(Sym(r.Results[0]), "sdl.ManifestVersion(sdl.SDL.Manifest(p:s)#0)#0") {
				ok = true
			}
		}
		c.Ob("R4", "Version hashes the manifest derived from the same document", ver.Pos(), ok, "")
		s := ""
		for _, call := range callsIn(mv, false) {
			if calleeFull(call) == "crypto/sha256.Sum256" {
				s = Sym(call.Common().Args[0])
			}
		}
		c.Ob("R4", "the hash is sha256 over the sorted JSON encoding of the whole manifest", mv.Pos(), s == "types.SortJSON(json.Marshal(p:manifest)#0)#0", s)
	}
}

// mapRangeSorted: like mapRangeInsensitive, additionally accepting key slices sorted with sort.Strings.
func (c *Check) mapRangeSorted(fn *ssa.Function, rng *ssa.Range) (bool, string) {
	ok, why := c.mapRangeInsensitive(fn, rng)
	if ok {
		return true, ""
	}
	// keys collected into a []string and sorted with sort.Strings before use
	var next *ssa.Next
	for _, r := range *rng.Referrers() {
		if n, isN := r.(*ssa.Next); isN {
			next = n
		}
	}
	if next == nil {
		return false, why
	}
	var key ssa.Value
	for _, r := range *next.Referrers() {
		if ex, isE := r.(*ssa.Extract); isE && ex.Index == 1 {
			key = ex
		}
	}
	h := next.Block()
	body := loopBlocks(h)
	var app ssa.Value
	for b := range body {
		for _, in := range b.Instrs {
			switch x := in.(type) {
			case *ssa.Store:
				// keys written by index into a slice made for them
				if ia, isIA := x.Addr.(*ssa.IndexAddr); isIA && x.Val == key {
					if mk, isMk := ia.X.(*ssa.MakeSlice); isMk {
						app = mk
					}
				}
			case *ssa.Call:
				full := calleeFull(x)
				if full == "builtin.append" {
					if sl, isSl := x.Call.Args[1].(*ssa.Slice); isSl {
						if arr, isA := sl.X.(*ssa.Alloc); isA {
							el := arrayStores(arr)
							if len(el) == 1 && el[0] == key {
								app = x
								continue
							}
						}
					}
					return false, why
				}
				if full != "builtin.len" {
					return false, why
				}
			case *ssa.Return:
				return false, why
			}
		}
	}
	if app == nil {
		return false, why
	}
	exit := h.Succs[1]
	var sorts []ssa.Instruction
	for _, call := range callsIn(fn, false) {
		if calleeFull(call) == "sort.Strings" && (call.Block() == exit || blockReaches(exit, call.Block())) {
			sorts = append(sorts, call)
		}
	}
	if len(sorts) == 0 {
		return false, "keys collected in map order are never sorted"
	}
	isSort := func(in ssa.Instruction) bool {
		for _, s := range sorts {
			if s == in {
				return true
			}
		}
		return false
	}
	first := exit.Instrs[0]
	for _, use := range taintedUses(fn, app) {
		if body[use.Block()] || isSort(use) {
			continue
		}
		if !(use.Block() == exit || blockReaches(exit, use.Block())) {
			continue
		}
		if use != first && !isSort(first) && !mustPassFrom(fn, first, use, isSort) {
			return false, "keys collected in map order reach " + c.L.Pos(use.Pos()) + " unsorted"
		}
	}
	return true, ""
}

// contentScans (R1): a YAML mapping node holds key0,value0,key1,value1,... in Content. A hand-written scan over
// Content must visit every key whatever its position, or the outcome depends on the order of the mapping keys.
// For a loop "idx from s step d while idx+k < len(Content)" whose smallest Content index is idx+a, that is
// s+a == 0, d in {1,2} and k-a <= 1.
func (c *Check) contentScans(fns []*ssa.Function) {
	peel := func(v ssa.Value) (ssa.Value, int64) {
		var k int64
		for {
			bo, ok := v.(*ssa.BinOp)
			if ok && bo.Op == token.SUB {
				if cst, isC := constInt(bo.Y); isC {
					k -= cst
					v = bo.X
					continue
				}
			}
			if !ok || bo.Op != token.ADD {
				return v, k
			}
			if cst, isC := constInt(bo.Y); isC {
				k += cst
				v = bo.X
				continue
			}
			if cst, isC := constInt(bo.X); isC {
				k += cst
				v = bo.Y
				continue
			}
			return v, k
		}
	}
	n := 0
	for _, fn := range fns {
		for _, b := range fn.Blocks {
			ifi, ok := b.Instrs[len(b.Instrs)-1].(*ssa.If)
			if !ok {
				continue
			}
			cond, isB := ifi.Cond.(*ssa.BinOp)
			if !isB || cond.Op != token.LSS {
				continue
			}
			// (the bound may be written len(Content)-j: idx+k < len-j is idx+k+j < len)
			boundBase, kb := peel(cond.Y)
			lenCall, _ := callOf(boundBase)
			if lenCall == nil || calleeFull(lenCall) != "builtin.len" || !strings.HasSuffix(Sym(lenCall.Call.Args[0]), ".Content") {
				continue
			}
			base, k := peel(cond.X)
			k -= kb
			ph, isPhi := base.(*ssa.Phi)
			if !isPhi || ph.Block() != b {
				continue
			}
			n++
			c.Analysed(fnName(fn))
			inst := "scan over " + short(strings.TrimLeft(Sym(lenCall.Call.Args[0]), "*")) + " in " + fnName(fn) + " visits every mapping key"
			var s0, d int64 = -99, -99
			okForm := len(ph.Edges) == 2
			for i, e := range ph.Edges {
				pred := b.Preds[i]
				if b.Dominates(pred) { // back edge
					eb, ek := peel(e)
					if eb != ssa.Value(ph) {
						okForm = false
					}
					d = ek
				} else if cst, isC := constInt(e); isC {
					s0 = cst
				} else {
					okForm = false
				}
			}
			// smallest index into Content used in the loop
			var a int64 = 1 << 30
			eachInstr(fn, func(i ssa.Instruction) {
				ia, isIA := i.(*ssa.IndexAddr)
				if !isIA || !b.Dominates(ia.Block()) || !strings.HasSuffix(Sym(ia.X), ".Content") {
					return
				}
				ib, ik := peel(ia.Index)
				if ib == ssa.Value(ph) && ik < a {
					a = ik
				}
			})
			if !okForm || a == 1<<30 {
				c.Ob("R1", inst, cond.Pos(), false, "loop form not understood (index is not initial constant + constant step, or Content is not indexed by it)")
				continue
			}
			ok2 := s0+a == 0 && (d == 1 || d == 2) && k-a <= 1
			c.Ob("R1", inst, cond.Pos(), ok2, "loop starts at entry "+itoa(int(s0+a))+", steps by "+itoa(int(d))+" and stops while "+itoa(int(k-a+1))+" entries remain beyond the current one: a key in the last position(s) is never examined, so the result depends on the order of the mapping keys")
		}
	}
	if n < 2 {
		c.Fail("C18-R1 lost instances: %d Content scans", n)
	}
}

// freshSliceResult: result k of the call is, for every return of the (akash, statically known) callee, a slice
// allocated inside that callee (make / literal / nil) and grown by append only — so every call yields a new list.
func freshSliceResult(call *ssa.Call, k int, depth int) bool {
	g := call.Call.StaticCallee()
	if g == nil || g.Blocks == nil || depth > 2 || !strings.HasPrefix(fnPkgPath(g), akash) {
		return false
	}
	rets := helperReturns(g, k)
	if len(rets) == 0 {
		return false
	}
	var fresh func(v ssa.Value, seen map[ssa.Value]bool) bool
	fresh = func(v ssa.Value, seen map[ssa.Value]bool) bool {
		if seen[v] {
			return true
		}
		seen[v] = true
		switch x := v.(type) {
		case *ssa.Const:
			return x.Value == nil
		case *ssa.MakeSlice:
			return true
		case *ssa.Slice:
			_, isA := x.X.(*ssa.Alloc)
			return isA
		case *ssa.Phi:
			for _, e := range x.Edges {
				if !fresh(e, seen) {
					return false
				}
			}
			return true
		case *ssa.Call:
			if calleeFull(x) == "builtin.append" {
				return fresh(x.Call.Args[0], seen)
			}
			return freshSliceResult(x, 0, depth+1)
		case *ssa.Extract:
			if cv, isC := x.Tuple.(*ssa.Call); isC {
				return freshSliceResult(cv, x.Index, depth+1)
			}
		case *ssa.UnOp:
			if a, isA := x.X.(*ssa.Alloc); isA {
				n := 0
				for _, r := range *a.Referrers() {
					if st, isS := r.(*ssa.Store); isS && st.Addr == ssa.Value(a) {
						n++
						if !fresh(st.Val, seen) {
							return false
						}
					}
				}
				return n > 0
			}
		}
		return false
	}
	for _, rv := range rets {
		if !fresh(rv, map[ssa.Value]bool{}) {
			return false
		}
	}
	return true
}

// floatInSlice: a floating-point value in the backward slice of v (through conversions, arithmetic, phis, tuple
// extraction and the results of new helpers); returns its description or "".
func floatInSlice(v ssa.Value, seen map[ssa.Value]bool, depth int) string {
	if v == nil || seen[v] || depth > 12 {
		return ""
	}
	seen[v] = true
	if b, ok := v.Type().Underlying().(*types.Basic); ok && b.Info()&types.IsFloat != 0 {
		return short(Sym(v))
	}
	switch x := v.(type) {
	case *ssa.Convert:
		return floatInSlice(x.X, seen, depth+1)
	case *ssa.ChangeType:
		return floatInSlice(x.X, seen, depth+1)
	case *ssa.BinOp:
		if s := floatInSlice(x.X, seen, depth+1); s != "" {
			return s
		}
		return floatInSlice(x.Y, seen, depth+1)
	case *ssa.Phi:
		for _, e := range x.Edges {
			if s := floatInSlice(e, seen, depth+1); s != "" {
				return s
			}
		}
	case *ssa.Extract:
		if cv, isC := x.Tuple.(*ssa.Call); isC {
			if g := newHelperCallee(cv); g != nil {
				for _, rv := range helperReturns(g, x.Index) {
					if s := floatInSlice(rv, seen, depth+1); s != "" {
						return s
					}
				}
			}
		}
	case *ssa.Call:
		if g := newHelperCallee(x); g != nil {
			for _, rv := range helperReturns(g, 0) {
				if s := floatInSlice(rv, seen, depth+1); s != "" {
					return s
				}
			}
		}
	case *ssa.UnOp:
		if a, isA := x.X.(*ssa.Alloc); isA && a.Referrers() != nil {
			for _, r := range *a.Referrers() {
				if st, isSt := r.(*ssa.Store); isSt && st.Addr == ssa.Value(a) {
					if s := floatInSlice(st.Val, seen, depth+1); s != "" {
						return s
					}
				}
			}
		}
	}
	return ""
}

// sliceHas: some value in the backward slice of v (conversions, arithmetic, phis, tuple extraction, locals, results of
// new helpers) satisfies pred.
func sliceHas(v ssa.Value, seen map[ssa.Value]bool, depth int, pred func(ssa.Value) bool) bool {
	if v == nil || seen[v] || depth > 12 {
		return false
	}
	seen[v] = true
	if pred(v) {
		return true
	}
	rec := func(x ssa.Value) bool { return sliceHas(x, seen, depth+1, pred) }
	switch x := v.(type) {
	case *ssa.Convert:
		return rec(x.X)
	case *ssa.ChangeType:
		return rec(x.X)
	case *ssa.BinOp:
		return rec(x.X) || rec(x.Y)
	case *ssa.Phi:
		for _, e := range x.Edges {
			if rec(e) {
				return true
			}
		}
	case *ssa.Extract:
		if rec(x.Tuple) {
			return true
		}
		if cv, isC := x.Tuple.(*ssa.Call); isC {
			if g := newHelperCallee(cv); g != nil {
				for _, rv := range helperReturns(g, x.Index) {
					if rec(rv) {
						return true
					}
				}
			}
		}
	case *ssa.Call:
		if g := newHelperCallee(x); g != nil {
			for _, rv := range helperReturns(g, 0) {
				if rec(rv) {
					return true
				}
			}
		}
	case *ssa.UnOp:
		if a, isA := x.X.(*ssa.Alloc); isA && a.Referrers() != nil {
			for _, r := range *a.Referrers() {
				if st, isSt := r.(*ssa.Store); isSt && st.Addr == ssa.Value(a) && rec(st.Val) {
					return true
				}
			}
		}
	}
	return false
}

func sdlPos(l *Loaded) token.Pos { return l.Func("sdl", "", "Read").Pos() }

// manifestValidationShape (R4): two shape conditions of the provider-side manifest validation that a translated document
// has to pass. (a) An environment entry NAME=VALUE is split at its first '=' both where it is validated and where the
// container is built (a value may itself contain '='). (b) "the manifest exposes at least one service globally" is a
// statement about the whole manifest: the counter it tests is kept across the loop over groups and tested outside it.
func (c *Check) manifestValidationShape(rule string) {
	l := c.L
	classify := func(fn *ssa.Function, elemOf string) string {
		kind := ""
		for _, g := range fnAndClosuresDeep(fn) {
			for _, call := range callsInOwn(g) {
				full := calleeFull(call)
				a := call.Common().Args
				if !strings.HasPrefix(full, "strings.") || len(a) < 2 {
					continue
				}
				if sep, ok := strConst(a[1]); !ok || sep != "=" {
					if k, isK := constInt(a[1]); !isK || k != '=' {
						continue
					}
				}
				if !strings.Contains(Sym(a[0]), elemOf) {
					continue
				}
				k := ""
				switch full {
				case "strings.Index", "strings.IndexByte", "strings.IndexRune", "strings.Cut":
					k = "first"
				case "strings.SplitN":
					if n, isN := constInt(a[2]); isN && n == 2 {
						k = "first"
					} else {
						k = "other"
					}
				case "strings.LastIndex", "strings.LastIndexByte":
					k = "last"
				case "strings.Split":
					k = "every"
				default:
					continue
				}
				if kind == "" || kind == k {
					kind = k
				} else {
					kind = "mixed"
				}
			}
		}
		return kind
	}
	vs := l.Func("validation", "", "validateManifestService")
	cb := l.Func("provider/cluster/kube", "deploymentBuilder", "container")
	if vs != nil && cb != nil {
		c.Analysed(fnName(vs))
		kv, kb := classify(vs, ".Env["), classify(cb, ".Env[")
		switch {
		case kv == "" || kb == "":
			c.Info(rule, "environment entries: split idiom not recognised in validation / container builder, not decided", vs.Pos(), "validation: "+kv+", builder: "+kb)
		default:
			c.Ob(rule, "an environment entry is split at its first '=' by the validation and by the container builder alike", vs.Pos(), kv == "first" && kb == "first", "validation splits at the "+kv+" '=', the container builder at the "+kb+": an entry whose value contains '=' is rejected or deployed under another name")
		}
	}
	vg := l.Func("validation", "", "validateManifestGroups")
	if vg != nil {
		c.Analysed(fnName(vg))
		n := 0
		for _, g := range fnAndClosuresDeep(vg) {
			eachInstr(g, func(i ssa.Instruction) {
				bo, ok := i.(*ssa.BinOp)
				if !ok || bo.Op != token.EQL || !strings.HasSuffix(Sym(bo.X), "globalServiceCount") {
					return
				}
				if k, isK := constInt(bo.Y); !isK || k != 0 {
					return
				}
				n++
				inLoop := loopHeaderOf(bo.Block()) != nil
				if li := liftTo(vg, bo); li != nil && loopHeaderOf(li.Block()) != nil {
					inLoop = true
				}
				c.Ob(rule, "the 'no global service' rejection is decided once for the whole manifest", bo.Pos(), !inLoop, "the test sits inside the loop over groups: a group without a globally exposed service rejects a manifest whose other group has one")
			})
		}
		if n == 0 {
			c.Info(rule, "global-service test not found in validateManifestGroups, not decided", vg.Pos(), "")
		}
	}
}

// unitTableAgrees (R2): every row of the SDL's unit-suffix table pairs a suffix with the multiplier that suffix names:
// a letter K/M/G/T/P/E gives the exponent 1..6, a trailing 'i' the base 1024, its absence the base 1000. A row with the
// wrong constant makes every size written with that suffix come out wrong in groups and manifest alike.
func (c *Check) unitTableAgrees(rule string) {
	l := c.L
	sp := l.SSA[akash+"/sdl"]
	if sp == nil {
		return
	}
	ini := sp.Func("init")
	if ini == nil {
		return
	}
	// rows: stores of (symbol, unit) pairs into the elements of the table's backing array
	type row struct {
		sym string
		val uint64
		pos ssa.Instruction
		has int
	}
	rows := map[string]*row{}
	eachInstr(ini, func(i ssa.Instruction) {
		st, ok := i.(*ssa.Store)
		if !ok {
			return
		}
		fa, ok := st.Addr.(*ssa.FieldAddr)
		if !ok {
			return
		}
		ia, ok := fa.X.(*ssa.IndexAddr)
		if !ok {
			return
		}
		f := fieldName(fa.X.Type(), fa.Field)
		if f != "symbol" && f != "unit" {
			return
		}
		key := Sym(ia.X) + "#" + Sym(ia.Index)
		if rows[key] == nil {
			rows[key] = &row{pos: st}
		}
		r := rows[key]
		if f == "symbol" {
			if s, isS := strConst(st.Val); isS {
				r.sym = s
				r.has |= 1
			}
		} else if k, isK := st.Val.(*ssa.Const); isK && k.Value != nil {
			if u, exact := constant.Uint64Val(constant.ToInt(k.Value)); exact {
				r.val = u
				r.has |= 2
			}
		}
	})
	n := 0
	for _, r := range rows {
		if r.has != 3 || r.sym == "" {
			continue
		}
		exp := strings.Index("KMGTPE", strings.ToUpper(r.sym[:1])) + 1
		if exp == 0 {
			continue
		}
		base := uint64(1000)
		if strings.HasSuffix(r.sym, "i") {
			base = 1024
		}
		want := uint64(1)
		for k := 0; k < exp; k++ {
			want *= base
		}
		n++
		c.Ob(rule, "unit suffix "+r.sym+" multiplies by "+strconv.FormatUint(want, 10), r.pos.Pos(), r.val == want, "the table gives "+strconv.FormatUint(r.val, 10)+" for suffix "+r.sym)
	}
	if n < 10 {
		c.Info(rule, "unit suffix table: fewer rows recognised than on the pinned tree, agreement not decided for the rest", token.NoPos, itoa(n))
	}
}

// accessorsKeepNoState: deriving the groups or the manifest is a function of the decoded document. The accessors
// (and Version) must not write to their receiver: a result kept in the object is shared with every earlier caller,
// and whatever a caller does to what it was handed shows up in the next derivation and in the hash.
func (c *Check) accessorsKeepNoState(rule string) {
	l := c.L
	n := 0
	for _, spec := range [][2]string{{"sdl", "DeploymentGroups"}, {"sdl", "Manifest"}, {"v2", "DeploymentGroups"}, {"v2", "Manifest"}} {
		fn := l.Func("sdl", spec[0], spec[1])
		c.Analysed(fnName(fn))
		n++
		bad := ""
		pos := fn.Pos()
		for _, g := range fnAndClosuresDeep(fn) {
			if len(g.Params) == 0 {
				continue
			}
			eachInstr(g, func(i ssa.Instruction) {
				st, ok := i.(*ssa.Store)
				if !ok {
					return
				}
				a := st.Addr
				for d := 0; d < 4; d++ {
					fa, isFA := a.(*ssa.FieldAddr)
					if !isFA {
						break
					}
					if p := paramOfValue(fa.X); p != nil && paramIdx(p) == 0 && g == fn {
						bad = "stores into field " + fieldName(fa.X.Type(), fa.Field) + " of its receiver"
						pos = st.Pos()
					}
					a = fa.X
				}
			})
		}
		c.Ob(rule, spec[0]+"."+spec[1]+" derives its result anew and keeps nothing in the receiver", pos, bad == "", fnName(fn)+" "+bad+": later calls hand out the same shared value, so a caller's edit changes what the document 'says' (and its version hash)")
	}
	if n < 4 {
		c.Fail("C18-%s lost instances", rule)
	}
}

// milliWay: one way the value stored into the cpu quantity can come about; if it is the integer parse of the text
// before the "m" suffix, it must not pass through floating point.
func (c *Check) milliWay(st *ssa.Store, way ssa.Value, nm *int) {
	milli := sliceHas(way, map[ssa.Value]bool{}, 0, func(x ssa.Value) bool {
		cv, isC := x.(*ssa.Call)
		if !isC {
			return false
		}
		full := calleeFull(cv)
		if full != "strconv.ParseUint" && full != "strconv.ParseInt" && full != "strconv.Atoi" {
			return false
		}
		a := Sym(cv.Call.Args[0])
		return strings.Contains(a, "strings.TrimSuffix(") && strings.Contains(a, `"m"`)
	})
	if !milli {
		return
	}
	*nm++
	fl := floatInSlice(way, map[ssa.Value]bool{}, 0)
	c.Ob("R2", "milli-CPU amounts are carried as integers", st.Pos(), fl == "", "the value written for the \"<n>m\" notation passes through "+fl+": some amounts come out one unit short of what was declared")
}
