package main

import (
	"go/ast"
	"go/token"
	"go/types"
	"sort"
	"strings"

	"golang.org/x/tools/go/ssa"
)

func init() { registry["C02"] = checkC02 }

// settleCallsIn: calls in fn that run the settle core (directly, or via a wrapper that returns its error).
func settleCallsIn(l *Loaded, fn *ssa.Function, settle *ssa.Function) []*ssa.Call {
	return settleCallsDepth(l, fn, settle, 0)
}

func settleCallsDepth(l *Loaded, fn *ssa.Function, settle *ssa.Function, depth int) []*ssa.Call {
	var out []*ssa.Call
	for _, call := range callsInOwn(fn) {
		g := call.Common().StaticCallee()
		if g == nil {
			continue
		}
		cv, ok := call.(*ssa.Call)
		if !ok {
			continue
		}
		if g == settle {
			out = append(out, cv)
			continue
		}
		// a new helper (see transparent.go) is part of its caller: the settling calls inside it are the caller's
		if newHelperCallee(call) != nil && depth < 3 {
			out = append(out, settleCallsDepth(l, g, settle, depth+1)...)
			continue
		}
		if fnPkgPath(g) == escrowKeeperPkg && g != fn && errResultIndex(g) >= 0 && depth < 3 {
			// wrapper: every success return of g is on the ok-edge of a settling call inside g (or returns its error)
			inners := settleCallsDepth(l, g, settle, depth+1)
			if len(inners) == 0 {
				continue
			}
			wraps := true
			for _, r := range successReturns(g) {
				ev := r.Results[errResultIndex(g)]
				okRet := false
				for _, inner := range inners {
					if c3, _ := callOf(ev); c3 == inner || okEdgeAt(r.Block(), inner) {
						okRet = true
					}
				}
				if !okRet {
					wraps = false
				}
			}
			if wraps {
				out = append(out, cv)
			}
		}
	}
	return out
}

func isRecordPtr(t types.Type) string {
	p, ok := t.Underlying().(*types.Pointer)
	if !ok {
		return ""
	}
	s := p.Elem().String()
	if s == escrowTypesPkg+".Account" {
		return "Account"
	}
	if s == escrowTypesPkg+".Payment" {
		return "Payment"
	}
	return ""
}

// freshAfter: value v (a record or list of records) was produced by a call executed at/after settle call s.
func freshAfter(v ssa.Value, s *ssa.Call) bool {
	c, _ := callOf(v)
	if c == nil {
		return false
	}
	return c == s || instrDominates(s, c)
}

func checkC02(c *Check) {
	c.Explanation = "Structural necessary conditions of exact metering, decided on all CFG paths of the escrow keeper: (R1) every store write / payout in PaymentCreate, PaymentWithdraw, PaymentClose, AccountClose is dominated by the success edge of a settlement, and every record mutated after the settlement was (re)loaded after it (no stale pre-settlement copy is written back); (R2) a new payment is stored only after rate!=0 and denom==account denom; (R3) the overdrawn state is persisted only when the remainder is exhausted; (R4) double entry inside the three distribution helpers: the value credited to each payee is the value accumulated and the accumulated total (and nothing else) is what is added to Transferred and subtracted from Balance and the remainder; full-block credit and debit multiply by the same block count and the block rate handed in is the sum of the rates of the same payment list; (R5) SettledAt is only ever assigned ctx.BlockHeight(), in the constructor and the settle core, before the account is persisted. An in-place removal inside a scan re-examines the position it removed from."
	c.NotDecided = "exactness of rate x blocks, the weighted/even overdraft split and the 'at most one further block' bound (sdk.Int arithmetic)"
	l := c.L
	kfuncs := l.pkgFuncs("x/escrow/keeper")
	settle := l.settleCore()
	mut := mutatingFuncs(l, kfuncs)

	// ---- R1 settle-before-act + no stale records
	for _, name := range settlingEntryPoints(l, kfuncs, settle) {
		fn := l.Func("x/escrow/keeper", "keeper", name)
		c.Analysed(fnName(fn))
		scs := settleCallsIn(l, fn, settle)
		if len(scs) == 0 {
			c.Ob("R1", name+": settles before acting", fn.Pos(), false, "no settlement call found: payees would be credited lazily with the wrong set of payments/rates")
			continue
		}
		s := scs[0]
		ok := true
		var bad ssa.Instruction
		nm := 0
		// code of the settling wrappers themselves is the settlement, not an action after it
		inSettle := map[*ssa.Function]bool{}
		for _, x := range scs {
			if g := x.Call.StaticCallee(); g != nil && g != fn {
				inSettle[g] = true
				for _, h := range helpersOf(g) {
					inSettle[h] = true
				}
			}
		}
		for _, call := range callsIn(fn, false) {
			if call == ssa.CallInstruction(s) || !isMutation(call, mut) || inSettle[call.Parent()] {
				continue
			}
			isSettle := false
			for _, x := range scs {
				if ssa.CallInstruction(x) == call {
					isSettle = true
				}
			}
			if isSettle {
				continue
			}
			nm++
			if !okEdgeAt(call.Block(), s) {
				ok = false
				bad = call
			}
		}
		pos := fn.Pos()
		if bad != nil {
			pos = bad.Pos()
		}
		c.Ob("R1", name+": every write/payout dominated by successful settlement", pos, ok && nm > 0, "a store write or payout can happen before/without settling the account up to the current height")
		c.staleRecordRule("R1", fn, s, mut)
		// state stores after settle on records
		for _, ss := range escrowStateStores(l, fn) {
			if !instrDominates(s, ss.st) {
				c.Ob("R1", name+": state change after settlement", ss.st.Pos(), false, "state assigned before settlement")
			}
		}
	}
	c.Floor("R1", 8)

	// ---- R2 rate guards in PaymentCreate
	{
		fn := l.Func("x/escrow/keeper", "keeper", "PaymentCreate")
		rate := paramNamed(fn, "rate")
		scs := settleCallsIn(l, fn, settle)
		for _, call := range callsIn(fn, false) {
			// the write of the new payment: a direct store write, or the keeper's persist helper
			isSettle := false
			for _, x := range scs {
				if ssa.CallInstruction(x) == call {
					isSettle = true
				}
			}
			if !isStoreSet(call) && !(isMutation(call, mut) && !isSettle && !isBankMutatorCall(call)) {
				continue
			}
			if g := call.Common().StaticCallee(); g != nil && len(settleCallsIn(l, g, settle)) > 0 {
				continue
			}
			nz := false
			for _, a := range factsAt(call.Block()) {
				if a.Op == "false" {
					if h, _ := callOf(a.X); h != nil && calleeMethod(h) == "IsZero" && rate != nil && strings.HasPrefix(Sym(h.Call.Args[0]), "p:"+paramName(rate)) {
						nz = true
					}
				}
			}
			c.Ob("R2", "new payment stored only with non-zero rate", call.Pos(), nz, "a payment with a zero rate can be created")
			dn := false
			for _, a := range factsAt(call.Block()) {
				if a.Op == "eq" {
					x, y := Sym(a.X), Sym(a.Y)
					if (strings.HasSuffix(x, "rate.Denom") && strings.HasSuffix(y, ".Balance.Denom")) || (strings.HasSuffix(y, "rate.Denom") && strings.HasSuffix(x, ".Balance.Denom")) {
						// account side must come from the settle call
						if len(scs) > 0 && (strings.Contains(x+y, "doAccountSettle(") || strings.Contains(x+y, settle.Name()+"(") || strings.Contains(x+y, "local:account")) {
							dn = true
						}
					}
				}
			}
			c.Ob("R2", "new payment stored only with the account's denomination", call.Pos(), dn, "a payment in a different denomination than the account balance can be created")
		}
		c.Floor("R2", 2)
	}

	// ---- R3 remainder guard
	{
		n := 0
		for _, ss := range escrowStateStores(l, settle) {
			if ss.kname != "AccountOverdrawn" {
				continue
			}
			n++
			ok := false
			for _, a := range factsAt(ss.st.Block()) {
				if a.Op == "true" {
					if h, _ := callOf(a.X); h != nil && calleeMethod(h) == "IsZero" {
						// receiver derives from the distribution helpers' remainder result
						rs := Sym(h.Call.Args[0])
						if strings.Contains(rs, "accountSettleDistribute") || strings.Contains(rs, "amountRemaining") {
							ok = true
						}
					}
				}
			}
			c.Ob("R3", "overdrawn state only when the remainder is exhausted", ss.st.Pos(), ok, "account is marked overdrawn although part of its balance was not distributed (coins left without an open record)")
		}
		if n == 0 {
			c.Ob("R3", "overdrawn branch exists in settle core", settle.Pos(), false, "no overdrawn transition in the settle core")
		}
	}

	// ---- R4 double entry in the distribution helpers
	nh := 0
	for _, fn := range kfuncs {
		if fn.Signature.Recv() != nil || fn.Parent() != nil || !strings.HasPrefix(fn.Name(), "accountSettle") {
			continue
		}
		nh++
		c.Analysed(fnName(fn))
		c.doubleEntryHelper(fn)
	}
	if nh < 3 {
		c.Fail("C02-R4: settle helpers not found")
	}
	// call sites in settle core: blockRate = sum of rates over the same list
	for _, call := range callsIn(settle, false) {
		g := call.Common().StaticCallee()
		if g == nil || !strings.HasPrefix(g.Name(), "accountSettle") || g.Signature.Recv() != nil {
			continue
		}
		var list, br ssa.Value
		for i, p := range g.Params {
			if _, ok := p.Type().(*types.Slice); ok {
				list = call.Common().Args[i]
			}
			if p.Name() == "blockRate" {
				br = call.Common().Args[i]
			}
		}
		if br == nil {
			continue
		}
		ls := Sym(list)
		// the list may have been passed through the previous helper (result #1): take the innermost list
		bs := Sym(br)
		ok := strings.Contains(bs, "types.Coin.Add(phi@") && strings.Contains(bs, ".Rate)") && strings.Contains(bs, "types.ZeroInt())")
		root := rootList(ls)
		ok = ok && strings.Contains(bs, root+"[")
		c.Ob("R4", "block rate passed to "+g.Name()+" is the sum of the rates of the same payment list", call.Pos(), ok, "blockRate "+short(bs)+" is not Σ Rate over "+short(root))
	}
	c.Floor("R4", 12)

	// ---- R6 the payment enumeration used by settlement selects exactly the account's own payments (key layout)
	c.keyLayoutsRule("R6", []string{"x/escrow/keeper"}, 1, 2)

	// ---- R7 a settlement hands every open payment to its caller (shared with C03-R2): AccountClose pays out exactly
	// the payments it is handed, a payee left out never receives what accrued
	c.settleHandsOnPayments("R7", settle)
	c.statePersistedRule("R7", kfuncs)
	c.Floor("R7", 11)

	// ---- R8 every record read from the store in a loop is decoded into its own variable
	c.decodeTargetRule("R8", []string{"x/escrow/keeper"})
	c.escrowExportComplete("R8")
	c.distributeAlways("R4")
	c.removalSkipsNext("R7", []string{"x/escrow/keeper"})

	// ---- R5 SettledAt
	nset := 0
	for _, fn := range l.prodFuncs() {
		eachInstr(fn, func(i ssa.Instruction) {
			st, ok := i.(*ssa.Store)
			if !ok {
				return
			}
			fa, ok := st.Addr.(*ssa.FieldAddr)
			if !ok {
				return
			}
			tn, f := structFieldOf(fa)
			if tn != escrowTypesPkg+".Account" || f != "SettledAt" {
				return
			}
			if strings.HasSuffix(fn.Name(), "Unmarshal") || strings.HasSuffix(c.L.Fset.Position(st.Pos()).Filename, ".pb.go") {
				return
			}
			nset++
			okv := Sym(st.Val) == "types.Context.BlockHeight(p:ctx)"
			okf := fn == settle || (fnPkgPath(fn) == escrowKeeperPkg && fn.Name() == "AccountCreate")
			c.Ob("R5", "SettledAt assigned in "+fnName(fn), st.Pos(), okv && okf, "SettledAt may only be set to the current block height, by the constructor and the settle core (value: "+Sym(st.Val)+")")
			if fn == settle {
				// every persist of the account in the settle core happens after this store
				for _, call := range callsIn(fn, false) {
					if g := call.Common().StaticCallee(); g != nil && persistsParamDeep(g, 0) >= 0 && g.Name() == "saveAccount" {
						c.Ob("R5", "account persisted by settle core carries the new SettledAt", call.Pos(), instrDominates(st, call), "account saved without advancing SettledAt: the same blocks would be charged again")
					}
				}
			}
		})
	}
	if nset < 2 {
		c.Fail("C02-R5 lost instances")
	}
	// height delta derives from BlockHeight - SettledAt (read before SettledAt is advanced) and is what
	// the full-block helper receives
	{
		var delta *ssa.BinOp
		eachInstr(settle, func(i ssa.Instruction) {
			if b, isB := i.(*ssa.BinOp); isB && Sym(b.X) == "types.Context.BlockHeight(p:ctx)" && strings.HasSuffix(Sym(b.Y), "account.SettledAt") && b.Op.String() == "-" {
				delta = b
			}
		})
		ok := delta != nil
		if ok {
			eachInstr(settle, func(i ssa.Instruction) {
				if st, isSt := i.(*ssa.Store); isSt && strings.HasSuffix(Sym(st.Addr), "account.SettledAt") && !instrDominates(delta, st) {
					ok = false
				}
			})
			passed := false
			for _, call := range callsIn(settle, false) {
				if g := call.Common().StaticCallee(); g != nil && g.Name() == "accountSettleFullblocks" {
					for i, p := range g.Params {
						if p.Name() == "heightDelta" && Sym(call.Common().Args[i]) == "types.NewInt("+Sym(delta)+")" {
							passed = true
						}
					}
				}
			}
			ok = ok && passed
		}
		c.Ob("R5", "elapsed blocks = current height - SettledAt, handed to the full-block helper", settle.Pos(), ok, "elapsed-block computation is not BlockHeight()-SettledAt of the loaded account (read before SettledAt is advanced)")
	}
}

func firstAccountSym(settle *ssa.Function) string {
	for _, call := range callsIn(settle, false) {
		if calleeMethod(call) == "GetAccount" {
			return Sym(call.Value()) + "#0"
		}
	}
	return "?"
}

func short(s string) string {
	if len(s) > 160 {
		return s[:160] + "…"
	}
	return s
}

func symShort(v ssa.Value) string { return short(Sym(v)) }

// rootList strips helper pass-through: accountSettleX(a, LIST, ...)#1 -> LIST
func rootList(s string) string {
	for strings.HasPrefix(s, "keeper.accountSettle") && strings.HasSuffix(s, "#1") {
		// find second argument
		i := strings.Index(s, "(")
		depth := 0
		start := i + 1
		argn := 0
		found := ""
		for j := i + 1; j < len(s); j++ {
			switch s[j] {
			case '(', '[':
				depth++
			case ')', ']':
				if depth == 0 && s[j] == ')' {
					if argn == 1 {
						found = s[start:j]
					}
					j = len(s)
					continue
				}
				depth--
			case ',':
				if depth == 0 {
					if argn == 1 {
						found = s[start:j]
					}
					argn++
					start = j + 2
				}
			}
			if found != "" {
				break
			}
		}
		if found == "" {
			return s
		}
		s = found
	}
	return s
}

func paramNamed(fn *ssa.Function, name string) *ssa.Parameter {
	for _, p := range fn.Params {
		if paramName(p) == name {
			return p
		}
	}
	return nil
}

// recordFreshAt: is the record pointed to by ptr, as used at `use`, loaded at/after settle call s on every path?
func recordFreshAt(fn *ssa.Function, ptr ssa.Value, s *ssa.Call, use ssa.Instruction) (bool, string) {
	switch p := ptr.(type) {
	case *ssa.Alloc:
		// every path from s to use passes a whole-variable store of a fresh value
		if p.Comment == "complit" {
			return true, ""
		}
		if p.Parent() == s.Parent() && instrDominates(s, p) {
			// the variable itself comes into being after the settlement (built field by field); a whole record copied
			// into it must itself be loaded after the settlement
			stale := false
			for _, rr := range *p.Referrers() {
				if st, ok := rr.(*ssa.Store); ok && st.Addr == ssa.Value(p) && !freshAfter(st.Val, s) {
					stale = true
				}
			}
			if !stale {
				return true, ""
			}
		}
		isFreshStore := func(in ssa.Instruction) bool {
			st, ok := in.(*ssa.Store)
			return ok && st.Addr == ssa.Value(p) && freshAfter(st.Val, s)
		}
		if mustPassFrom(fn, s, use, isFreshStore) {
			return true, ""
		}
		return false, "record variable '" + p.Comment + "' was loaded before the settlement and is written back after it (settlement's credit is overwritten / paid out stale)"
	case *ssa.IndexAddr:
		lst := p.X
		if use.Parent() != p.Parent() {
			lst = callerValue(lst)
		}
		if u, ok := lst.(*ssa.UnOp); ok {
			if a, ok := u.X.(*ssa.Alloc); ok {
				isFreshStore := func(in ssa.Instruction) bool {
					st, ok := in.(*ssa.Store)
					return ok && st.Addr == ssa.Value(a) && freshAfter(st.Val, s)
				}
				if mustPassFrom(fn, s, use, isFreshStore) {
					return true, ""
				}
				return false, "payment list '" + a.Comment + "' was loaded before the settlement"
			}
		}
		if freshAfter(lst, s) {
			return true, ""
		}
		return false, "payment list " + short(Sym(lst)) + " was enumerated before the settlement and is paid out/persisted after it"
	case *ssa.Parameter:
		return true, ""
	case *ssa.Call:
		// a record handed back by a call made after the settlement (a constructor or a fresh load)
		if p.Parent() == s.Parent() && instrDominates(s, p) {
			return true, ""
		}
	}
	return false, "cannot establish that " + short(Sym(ptr)) + " was loaded after the settlement"
}

type credit struct {
	st  *ssa.Store
	amt ssa.Value
}

// unwrapCoin: NewCoin(_, X) -> X ; otherwise v
func unwrapCoin(v ssa.Value) ssa.Value {
	if call, ok := v.(*ssa.Call); ok && strings.HasSuffix(calleeFull(call), "cosmos-sdk/types.NewCoin") && len(call.Call.Args) == 2 {
		return call.Call.Args[1]
	}
	return v
}

// addSubOf: if v is X.Add(Y)/X.Sub(Y) with X == load of addr's target, return op and Y.
func addSubOf(addr, v ssa.Value) (string, ssa.Value) {
	call, ok := v.(*ssa.Call)
	if !ok || len(call.Call.Args) != 2 {
		return "", nil
	}
	m := calleeMethod(call)
	if m != "Add" && m != "Sub" {
		return "", nil
	}
	if "&"+Sym(call.Call.Args[0]) != Sym(addr) {
		return "", nil
	}
	return m, call.Call.Args[1]
}

func (c *Check) doubleEntryHelper(fn *ssa.Function) {
	name := fn.Name()
	var credits []credit
	type acct struct {
		field string
		op    string
		amt   ssa.Value
		st    *ssa.Store
	}
	var accts []acct
	bad := false
	eachInstr(fn, func(i ssa.Instruction) {
		st, ok := i.(*ssa.Store)
		if !ok {
			return
		}
		as := Sym(st.Addr)
		switch {
		case strings.HasPrefix(as, "&*p:payments[") && (strings.HasSuffix(as, "].Balance") || strings.HasSuffix(as, "].Balance.Amount")):
			op, y := addSubOf(st.Addr, st.Val)
			if op != "Add" {
				c.Ob("R4", name+": payee balance updated only by adding a credit", st.Pos(), false, "payee balance assigned "+short(Sym(st.Val)))
				bad = true
				return
			}
			credits = append(credits, credit{st, unwrapCoin(y)})
		case strings.HasPrefix(as, "&*p:payments["):
			// other payment fields must not be touched by arithmetic helpers
			c.Ob("R4", name+": helper touches only payee balances", st.Pos(), false, "helper writes "+as)
			bad = true
		case as == "&local:account.Transferred" || as == "&local:account.Transferred.Amount" ||
			as == "&local:account.Balance" || as == "&local:account.Balance.Amount" ||
			as == "&local:amountRemaining" || as == "&local:amountRemaining.Amount":
			if _, isParam := st.Val.(*ssa.Parameter); isParam {
				return // parameter spill
			}
			op, y := addSubOf(st.Addr, st.Val)
			if op == "" {
				c.Ob("R4", name+": account totals updated only by +=/-= of the transferred total", st.Pos(), false, as+" assigned "+short(Sym(st.Val)))
				bad = true
				return
			}
			f := strings.TrimSuffix(strings.TrimPrefix(as, "&local:"), ".Amount")
			accts = append(accts, acct{f, op, unwrapCoin(y), st})
		}
	})
	if bad {
		return
	}
	c.Ob("R4", name+": credits found", fn.Pos(), len(credits) == 1, "expected exactly one payee credit statement in the loop")
	if len(credits) != 1 {
		return
	}
	cr := credits[0]
	c.evenShareRule(name, fn, cr)
	// total: either an accumulator phi over the credited amount, or (full blocks) rate-sum x same multiplier
	var total ssa.Value
	okTotal := false
	detail := ""
	if mul, ok := cr.amt.(*ssa.Call); ok && calleeMethod(mul) == "Mul" && strings.HasSuffix(Sym(mul.Call.Args[0]), "].Rate.Amount") {
		// full-block form
		n := mul.Call.Args[1]
		c.minShape(fn, n)
		for _, a := range accts {
			if m2, ok := a.amt.(*ssa.Call); ok && calleeMethod(m2) == "Mul" && Sym(m2.Call.Args[0]) == "p:blockRate.Amount" {
				if m2.Call.Args[1] == n {
					total = a.amt
					okTotal = true
				} else {
					detail = "payees are credited rate x " + short(Sym(n)) + " but the account is debited blockRate x " + short(Sym(m2.Call.Args[1]))
				}
			}
		}
		if total == nil && detail == "" {
			detail = "no account debit of blockRate x blocks found"
		}
	} else {
		// accumulator form: phi(Zero | Add(phi, amt))
		eachInstr(fn, func(i ssa.Instruction) {
			ph, ok := i.(*ssa.Phi)
			if !ok || len(ph.Edges) != 2 {
				return
			}
			for k := 0; k < 2; k++ {
				z, isZ := ph.Edges[k].(*ssa.Call)
				add, isA := ph.Edges[1-k].(*ssa.Call)
				if !isZ || !isA || !strings.HasSuffix(calleeFull(z), "types.ZeroInt") || calleeMethod(add) != "Add" || len(add.Call.Args) != 2 {
					continue
				}
				if add.Call.Args[0] == ssa.Value(ph) && add.Call.Args[1] == cr.amt {
					total = ph
					okTotal = true
				}
			}
		})
		if !okTotal {
			detail = "the amount credited to a payee (" + short(Sym(cr.amt)) + ") is not the amount added to the running total"
		}
	}
	c.Ob("R4", name+": credited amount == amount accumulated in the total", cr.st.Pos(), okTotal, detail)
	if !okTotal {
		return
	}
	want := map[string]string{"account.Transferred": "Add", "account.Balance": "Sub"}
	if name != "accountSettleFullblocks" {
		want["amountRemaining"] = "Sub"
	}
	for f, op := range want {
		n := 0
		ok := true
		for _, a := range accts {
			if a.field != f {
				continue
			}
			n++
			same := a.amt == total
			if !same {
				// full-block: total is a call; loads duplicated -> compare Sym
				same = Sym(a.amt) == Sym(total)
			}
			if a.op != op || !same {
				ok = false
			}
		}
		c.Ob("R4", name+": "+f+" "+op+"= exactly the total credited", fn.Pos(), ok && n == 1, f+" is not updated exactly once by the total credited to payees")
	}
	for _, a := range accts {
		if _, ok := want[a.field]; !ok && !(name == "accountSettleFullblocks") {
			c.Ob("R4", name+": unexpected total update "+a.field, a.st.Pos(), false, "")
		}
	}
}

// minShape: the block multiplier is min(heightDelta, balance/blockRate): a phi of exactly those two values
// whose heightDelta edge is taken under quo > heightDelta; and the overdrawn flag is false only when
// multiplier == heightDelta.
func (c *Check) minShape(fn *ssa.Function, n ssa.Value) {
	ok := false
	detail := "block multiplier " + short(Sym(n)) + " is not min(elapsed blocks, affordable blocks)"
	if ph, isPhi := n.(*ssa.Phi); isPhi && len(ph.Edges) == 2 {
		var hd *ssa.Parameter
		var quo *ssa.Call
		hdIdx := -1
		for i, e := range ph.Edges {
			if p, isP := e.(*ssa.Parameter); isP && paramName(p) == "heightDelta" {
				hd = p
				hdIdx = i
			}
			if q, isQ := e.(*ssa.Call); isQ && calleeMethod(q) == "Quo" && strings.HasSuffix(Sym(q.Call.Args[0]), "account.Balance.Amount") && Sym(q.Call.Args[1]) == "p:blockRate.Amount" {
				quo = q
			}
		}
		if hd != nil && quo != nil {
			// predecessor block providing heightDelta must be dominated by GT(quo, heightDelta)==true (or LT(heightDelta, quo))
			pred := ph.Block().Preds[hdIdx]
			for _, a := range append(factsAt(pred), factsAtSelf(pred)...) {
				if a.Op != "true" {
					continue
				}
				if g, _ := callOf(a.X); g != nil {
					m := calleeMethod(g)
					if (m == "GT" && g.Call.Args[0] == ssa.Value(quo) && g.Call.Args[1] == ssa.Value(hd)) ||
						(m == "LT" && g.Call.Args[0] == ssa.Value(hd) && g.Call.Args[1] == ssa.Value(quo)) {
						ok = true
					}
				}
			}
			if !ok {
				detail = "elapsed blocks are chosen without the affordable > elapsed test"
			}
		}
	}
	c.Ob("R4", fn.Name()+": blocks charged = min(elapsed, affordable)", fn.Pos(), ok, detail)
	// overdrawn flag: whenever the returned flag is false, blocksCharged.Equal(elapsed) holds
	isEq := func(v ssa.Value) bool {
		g, _ := callOf(v)
		if g == nil || calleeMethod(g) != "Equal" || len(g.Call.Args) != 2 {
			return false
		}
		a0, a1 := g.Call.Args[0], g.Call.Args[1]
		return (a0 == n && Sym(a1) == "p:heightDelta") || (a1 == n && Sym(a0) == "p:heightDelta")
	}
	var falseImpliesEq func(v ssa.Value, blk *ssa.BasicBlock, seen map[ssa.Value]bool) bool
	falseImpliesEq = func(v ssa.Value, blk *ssa.BasicBlock, seen map[ssa.Value]bool) bool {
		if seen[v] {
			return true
		}
		seen[v] = true
		switch x := v.(type) {
		case *ssa.Const:
			if x.Value != nil && x.Value.ExactString() == "true" {
				return true
			}
			if x.Value != nil && x.Value.ExactString() == "false" {
				for _, a := range factsAt(blk) {
					if a.Op == "true" && isEq(a.X) {
						return true
					}
				}
				// the edge out of blk itself may be the deciding one
				if ifi, isIf := blk.Instrs[len(blk.Instrs)-1].(*ssa.If); isIf && isEq(ifi.Cond) {
					return true // refined below by edge direction in the phi case
				}
			}
			return false
		case *ssa.UnOp:
			if x.Op == token.NOT {
				return isEq(x.X)
			}
		case *ssa.Phi:
			for i, e := range x.Edges {
				pred := x.Block().Preds[i]
				if k, isK := e.(*ssa.Const); isK && k.Value != nil && k.Value.ExactString() == "false" {
					okEdge := false
					for _, a := range factsAt(pred) {
						if a.Op == "true" && isEq(a.X) {
							okEdge = true
						}
					}
					if ifi, isIf := pred.Instrs[len(pred.Instrs)-1].(*ssa.If); isIf && isEq(ifi.Cond) && pred.Succs[0] == x.Block() && pred.Succs[1] != x.Block() {
						okEdge = true
					}
					if !okEdge {
						return false
					}
					continue
				}
				if !falseImpliesEq(e, pred, seen) {
					return false
				}
			}
			return true
		}
		return false
	}
	okf := false
	nflag := 0
	for _, r := range successReturns(fn) {
		for _, res := range r.Results {
			if types.Identical(res.Type(), types.Typ[types.Bool]) {
				nflag++
				okf = falseImpliesEq(res, r.Block(), map[ssa.Value]bool{})
			}
		}
	}
	okf = okf && nflag == 1
	c.Ob("R4", fn.Name()+": not-overdrawn only when all elapsed blocks were charged", fn.Pos(), okf, "overdrawn flag is not derived from blocksCharged == elapsed")
}

// staleRecordRule: every record handed to a mutating call after settlement call s was loaded at/after s.
func (c *Check) staleRecordRule(rule string, fn *ssa.Function, s *ssa.Call, mut map[*ssa.Function]bool) {
	name := fn.Name()
	// stale records
	for _, call := range callsIn(fn, false) {
		if call == ssa.CallInstruction(s) || !isMutation(call, mut) {
			continue
		}
		// settlement and write are compared in the function that contains the write; a settlement inside a new
		// helper is represented there by the helper's call
		home := call.Parent()
		sHere := s
		var useHere ssa.Instruction = call
		liftArgs := false
		sibling := false
		if s.Parent() != home {
			if li, _ := liftTo(home, s).(*ssa.Call); li != nil {
				sHere = li
			} else if lu := liftTo(s.Parent(), call); lu != nil {
				// the write sits in a new helper called after the settlement: compared at the helper's call, with the
				// helper's parameters read as the caller's arguments
				home, useHere, liftArgs = s.Parent(), lu, true
			} else if ls, _ := liftTo(fn, s).(*ssa.Call); ls != nil && liftTo(fn, call) != nil {
				// settlement and write sit in two sibling helpers of the entry point: compared at their calls there
				home, sHere, useHere, liftArgs = fn, ls, liftTo(fn, call), true
				sibling = true
			} else {
				continue
			}
		}
		if !instrDominates(sHere, useHere) {
			continue
		}
		args := append([]ssa.Value{}, call.Common().Args...)
		if isStoreSet(call) {
			// a direct store write: the record is the object being marshalled
			if o := marshalledObj(call); o != nil {
				args = append(args, o)
			}
		}
		for _, a := range args {
			kind := isRecordPtr(a.Type())
			if kind == "" {
				continue
			}
			if liftArgs {
				a = callerValue(a)
			}
			if sibling {
				// a record that is a local of the helper holding the write was loaded inside that helper, which runs
				// as a whole after the sibling that settled
				if al, isAl := stripLoad(a).(*ssa.Alloc); isAl && al.Parent() == call.Parent() && paramOfAlloc(al) == nil {
					c.Ob(rule, name+": "+kind+" written after settlement was loaded after it ("+calleeMethod(call)+" of "+symShort(a)+")", call.Pos(), true, "")
					continue
				}
			}
			fresh, why := recordFreshAt(home, a, sHere, useHere)
			c.Ob(rule, name+": "+kind+" written after settlement was loaded after it ("+calleeMethod(call)+" of "+symShort(a)+")", call.Pos(), fresh, why)
		}
	}
}

// settlingEntryPoints: the keeper's exported entry points that must settle before acting (frozen from the property:
// creating, withdrawing, closing a payment, closing an account) plus every other exported keeper method that today
// settles the account (a settlement added elsewhere brings the same stale-copy hazard with it).
func settlingEntryPoints(l *Loaded, kfuncs []*ssa.Function, settle *ssa.Function) []string {
	names := []string{"PaymentCreate", "PaymentWithdraw", "PaymentClose", "AccountClose"}
	have := map[string]bool{}
	for _, n := range names {
		have[n] = true
	}
	var extra []string
	for _, fn := range kfuncs {
		if fn.Parent() != nil || fn.Signature.Recv() == nil || !ast.IsExported(fn.Name()) || have[fn.Name()] || fn.Name() == "AccountSettle" {
			continue
		}
		if len(settleCallsIn(l, fn, settle)) > 0 {
			extra = append(extra, fn.Name())
			have[fn.Name()] = true
		}
	}
	sort.Strings(extra)
	return append(names, extra...)
}

// decodeTargetRule: a record decoded inside a loop is decoded into a variable that belongs to that iteration. The
// generated Unmarshal does not reset its receiver and sdk.Int / Coin fields hold pointers: decoding every element into
// one variable declared outside the loop makes the collected elements share the last element's amounts (rates,
// balances) — settlement would then meter every payment at one payment's rate.
func (c *Check) decodeTargetRule(rule string, rels []string) {
	l := c.L
	n := 0
	for _, rel := range rels {
		for _, fn := range l.pkgFuncs(rel) {
			for _, call := range callsInOwn(fn) {
				m := calleeMethod(call)
				if !strings.Contains(m, "Unmarshal") {
					continue
				}
				h := loopHeaderOf(call.Block())
				if h == nil {
					continue
				}
				args := call.Common().Args
				tgt, isA := args[len(args)-1].(*ssa.Alloc)
				if !isA {
					if mi, isMI := args[len(args)-1].(*ssa.MakeInterface); isMI {
						tgt, isA = mi.X.(*ssa.Alloc)
					}
				}
				if !isA {
					continue
				}
				n++
				body := loopBlocks(h)
				c.Analysed(fnName(fn))
				c.Ob(rule, "record decoded in the loop of "+fnName(fn)+" has its own variable per iteration", call.Pos(), body[tgt.Block()], "every element is decoded into the single variable '"+tgt.Comment+"' declared outside the loop: elements collected from it share pointer-typed fields (amounts) of the last element read")
			}
		}
	}
	if n < 2 {
		c.Fail("%s-%s lost instances: %d decode sites in loops", c.ID, rule, n)
	}
}

// callerValue: a parameter of a new helper (with a unique call site) read as the argument the caller passes.
func callerValue(v ssa.Value) ssa.Value {
	for d := 0; d < 4; d++ {
		p, ok := v.(*ssa.Parameter)
		if !ok {
			break
		}
		a := transparentArg(p)
		if a == nil {
			break
		}
		v = a
	}
	return v
}

// evenShareRule: in the helper that splits a remainder evenly (its share is remainder / number of payees), every value a
// payee can be credited is that share or that share plus one unit: "at most one further unit" per payee is visible in
// the shape of the credited expression. A credit of share + <anything else> is a violation; a credit whose leaves
// are of another form is not decided.
func (c *Check) evenShareRule(name string, fn *ssa.Function, cr credit) {
	if c.ID != "C02" {
		return // who gets the remainder is a metering question; the sums other properties rely on are unaffected
	}
	var leaves []ssa.Value
	var walk func(v ssa.Value, seen map[ssa.Value]bool)
	walk = func(v ssa.Value, seen map[ssa.Value]bool) {
		if seen[v] {
			return
		}
		seen[v] = true
		if ph, ok := v.(*ssa.Phi); ok {
			for _, e := range ph.Edges {
				walk(e, seen)
			}
			return
		}
		leaves = append(leaves, v)
	}
	walk(cr.amt, map[ssa.Value]bool{})
	isShare := func(v ssa.Value) bool {
		call, ok := v.(*ssa.Call)
		if !ok || (calleeMethod(call) != "QuoRaw" && calleeMethod(call) != "Quo") || len(call.Call.Args) != 2 {
			return false
		}
		return strings.Contains(Sym(call.Call.Args[1]), "builtin.len(p:payments)")
	}
	hasShare := false
	for _, lf := range leaves {
		if isShare(lf) {
			hasShare = true
		}
		if call, ok := lf.(*ssa.Call); ok && len(call.Call.Args) == 2 && isShare(call.Call.Args[0]) {
			hasShare = true
		}
	}
	if !hasShare {
		return // not the even-split helper
	}
	ok, undecided := true, ""
	bad := ""
	for _, lf := range leaves {
		if isShare(lf) {
			continue
		}
		call, isC := lf.(*ssa.Call)
		if isC && len(call.Call.Args) == 2 && isShare(call.Call.Args[0]) && (calleeMethod(call) == "AddRaw" || calleeMethod(call) == "Add") {
			inc := Sym(call.Call.Args[1])
			if inc == "1" || inc == "types.OneInt()" || inc == "types.NewInt(1)" {
				continue
			}
			ok = false
			bad = short(Sym(lf))
			continue
		}
		undecided = short(Sym(lf))
	}
	switch {
	case !ok:
		c.Ob("R4", name+": a payee is credited the even share or the even share plus one unit", cr.st.Pos(), false, "a payee can be credited "+bad+": more than one unit above the even share (the others get less than their entitlement)")
	case undecided != "":
		c.Info("R4", name+": even share plus at most one unit not decided", cr.st.Pos(), "credited value "+undecided+" is not of the form share / share+1")
	default:
		c.Ob("R4", name+": a payee is credited the even share or the even share plus one unit", cr.st.Pos(), true, "")
	}
}

// distributeAlways: each of the three distribution helpers hands out on every path: a return that is not behind the
// loop over payments is allowed only where the amount to distribute is known to be zero. An early return on some other
// condition (a zero per-payee share while a remainder is still owed) leaves the remainder unassigned; the settle core
// then refuses to settle and every later close / withdraw of that account fails. Shared by C02-R4 and C03-R2.
func (c *Check) distributeAlways(rule string) {
	l := c.L
	n := 0
	for _, fn := range l.pkgFuncs("x/escrow/keeper") {
		if fn.Parent() != nil || fn.Signature.Recv() != nil || !strings.HasPrefix(fn.Name(), "accountSettle") {
			continue
		}
		// the loop over the payments
		var hdr *ssa.BasicBlock
		for _, b := range fn.Blocks {
			if ifi, ok := b.Instrs[len(b.Instrs)-1].(*ssa.If); ok && strings.Contains(Sym(ifi.Cond), "builtin.len(p:payments)") && loopHeaderOf(b) == b {
				hdr = b
			}
		}
		if hdr == nil {
			continue
		}
		n++
		c.Analysed(fnName(fn))
		for _, b := range fn.Blocks {
			r, ok := b.Instrs[len(b.Instrs)-1].(*ssa.Return)
			if !ok || hdr.Dominates(b) {
				continue
			}
			zero := boolCallFactAt(b, true, func(h *ssa.Call, _ int) bool {
				s := Sym(h.Call.Args[0])
				return calleeMethod(h) == "IsZero" && (strings.HasSuffix(s, "amountRemaining") || strings.HasSuffix(s, "amountRemaining.Amount")) && !strings.Contains(s, "(")
			})
			c.Ob(rule, fn.Name()+": returns without distributing only when nothing is left to distribute", r.Pos(), zero, "the helper can return before its loop over the payments on a condition other than a zero remainder: what is still owed stays unassigned, the settlement is refused and the account can no longer be closed or withdrawn from")
		}
	}
	if n < 3 {
		c.Info(rule, "distribution helpers: fewer loops over payments found than on the pinned tree, not decided", token.NoPos, itoa(n))
	}
}

// removalSkipsNext: the in-place removal idiom `s = append(s[:i], s[i+1:]...)` inside a scan over s moves the next
// element to position i. If the scan then advances to i+1 on the path that removed, that element is never examined:
// in the settlement's list of open payments a closed payment survives the filter and keeps accruing. The rule looks
// at every such removal in a loop whose index is the phi the removal is written with: the back edge reached from
// the removal must not carry plainly "index + 1".
func (c *Check) removalSkipsNext(rule string, rels []string) {
	l := c.L
	n := 0
	for _, rel := range rels {
		for _, fn := range l.pkgFuncs(rel) {
			eachInstr(fn, func(i ssa.Instruction) {
				call, ok := i.(*ssa.Call)
				if !ok || calleeFull(call) != "builtin.append" || len(call.Call.Args) != 2 {
					return
				}
				head, ok1 := call.Call.Args[0].(*ssa.Slice)
				tail, ok2 := call.Call.Args[1].(*ssa.Slice)
				if !ok1 || !ok2 || head.High == nil || tail.Low == nil || head.Low != nil {
					return
				}
				idx, isPhi := head.High.(*ssa.Phi)
				if !isPhi {
					return
				}
				next, isAdd := tail.Low.(*ssa.BinOp)
				if !isAdd || next.Op != token.ADD || next.X != ssa.Value(idx) {
					return
				}
				if k, isK := constInt(next.Y); !isK || k != 1 {
					return
				}
				h := idx.Block()
				if loopHeaderOf(call.Block()) != h {
					return
				}
				n++
				bad := false
				for k, e := range idx.Edges {
					p := h.Preds[k]
					if !h.Dominates(p) {
						continue // loop entry
					}
					inc, isInc := e.(*ssa.BinOp)
					if !isInc || inc.Op != token.ADD || inc.X != ssa.Value(idx) {
						continue
					}
					if k1, isK := constInt(inc.Y); !isK || k1 != 1 {
						continue
					}
					// the plain increment arrives over this back edge: is it reachable from the removal?
					if call.Block() == p || blockReachesAvoiding(call.Block(), p, h) {
						bad = true
					}
				}
				c.Ob(rule, "a scan in "+fnName(fn)+" that removes element i re-examines position i", call.Pos(), !bad, "after `append(s[:i], s[i+1:]...)` the loop goes on with i+1: the element that moved into position i is skipped (two adjacent entries to drop: the second one stays)")
			})
		}
	}
	if n == 0 {
		c.Info(rule, "no in-place removal inside a scan in "+strings.Join(rels, ", "), token.NoPos, "")
	}
}
