package main

import (
	"go/token"
	"go/types"
	"regexp"
	"sort"
	"strings"

	"golang.org/x/tools/go/ssa"
)

func init() { registry["C15"] = checkC15 }

func checkC15(c *Check) {
	c.Explanation = "Structural necessary conditions of exactly-once in-order delivery, decided over package pubsub: (R1) confinement — the per-subscriber FIFO and the subscription set are touched only by the bus goroutine's loop, the subscriber constructor and the bus constructor, and the subscriber constructor is called only from the loop (so a clone's copy of the undelivered buffer is atomic with respect to emission); (R2) FIFO discipline — the buffer changes only by appending the just-published event (in subscriber mode) and by dropping its head; the only value ever offered on the output channel is the head of the buffer, offered only when the buffer is non-empty; the head is dropped exactly in the select case whose send of that value succeeded, on every path back to the loop head; a published event is forwarded to every subscription with the same value and the forwarding loop has no early exit; a clone starts with a copy of the parent's whole remaining buffer; (R3) escape — every channel operation of Publish/Subscribe sits in a select with the shutting-down case, the one bare receive is on a fresh channel of capacity >= 1 that the loop answers exactly once per request, and after the loop all children are shut down and awaited before the parent is notified; (R4) the chain-event publisher (events.publishEvents / processEvents) starts no goroutine between taking a result off the tendermint subscription and bus.Publish."
	c.NotDecided = "exactly-once / in-order delivery under all interleavings as a linearizability statement (goroutine scheduling between parent and child buses)"
	l := c.L
	run := l.Func("pubsub", "bus", "run")
	ns := l.Func("pubsub", "", "newSubscriber")
	nb := l.Func("pubsub", "", "NewBus")
	c.Analysed(fnName(run))
	c.Analysed(fnName(ns))
	fns := l.pkgFuncs("pubsub")
	nrm := func(s string) string { return strings.ReplaceAll(s, "*", "") }

	// ---- R1 confinement
	nacc := 0
	for _, fn := range fns {
		root := fn
		for root.Parent() != nil {
			root = root.Parent()
		}
		eachInstr(fn, func(i ssa.Instruction) {
			fa, ok := i.(*ssa.FieldAddr)
			if !ok {
				return
			}
			tn, f := structFieldOf(fa)
			if !strings.HasSuffix(tn, "pubsub.bus") || (f != "evbuf" && f != "subscriptions") {
				return
			}
			nacc++
			c.Ob("R1", "field "+f+" accessed in "+fnName(fn), fa.Pos(), inCodeOf(run, root) || root == ns || root == nb, "the bus goroutine's private state is accessed from another goroutine's code path")
		})
	}
	if nacc < 10 {
		c.Fail("C15-R1 lost instances")
	}
	ncall := 0
	for _, fn := range fns {
		for _, call := range callsIn(fn, true) {
			if call.Common().StaticCallee() == ns {
				ncall++
				c.Ob("R1", "subscriber constructor called from "+fnName(fn), call.Pos(), inCodeOf(run, fn), "a subscriber is created (and the buffer copied) outside the bus goroutine")
			}
		}
	}
	c.Ob("R1", "subscriber constructor has a call site in the loop", run.Pos(), ncall >= 1, "")

	// ---- R2 FIFO discipline
	var sel *ssa.Select
	eachInstrDeep(run, func(i ssa.Instruction) {
		if s, ok := i.(*ssa.Select); ok && sel == nil {
			sel = s
		}
	})
	if sel == nil {
		c.Fail("unresolved anchor: bus select loop")
	}
	sendIdx, pubIdx, subIdx := -1, -1, -1
	for i, st := range sel.States {
		cs := nrm(Sym(st.Chan))
		switch {
		case st.Dir == types.SendOnly:
			sendIdx = i
		case strings.HasSuffix(cs, "b.pubch"):
			pubIdx = i
		case strings.HasSuffix(cs, "b.subch"):
			subIdx = i
		}
	}
	c.Ob("R2", "the loop has exactly one emitting case, a publish case and a subscribe case", sel.Pos(), sendIdx >= 0 && pubIdx >= 0 && subIdx >= 0, "")
	if sendIdx < 0 || pubIdx < 0 || subIdx < 0 {
		return
	}
	// offered channel / value
	{
		st := sel.States[sendIdx]
		okChan, okVal := false, false
		if ph, ok := st.Chan.(*ssa.Phi); ok {
			okChan = true
			for k, e := range ph.Edges {
				if isNilConst(stripConv(e)) {
					continue
				}
				if !strings.HasSuffix(nrm(Sym(e)), "p:b.eventch") {
					okChan = false
					continue
				}
				// enabling edge: buffer non-empty and subscriber mode
				f := factsAt(ph.Block().Preds[k])
				nonEmpty, mode := false, false
				for _, a := range f {
					if a.Op == ">" && nrm(Sym(a.X)) == "builtin.len(p:b.evbuf)" && Sym(a.Y) == "0" {
						nonEmpty = true
					}
					if a.Op == "neq" && nrm(Sym(a.X)) == "p:b.eventch" && isNilConst(a.Y) {
						mode = true
					}
				}
				if !nonEmpty || !mode {
					okChan = false
				}
			}
		}
		if ph, ok := st.Send.(*ssa.Phi); ok {
			okVal = true
			n := 0
			for _, e := range ph.Edges {
				s := nrm(Sym(e))
				if s == "p:b.evbuf[0]" {
					n++
					continue
				}
				// the stale value carried around the loop while output is disabled
				if _, isPhi := e.(*ssa.Phi); isPhi || isNilConst(stripConv(e)) || e == ssa.Value(ph) {
					continue
				}
				okVal = false
			}
			if n == 0 {
				okVal = false
			}
		}
		// the pair computed by a new helper (channel, value): judged at each of the helper's returns
		if call, k := callOf(st.Chan); call != nil && k >= 0 {
			if call2, k2 := callOf(st.Send); call2 == call && k2 >= 0 && k2 != k {
				if g := newHelperCallee(call); g != nil && transparentSite(g) == ssa.CallInstruction(call) {
					okChan, okVal = true, true
					n := 0
					for _, b := range g.Blocks {
						r, isRet := b.Instrs[len(b.Instrs)-1].(*ssa.Return)
						if !isRet {
							continue
						}
						if isNilConst(stripConv(r.Results[k])) {
							continue // output disabled: the value is not offered
						}
						n++
						if !strings.HasSuffix(nrm(Sym(r.Results[k])), "p:b.eventch") {
							okChan = false
						}
						nonEmpty, mode := false, false
						for _, a := range factsAt(b) {
							if a.Op == ">" && nrm(Sym(a.X)) == "builtin.len(p:b.evbuf)" && Sym(a.Y) == "0" {
								nonEmpty = true
							}
							if a.Op == "neq" && nrm(Sym(a.X)) == "p:b.eventch" && isNilConst(a.Y) {
								mode = true
							}
						}
						if !nonEmpty || !mode {
							okChan = false
						}
						if nrm(Sym(r.Results[k2])) != "p:b.evbuf[0]" {
							okVal = false
						}
					}
					if n == 0 {
						okChan, okVal = false, false
					}
				}
			}
		}
		c.Ob("R2", "output is offered only in subscriber mode with a non-empty buffer", sel.Pos(), okChan, "the emitting case can be enabled with an empty buffer or on a non-subscriber bus")
		c.Ob("R2", "the only value ever offered to the reader is the head of the buffer", sel.Pos(), okVal, "a value other than evbuf[0] can be sent to the subscriber (reordering / duplication)")
	}
	// no other operation on eventch anywhere
	nout := 0
	for _, fn := range fns {
		eachInstr(fn, func(i ssa.Instruction) {
			switch x := i.(type) {
			case *ssa.Send:
				if strings.HasSuffix(nrm(Sym(x.Chan)), ".eventch") {
					nout++
					c.Ob("R2", "direct send on the output channel in "+fnName(fn), x.Pos(), false, "an event is handed to the reader outside the emitting case: it overtakes the buffered ones")
				}
			case *ssa.Select:
				for k, st := range x.States {
					if st.Dir == types.SendOnly && strings.Contains(nrm(Sym(st.Chan)), ".eventch") && !(x == sel && k == sendIdx) {
						nout++
						c.Ob("R2", "additional sending select case on the output channel in "+fnName(fn), x.Pos(), false, "an event is handed to the reader outside the emitting case: it overtakes the buffered ones")
					}
				}
			}
		})
	}
	c.Ob("R2", "the emitting case is the only sender on the output channel", sel.Pos(), nout == 0, "")
	// case blocks
	caseBlock := func(idx int) *ssa.BasicBlock {
		var out *ssa.BasicBlock
		eachInstrDeep(run, func(i ssa.Instruction) {
			if ifi, ok := i.(*ssa.If); ok {
				if b, ok := ifi.Cond.(*ssa.BinOp); ok && b.Op.String() == "==" {
					if ex, ok := b.X.(*ssa.Extract); ok && ex.Tuple == ssa.Value(sel) && ex.Index == 0 {
						if k, ok := constInt(b.Y); ok && int(k) == idx {
							out = ifi.Block().Succs[0]
						}
					}
				}
			}
		})
		return out
	}
	loopHead := sel.Block()
	home := sel.Parent() // the function holding the select loop (run, or a new helper it was moved into)
	// stores to evbuf
	var shrink, grow []*ssa.Store
	for _, fn := range fns {
		eachInstr(fn, func(i ssa.Instruction) {
			st, ok := i.(*ssa.Store)
			if !ok {
				return
			}
			fa, ok := st.Addr.(*ssa.FieldAddr)
			if !ok {
				return
			}
			tn, f := structFieldOf(fa)
			if !strings.HasSuffix(tn, "pubsub.bus") || f != "evbuf" {
				return
			}
			if a, isA := fa.X.(*ssa.Alloc); isA && (a.Comment == "complit" || (fn == ns && a.Heap)) {
				return // constructor literal / fresh object filled by the subscriber constructor, checked below
			}
			if fn == ns {
				if ld, isLd := fa.X.(*ssa.UnOp); isLd {
					if slot, isSlot := ld.X.(*ssa.Alloc); isSlot {
						if sv := singleStore(slot); sv != nil {
							if a2, isA2 := sv.(*ssa.Alloc); isA2 && a2.Heap {
								return // the fresh object, held in a local
							}
						}
					}
				}
			}
			switch v := st.Val.(type) {
			case *ssa.Slice:
				lo, okLo := int64(-1), false
				if v.Low != nil {
					lo, okLo = constInt(v.Low)
				}
				if nrm(Sym(v.X)) == "p:b.evbuf" && okLo && lo == 1 && v.High == nil && inCodeOf(run, fn) {
					shrink = append(shrink, st)
					return
				}
			case *ssa.Call:
				if calleeFull(v) == "builtin.append" && nrm(Sym(v.Call.Args[0])) == "p:b.evbuf" && inCodeOf(run, fn) {
					grow = append(grow, st)
					return
				}
			}
			c.Ob("R2", "buffer assignment in "+fnName(fn), st.Pos(), false, "the FIFO is modified other than by appending the published event or dropping its head: "+short(Sym(st.Val)))
		})
	}
	sb := caseBlock(sendIdx)
	okShrink := len(shrink) == 1 && sb != nil
	if okShrink {
		okShrink = domLift(home, sb, shrink[0])
		// every path from the case to the loop head passes the shrink
		if okShrink && sb != shrink[0].Block() {
			okShrink = mustPassFrom(home, sb.Instrs[0], loopHead.Instrs[0], func(i ssa.Instruction) bool { return i == ssa.Instruction(shrink[0]) })
		}
	}
	c.Ob("R2", "the head is dropped exactly when (and always when) its send succeeded", sel.Pos(), okShrink, "after a successful emit the delivered event stays at the head (redelivery), or the head is dropped elsewhere (loss)")
	pb := caseBlock(pubIdx)
	okGrow := len(grow) == 1 && pb != nil
	if okGrow {
		g := grow[0]
		okGrow = domLift(home, pb, g)
		call := g.Val.(*ssa.Call)
		ev := Sym(callerValue(call.Call.Args[1]))
		okGrow = okGrow && strings.Contains(ev, "Select#") && strings.HasPrefix(ev, "[")
		mode := false
		for _, a := range factsAt(g.Block()) {
			if a.Op == "neq" && nrm(Sym(a.X)) == "p:b.eventch" && isNilConst(a.Y) {
				mode = true
			}
		}
		okGrow = okGrow && mode
	}
	if okGrow {
		// ... on every path of the publish case in subscriber mode: with the edges on which eventch is nil taken out,
		// every way from the case back to the loop head passes the append (a conditional append drops events)
		g := grow[0]
		isGrow := func(in ssa.Instruction) bool { return in == ssa.Instruction(g) }
		notSub := func(b *ssa.BasicBlock, idx int) bool {
			ifi, isIf := b.Instrs[len(b.Instrs)-1].(*ssa.If)
			if !isIf {
				return false
			}
			a := condAtom(ifi.Cond, idx == 0)
			return a.Op == "eq" && isNilConst(a.Y) && nrm(Sym(a.X)) == "p:b.eventch"
		}
		if !mustPassAvoidingFrom(home, pb, loopHead.Instrs[0], isGrow, notSub) {
			okGrow = false
		}
	}
	c.Ob("R2", "exactly the published event is appended, in subscriber mode, in the publish case", sel.Pos(), okGrow, "a published event can pass the publish case of a subscriber without being appended to its buffer (or something else is appended): that subscriber never receives it")
	// forwarding
	{
		var fwd *ssa.Call
		for _, call := range callsIn(run, false) {
			if calleeMethod(call) == "Publish" && pb != nil && domLift(home, pb, call) {
				fwd = call.(*ssa.Call)
			}
		}
		ok := fwd != nil
		if ok {
			h := loopHeaderOf(fwd.Block())
			ok = h != nil && strings.Contains(nrm(Sym(h.Instrs[len(h.Instrs)-1].(*ssa.If).Cond)), "range(p:b.subscriptions)")
			ok = ok && strings.Contains(Sym(fwd.Call.Args[1]), "Select#") && strings.Contains(Sym(fwd.Call.Args[0]), "next(range(")
			if ok {
				// no exit from the forwarding loop other than exhaustion or panic
				body := loopBlocks(h)
				for b := range body {
					if b == h {
						continue
					}
					for _, s := range b.Succs {
						if !body[s] {
							if _, isPanic := s.Instrs[len(s.Instrs)-1].(*ssa.Panic); !isPanic {
								ok = false
							}
						}
					}
				}
			}
		}
		c.Ob("R2", "a published event is forwarded, unchanged, to every subscription", sel.Pos(), ok, "some subscriptions do not receive a published event")
	}
	// clone copy
	{
		okCopy := false
		for _, call := range callsIn(ns, false) {
			if calleeFull(call) == "builtin.copy" && nrm(Sym(call.Common().Args[1])) == "p:parent.evbuf" {
				dst := call.Common().Args[0]
				// dst is what the literal's evbuf receives
				eachInstr(ns, func(i ssa.Instruction) {
					if st, ok := i.(*ssa.Store); ok && strings.HasSuffix(Sym(st.Addr), ".evbuf") && st.Val == dst {
						okCopy = true
					}
				})
				// full length
				if ms, ok := dst.(*ssa.MakeSlice); ok {
					if nrm(Sym(ms.Len)) != "builtin.len(p:parent.evbuf)" {
						okCopy = false
					}
				}
			}
		}
		if !okCopy {
			// the same copy written as an element-by-element loop into a slice of the parent buffer's length
			full, elemwise := false, false
			eachInstr(ns, func(i ssa.Instruction) {
				st, ok := i.(*ssa.Store)
				if !ok {
					return
				}
				if ms, isMS := st.Val.(*ssa.MakeSlice); isMS && strings.HasSuffix(Sym(st.Addr), ".evbuf") && nrm(Sym(ms.Len)) == "builtin.len(p:parent.evbuf)" {
					full = true
				}
				if ia, isIA := st.Addr.(*ssa.IndexAddr); isIA && strings.HasSuffix(nrm(Sym(ia.X)), ".evbuf") && !strings.Contains(nrm(Sym(ia.X)), "parent") {
					if ld, isLd := st.Val.(*ssa.UnOp); isLd {
						if src, isSrc := ld.X.(*ssa.IndexAddr); isSrc && nrm(Sym(src.X)) == "p:parent.evbuf" && src.Index == ia.Index {
							if h := loopHeaderOf(st.Block()); h != nil {
								if ifi, isIf := h.Instrs[len(h.Instrs)-1].(*ssa.If); isIf && strings.Contains(nrm(Sym(ifi.Cond)), "builtin.len(p:parent.evbuf)") {
									elemwise = true
								}
							}
						}
					}
				}
			})
			okCopy = full && elemwise
		}
		c.Ob("R2", "a clone starts with a copy of the parent's whole undelivered buffer", ns.Pos(), okCopy, "")
	}

	// ---- R3 escape
	for _, name := range []string{"Publish", "Subscribe"} {
		fn := l.Func("pubsub", "bus", name)
		c.Analysed(fnName(fn))
		nsel := 0
		ok := true
		eachInstr(fn, func(i ssa.Instruction) {
			switch x := i.(type) {
			case *ssa.Select:
				nsel++
				esc := false
				for _, st := range x.States {
					if st.Dir == types.RecvOnly && strings.Contains(Sym(st.Chan), "ShuttingDown(") {
						esc = true
					}
				}
				if !esc || !x.Blocking {
					ok = false
				}
			case *ssa.Send:
				ok = false
			case *ssa.UnOp:
				if x.Op.String() == "<-" {
					// bare receive: only on a fresh buffered channel
					mk, isMk := x.X.(*ssa.MakeChan)
					capOK := false
					if isMk {
						if k, isK := constInt(mk.Size); isK && k >= 1 {
							capOK = true
						}
					}
					if !capOK {
						ok = false
					}
				}
			}
		})
		c.Ob("R3", name+" can always escape through the shutting-down case", fn.Pos(), ok && nsel == 1, "a caller can block forever on a closed bus")
	}
	// subscribe request answered exactly once
	{
		sb2 := caseBlock(subIdx)
		var sends []ssa.Instruction
		eachInstrDeep(run, func(i ssa.Instruction) {
			if s, ok := i.(*ssa.Send); ok && sb2 != nil && domLift(home, sb2, s) && strings.Contains(Sym(s.Chan), "Select#") {
				sends = append(sends, s)
			}
		})
		ok := len(sends) == 1 && sb2 != nil
		if ok && sb2 != sends[0].Block() {
			ok = mustPassFrom(home, sb2.Instrs[0], loopHead.Instrs[0], func(i ssa.Instruction) bool { return i == sends[0] })
		}
		reg := false
		eachInstrDeep(run, func(i ssa.Instruction) {
			if mu, isMU := i.(*ssa.MapUpdate); isMU && nrm(Sym(mu.Map)) == "p:b.subscriptions" && strings.Contains(Sym(mu.Key), "newSubscriber(") && len(sends) == 1 && instrDominates(mu, sends[0]) {
				reg = true
			}
		})
		c.Ob("R3", "each subscribe request is answered exactly once, after the subscriber was registered", sel.Pos(), ok && reg, "")
	}
	// shutdown order
	{
		var async, wait, notify ssa.Instruction
		eachInstrDeep(run, func(i ssa.Instruction) {
			switch x := i.(type) {
			case *ssa.Call:
				if calleeMethod(x) == "ShutdownAsync" {
					async = x
				}
			case *ssa.UnOp:
				if x.Op.String() == "<-" && strings.HasSuffix(nrm(Sym(x.X)), "b.unsubch") {
					wait = x
				}
			case *ssa.Send:
				if strings.HasSuffix(nrm(Sym(x.Chan)), "b.parentch") {
					notify = x
				}
			}
		})
		ok := async != nil && wait != nil && notify != nil
		if ok {
			// notify only after the wait loop's exit condition (len(subscriptions) > 0 false)
			waited := false
			// "no subscriptions left": len <= 0, len == 0 or len < 1
			drained := func(f []Atom) bool {
				for _, a := range f {
					if a.Y == nil || nrm(Sym(a.X)) != "builtin.len(p:b.subscriptions)" {
						continue
					}
					if ((a.Op == "<=" || a.Op == "eq") && Sym(a.Y) == "0") || (a.Op == "<" && Sym(a.Y) == "1") {
						return true
					}
				}
				return false
			}
			waited = drained(factsAt(notify.Block()))
			if !waited {
				// the wait loop may live in a new helper called before the notification: every return of that helper
				// is then past the loop's exit condition
				if ln := liftTo(run, notify); ln != nil {
					waited = mustPassFrom(run, nil, ln, func(in ssa.Instruction) bool {
						ci, isC := in.(ssa.CallInstruction)
						if !isC {
							return false
						}
						h := newHelperCallee(ci)
						if h == nil {
							return false
						}
						n := 0
						for _, b := range h.Blocks {
							if _, isR := b.Instrs[len(b.Instrs)-1].(*ssa.Return); isR {
								n++
								if !drained(factsAt(b)) {
									return false
								}
							}
						}
						return n > 0
					})
				}
			}
			reaches := async.Parent() == wait.Parent() && blockReaches(async.Block(), wait.Block())
			ok = waited && reaches
		}
		c.Ob("R3", "on shutdown all children are stopped and awaited before the parent is notified", run.Pos(), ok, "")
	}
	// a child is forgotten only when it reports its own shutdown: the subscription set is what the shutdown waits on, so
	// every removal from it is in the select case that received from the unsubscribe channel
	{
		unsubIdx := -1
		for k, stt := range sel.States {
			if stt.Dir == types.RecvOnly && strings.HasSuffix(nrm(Sym(stt.Chan)), "b.unsubch") {
				unsubIdx = k
			}
		}
		ub := caseBlock(unsubIdx)
		ndel := 0
		okDel := true
		where := ""
		for _, fn := range fns {
			eachInstr(fn, func(i ssa.Instruction) {
				ci, isC := i.(ssa.CallInstruction)
				if !isC || calleeFull(ci) != "builtin.delete" || !strings.HasSuffix(nrm(Sym(ci.Common().Args[0])), "b.subscriptions") {
					return
				}
				ndel++
				// the removed child is the one just received from the unsubscribe channel
				key := ci.Common().Args[1]
				fromUnsub := false
				switch k := key.(type) {
				case *ssa.UnOp:
					if k.Op == token.ARROW && strings.HasSuffix(nrm(Sym(k.X)), "b.unsubch") {
						fromUnsub = true
					}
				case *ssa.Extract:
					if ks, isSel := k.Tuple.(*ssa.Select); isSel && ks == sel && ub != nil && domLift(home, ub, ci) {
						// index of the value received in the unsubscribe case
						r := 0
						for kk, stt := range sel.States {
							if stt.Dir != types.RecvOnly {
								continue
							}
							if kk == unsubIdx && k.Index == 2+r {
								fromUnsub = true
							}
							r++
						}
					}
				}
				if !fromUnsub {
					okDel = false
					where = l.Pos(ci.Pos())
				}
			})
		}
		c.Ob("R3", "a subscription is removed only when that child reported its shutdown", sel.Pos(), okDel && ndel >= 1 && unsubIdx >= 0, "a child is dropped from the subscription set at "+where+" without having reported: the shutdown no longer waits for it and the child blocks forever on its report")
	}
	// ---- R4 the chain-event publisher hands events to the bus in the order it received them: between taking a result
	// off the tendermint subscription and bus.Publish nothing is deferred to another goroutine
	{
		pe := l.Func("events", "", "publishEvents")
		c.Analysed(fnName(pe))
		npub := 0
		okSeq := true
		why := ""
		for _, g := range fnAndClosuresDeep(pe) {
			eachInstr(g, func(i ssa.Instruction) {
				if gi, isGo := i.(*ssa.Go); isGo {
					okSeq = false
					why = "a goroutine is started at " + l.Pos(gi.Pos()) + " on the way from the subscription to the bus: events of consecutive results can overtake each other"
				}
			})
		}
		// processEvents and below (pinned callees) as well
		for _, name := range []string{"processEvents", "processEvent"} {
			g := l.Func("events", "", name)
			c.Analysed(fnName(g))
			for _, h := range fnAndClosuresDeep(g) {
				eachInstr(h, func(i ssa.Instruction) {
					switch x := i.(type) {
					case *ssa.Go:
						okSeq = false
						why = "a goroutine is started at " + l.Pos(x.Pos()) + " while publishing: publication order is no longer the order of the chain's events"
					case *ssa.Call:
						if calleeMethod(x) == "Publish" {
							npub++
						}
					}
				})
			}
		}
		c.Ob("R4", "chain events reach the bus synchronously, in the order received", pe.Pos(), okSeq && npub >= 1, why)
	}
	c.chainEventQueries("R4")
	c.okOnlyPublished("R4")
	c.orderMonitorSubscription("R2")
}

// chainEventQueries (R4): the tendermint event kinds the publisher subscribes to are exactly the kinds its dispatch
// loop knows how to unpack: a query for kind K (tm event type string) is served by a case for EventData<K>, and every
// such case has its query. A kind subscribed to but not unpacked is taken off the subscription and dropped.
func (c *Check) chainEventQueries(rule string) {
	l := c.L
	kinds := map[string]bool{}
	for _, fn := range l.pkgFuncs("events") {
		for _, call := range callsInOwn(fn) {
			if calleeFull(call) != "fmt.Sprintf" {
				continue
			}
			a := call.Common().Args
			if f, ok := strConst(a[0]); !ok || f != "%s='%s'" {
				continue
			}
			s := Sym(a[1])
			if m := regexp.MustCompile(`^\["tm\.event", "([A-Za-z]+)"\]$`).FindStringSubmatch(s); m != nil {
				kinds[m[1]] = true
			} else {
				c.Info(rule, "chain event query in "+fnName(fn)+" not of the form tm.event='<kind>', not decided", call.Pos(), short(s))
			}
		}
	}
	cases := map[string]bool{}
	pe := l.Func("events", "", "publishEvents")
	if pe != nil {
		c.Analysed(fnName(pe))
		for _, g := range fnAndClosuresDeep(pe) {
			eachInstr(g, func(i ssa.Instruction) {
				if ta, ok := i.(*ssa.TypeAssert); ok {
					n := ta.AssertedType.String()
					if k := strings.LastIndex(n, ".EventData"); k >= 0 && strings.Contains(n, "tendermint/types") {
						cases[n[k+len(".EventData"):]] = true
					}
				}
			})
		}
	}
	if len(kinds) == 0 || len(cases) == 0 {
		c.Info(rule, "chain event queries / dispatch cases not found, agreement not decided", token.NoPos, "")
		return
	}
	var ks []string
	for k := range kinds {
		ks = append(ks, k)
	}
	sort.Strings(ks)
	for _, k := range ks {
		c.Ob(rule, "chain events of kind "+k+" that are subscribed to are unpacked by the publisher", pe.Pos(), cases[k], "the publisher subscribes to tm.event='"+k+"' but has no case for EventData"+k+": those results are received and dropped, their akash events never reach the bus")
	}
	var cs []string
	for k := range cases {
		cs = append(cs, k)
	}
	sort.Strings(cs)
	for _, k := range cs {
		c.Ob(rule, "the publisher's case for EventData"+k+" has a subscription feeding it", pe.Pos(), kinds[k], "no query subscribes to tm.event='"+k+"': the events this case would publish (block-level results) never arrive")
	}
}

// orderMonitorSubscription: the bid engine creates an order monitor while it is handling the order-created event; the
// monitor's subscription is a clone of the service's (it starts with what the service has not read yet), not a fresh
// subscription (which would miss an order-closed / lease event published in between). Shared by C15 and C13.
func (c *Check) orderMonitorSubscription(rule string) {
	l := c.L
	fn := l.Func("provider/bidengine", "", "newOrderInternal")
	if fn == nil {
		c.Info(rule, "bid engine order constructor not found, subscription origin not decided", token.NoPos, "")
		return
	}
	c.Analysed(fnName(fn))
	n := 0
	for _, g := range fnAndClosuresDeep(fn) {
		eachInstr(g, func(i ssa.Instruction) {
			st, ok := i.(*ssa.Store)
			if !ok {
				return
			}
			fa, ok := st.Addr.(*ssa.FieldAddr)
			if !ok {
				return
			}
			tn, f := structFieldOf(fa)
			if !strings.HasSuffix(tn, "bidengine.order") || f != "sub" {
				return
			}
			n++
			s := Sym(st.Val)
			c.Ob(rule, "an order monitor's subscription is a clone of the bid engine's own subscription", st.Pos(), strings.Contains(s, "Subscriber.Clone(") && strings.Contains(s, ".sub"), "the monitor subscribes with "+short(s)+": events for the order published before this point (order closed, lease created) are never seen by it")
		})
	}
	if n == 0 {
		c.Info(rule, "order monitor subscription field not found, not decided", fn.Pos(), "")
	}
}

// okOnlyPublished: the publisher hands the events of a transaction result to the bus only where the result is known
// to be OK: a failed transaction's events describe changes the chain rolled back (a version update, a lease, a close
// that never happened). Shared by C15-R4, C10-R1 and C16-R5.
func (c *Check) okOnlyPublished(rule string) {
	l := c.L
	pe := l.Func("events", "", "publishEvents")
	if pe == nil {
		c.Info(rule, "events.publishEvents not found, not decided", token.NoPos, "")
		return
	}
	c.Analysed(fnName(pe))
	n := 0
	for _, g := range fnAndClosuresDeep(pe) {
		for _, call := range callsInOwn(g) {
			if calleeMethod(call) != "processEvents" {
				continue
			}
			s := Sym(call.Common().Args[len(call.Common().Args)-1])
			if !strings.Contains(s, "EventDataTx") && !strings.Contains(s, ".Result") {
				continue // block-level events have no result code
			}
			if strings.Contains(s, "ResultEndBlock") || strings.Contains(s, "ResultBeginBlock") {
				continue
			}
			n++
			okFact := boolCallFactAt(call.Block(), true, func(h *ssa.Call, _ int) bool { return calleeMethod(h) == "IsOK" })
			if li := liftTo(pe, call); !okFact && li != nil && li != ssa.Instruction(call.(ssa.Instruction)) {
				okFact = boolCallFactAt(li.Block(), true, func(h *ssa.Call, _ int) bool { return calleeMethod(h) == "IsOK" })
			}
			c.Ob(rule, "events of a transaction are published only if the transaction succeeded", call.Pos(), okFact, "the events of a failed transaction reach the bus: subscribers act on a deployment update / lease / close that the chain rolled back")
			// ... and every successful transaction's events are: no further condition decides the hand-over
			extra := ""
			for _, a := range factsAt(call.Block()) {
				s := Sym(a.X)
				if cv, _ := callOf(a.X); cv != nil && calleeMethod(cv) == "IsOK" {
					continue
				}
				if a.Y != nil {
					// the select's case index
					if ex, isEx := a.X.(*ssa.Extract); isEx {
						if _, isSel := ex.Tuple.(*ssa.Select); isSel && ex.Index == 0 {
							continue
						}
					}
				}
				if _, isTA := a.X.(*ssa.TypeAssert); isTA {
					continue
				}
				if ex, isEx := a.X.(*ssa.Extract); isEx {
					if _, isTA := ex.Tuple.(*ssa.TypeAssert); isTA {
						continue
					}
					if _, isSel := ex.Tuple.(*ssa.Select); isSel {
						continue
					}
				}
				if bo, isBO := a.X.(*ssa.BinOp); isBO {
					if ex, isEx := bo.X.(*ssa.Extract); isEx {
						if _, isSel := ex.Tuple.(*ssa.Select); isSel {
							continue
						}
					}
				}
				extra += " [" + a.Op + " " + short(s) + "]"
			}
			c.Ob(rule, "the events of every successful transaction are published (no further filter)", call.Pos(), extra == "", "whether a successful transaction's events reach the bus also depends on"+extra+": transactions for which it does not hold are dropped")
		}
	}
	if n == 0 {
		c.Info(rule, "publisher: no hand-over of transaction events found, result guard not decided", pe.Pos(), "")
	}
}
