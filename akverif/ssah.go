package main

import (
	"fmt"
	"go/constant"
	"go/token"
	"go/types"
	"os"
	"sort"
	"strings"

	"golang.org/x/tools/go/callgraph"
	"golang.org/x/tools/go/ssa"
)

// ---------------------------------------------------------------------------------------
// callee resolution

// calleeFull returns the fully qualified name of the called function / interface method,
// e.g. "(*github.com/ovrclk/akash/x/escrow/keeper.keeper).GetAccount" or
// "(github.com/cosmos/cosmos-sdk/types.KVStore).Set". Empty for dynamic calls of function values.
func calleeFull(c ssa.CallInstruction) string {
	cc := c.Common()
	if cc.IsInvoke() {
		return cc.Method.FullName()
	}
	if f := cc.StaticCallee(); f != nil {
		if o := f.Object(); o != nil {
			if fo, ok := o.(*types.Func); ok {
				return fo.FullName()
			}
		}
		if f.Origin() != nil && f.Origin().Object() != nil {
			return f.Origin().Object().(*types.Func).FullName()
		}
		return fnName(f)
	}
	if b, ok := cc.Value.(*ssa.Builtin); ok {
		return "builtin." + b.Name()
	}
	return ""
}

// calleeShort: "pkgname.Recv.Method" / "pkgname.Func" with the last path element only.
func shortName(full string) string {
	s := full
	s = strings.ReplaceAll(s, "(", "")
	s = strings.ReplaceAll(s, ")", "")
	s = strings.ReplaceAll(s, "*", "")
	if i := strings.LastIndex(s, "/"); i >= 0 {
		s = s[i+1:]
	}
	return s
}

func calleeShort(c ssa.CallInstruction) string { return shortName(calleeFull(c)) }

// methodName of callee ("" if not resolvable)
func calleeMethod(c ssa.CallInstruction) string {
	cc := c.Common()
	if cc.IsInvoke() {
		return cc.Method.Name()
	}
	if f := cc.StaticCallee(); f != nil {
		return f.Name()
	}
	return ""
}

// allArgs returns receiver (for invoke) followed by args.
func allArgs(c ssa.CallInstruction) []ssa.Value {
	cc := c.Common()
	if cc.IsInvoke() {
		return append([]ssa.Value{cc.Value}, cc.Args...)
	}
	return cc.Args
}

// fnAndClosures returns fn and all anonymous functions nested in it.
func fnAndClosures(fn *ssa.Function) []*ssa.Function {
	out := []*ssa.Function{fn}
	for _, a := range fn.AnonFuncs {
		out = append(out, fnAndClosures(a)...)
	}
	return out
}

func eachInstr(fn *ssa.Function, f func(ssa.Instruction)) {
	for _, b := range fn.Blocks {
		for _, i := range b.Instrs {
			f(i)
		}
	}
}

func callsIn(fn *ssa.Function, withClosures bool) []ssa.CallInstruction {
	var out []ssa.CallInstruction
	fns := []*ssa.Function{fn}
	if withClosures {
		fns = fnAndClosures(fn)
	}
	seen := map[*ssa.Function]bool{}
	for len(fns) > 0 {
		g := fns[0]
		fns = fns[1:]
		if seen[g] {
			continue
		}
		seen[g] = true
		eachInstr(g, func(i ssa.Instruction) {
			if c, ok := i.(ssa.CallInstruction); ok {
				out = append(out, c)
				// calls made by a transparent helper count as calls of its caller (see transparent.go)
				if h := newHelperCallee(c); h != nil {
					if withClosures {
						fns = append(fns, fnAndClosures(h)...)
					} else {
						fns = append(fns, h)
					}
				}
			}
		})
	}
	return out
}

// callsInOwn: the calls written in fn itself (no closures, no helpers).
func callsInOwn(fn *ssa.Function) []ssa.CallInstruction {
	var out []ssa.CallInstruction
	eachInstr(fn, func(i ssa.Instruction) {
		if c, ok := i.(ssa.CallInstruction); ok {
			out = append(out, c)
		}
	})
	return out
}

// callsMatching returns the calls in fn whose callee full name has the given suffix.
func callsMatching(fn *ssa.Function, withClosures bool, pred func(full string) bool) []ssa.CallInstruction {
	var out []ssa.CallInstruction
	for _, c := range callsIn(fn, withClosures) {
		if pred(calleeFull(c)) {
			out = append(out, c)
		}
	}
	return out
}

func hasSuffix(s string) func(string) bool {
	return func(f string) bool { return strings.HasSuffix(f, s) }
}

// ---------------------------------------------------------------------------------------
// conditions and edge dominance

type Atom struct {
	Op   string // "eq" "neq" "true" "false" "<" "<=" ">" ">="
	X, Y ssa.Value
	If   *ssa.If
}

func negOp(op string) string {
	switch op {
	case "eq":
		return "neq"
	case "neq":
		return "eq"
	case "true":
		return "false"
	case "false":
		return "true"
	case "<":
		return ">="
	case ">=":
		return "<"
	case ">":
		return "<="
	case "<=":
		return ">"
	}
	return op
}

func condAtom(v ssa.Value, truth bool) Atom {
	switch x := v.(type) {
	case *ssa.UnOp:
		if x.Op == token.NOT {
			return condAtom(x.X, !truth)
		}
	case *ssa.BinOp:
		op := ""
		switch x.Op {
		case token.EQL:
			op = "eq"
		case token.NEQ:
			op = "neq"
		case token.LSS:
			op = "<"
		case token.LEQ:
			op = "<="
		case token.GTR:
			op = ">"
		case token.GEQ:
			op = ">="
		}
		if op != "" {
			if !truth {
				op = negOp(op)
			}
			return Atom{Op: op, X: x.X, Y: x.Y}
		}
	}
	if truth {
		return Atom{Op: "true", X: v}
	}
	return Atom{Op: "false", X: v}
}

// factsAt returns the atoms that hold on every path reaching block b (from dominating
// conditional edges).
func factsAt(b *ssa.BasicBlock) []Atom { return factsAtDepth(b, 0) }

func factsAtDepth(b *ssa.BasicBlock, depth int) []Atom {
	var out []Atom
	for d := b; d != nil; d = d.Idom() {
		id := d.Idom()
		if id == nil {
			break
		}
		// find If edges from any dominator "id" ... walk all dominators of b
		_ = id
	}
	// walk all strict dominators D of b with an If terminator
	for D := b.Idom(); D != nil; D = D.Idom() {
		if len(D.Instrs) == 0 {
			continue
		}
		ifi, ok := D.Instrs[len(D.Instrs)-1].(*ssa.If)
		if !ok {
			continue
		}
		for idx, S := range D.Succs {
			if edgeDominates(D, S, b) && !edgeDominates(D, D.Succs[1-idx], b) {
				a := condAtom(ifi.Cond, idx == 0)
				a.If = ifi
				out = append(out, a)
			}
		}
	}
	// phi refinement: "phi == nil" where all incoming edges but one carry a value known to be non-nil on that edge
	// means the remaining edge was taken: its value is nil and the facts of that edge hold
	// (the "err = A(); if err == nil { err = B() }; if err != nil { return err }" idiom)
	if depth < 3 {
		n := len(out)
		for i := 0; i < n; i++ {
			a := out[i]
			if a.Op != "eq" {
				continue
			}
			x, y := a.X, a.Y
			if isNilConst(x) {
				x, y = y, x
			}
			ph, isPhi := x.(*ssa.Phi)
			if !isPhi || y == nil || !isNilConst(y) {
				continue
			}
			feasible := -1
			nf := 0
			var edgeFacts [][]Atom
			for k, e := range ph.Edges {
				pred := ph.Block().Preds[k]
				fs := factsAtDepth(pred, depth+1)
				if ifi, isIf := pred.Instrs[len(pred.Instrs)-1].(*ssa.If); isIf && pred.Succs[0] != pred.Succs[1] {
					at := condAtom(ifi.Cond, pred.Succs[0] == ph.Block())
					at.If = ifi
					fs = append(fs, at)
				}
				edgeFacts = append(edgeFacts, fs)
				nonNil := false
				for _, f := range fs {
					if f.Op != "neq" {
						continue
					}
					fx, fy := f.X, f.Y
					if isNilConst(fx) {
						fx, fy = fy, fx
					}
					if fy != nil && isNilConst(fy) && (fx == e || Sym(fx) == Sym(e)) {
						nonNil = true
					}
				}
				if !nonNil {
					feasible = k
					nf++
				}
			}
			if nf == 1 {
				out = append(out, Atom{Op: "eq", X: ph.Edges[feasible], Y: y, If: a.If})
				out = append(out, edgeFacts[feasible]...)
			}
		}
	}
	// the same for boolean flags: "flag" (resp. "!flag") where flag is a phi of constants and one other edge means the
	// edge that does not carry the opposite constant was taken (found-flag loops)
	if depth < 3 {
		n := len(out)
		for i := 0; i < n; i++ {
			a := out[i]
			if a.Op != "true" && a.Op != "false" {
				continue
			}
			ph, isPhi := a.X.(*ssa.Phi)
			if !isPhi {
				continue
			}
			feasible, nf := -1, 0
			for k, e := range ph.Edges {
				if kc, isK := e.(*ssa.Const); isK && kc.Value != nil {
					v := kc.Value.ExactString()
					if (a.Op == "true" && v == "false") || (a.Op == "false" && v == "true") {
						continue
					}
				}
				feasible = k
				nf++
			}
			if nf == 1 {
				pred := ph.Block().Preds[feasible]
				fs := factsAtDepth(pred, depth+1)
				if ifi, isIf := pred.Instrs[len(pred.Instrs)-1].(*ssa.If); isIf && pred.Succs[0] != pred.Succs[1] {
					at := condAtom(ifi.Cond, pred.Succs[0] == ph.Block())
					at.If = ifi
					fs = append(fs, at)
				}
				out = append(out, fs...)
				if _, isK := ph.Edges[feasible].(*ssa.Const); !isK {
					// the flag's value on that edge, decomposed like a branch condition (x == K, !p, ...)
					at := condAtom(ph.Edges[feasible], a.Op == "true")
					at.If = a.If
					out = append(out, at)
				}
			}
		}
	}
	// after a successful call of a transparent helper, what holds at its nil-error returns holds here
	if transpMemo != nil || curL != nil {
		n := len(out)
		for i := 0; i < n; i++ {
			out = append(out, helperSuccessFacts(out[i], depth)...)
			out = append(out, helperBoolFacts(out[i], depth)...)
		}
	}
	// inside a transparent helper the facts of its call site hold too
	if fn := b.Parent(); fn != nil {
		root := fn
		for root.Parent() != nil {
			root = root.Parent()
		}
		if site := transparentSite(root); site != nil && root == fn {
			if depth < 3 {
				out = append(out, factsAtDepth(site.Block(), depth+1)...)
			}
		}
	}
	return out
}

// edgeDominates: every path to x goes through the edge d->s.
func edgeDominates(d, s, x *ssa.BasicBlock) bool {
	if !s.Dominates(x) {
		return false
	}
	for _, p := range s.Preds {
		if p == d {
			continue
		}
		// other predecessors must themselves be dominated by s (back edges)
		if !s.Dominates(p) {
			return false
		}
	}
	return true
}

func isNilConst(v ssa.Value) bool {
	c, ok := v.(*ssa.Const)
	return ok && c.Value == nil
}

// stripConv removes interface/type conversions.
func stripConv(v ssa.Value) ssa.Value {
	for {
		switch x := v.(type) {
		case *ssa.MakeInterface:
			v = x.X
		case *ssa.ChangeType:
			v = x.X
		case *ssa.ChangeInterface:
			v = x.X
		case *ssa.Convert:
			v = x.X
		default:
			return v
		}
	}
}

// callOf returns the call producing v (directly or through Extract), and the tuple index (-1 if not a tuple).
func callOf(v ssa.Value) (*ssa.Call, int) {
	switch x := v.(type) {
	case *ssa.Call:
		return x, -1
	case *ssa.Extract:
		if c, ok := x.Tuple.(*ssa.Call); ok {
			return c, x.Index
		}
	}
	return nil, -1
}

// errNilAt: does a fact "err == nil" hold at b for the error result of call?
func okEdgeAt(b *ssa.BasicBlock, call *ssa.Call) bool {
	for _, a := range factsAt(b) {
		if a.Op != "eq" {
			continue
		}
		for _, pair := range [][2]ssa.Value{{a.X, a.Y}, {a.Y, a.X}} {
			if !isNilConst(pair[1]) {
				continue
			}
			if c, _ := callOf(pair[0]); c == call {
				return true
			}
		}
	}
	return false
}

// boolFactAt: is there a fact that boolean value produced by a call satisfying pred has the given truth?
func boolCallFactAt(b *ssa.BasicBlock, truth bool, pred func(c *ssa.Call, idx int) bool) bool {
	want := "true"
	if !truth {
		want = "false"
	}
	for _, a := range factsAt(b) {
		if a.Op != want {
			continue
		}
		if c, idx := callOf(a.X); c != nil && pred(c, idx) {
			return true
		}
	}
	return false
}

// instrBefore reports whether a is executed before b on every path reaching b
// (a's block strictly dominates b's block, or same block and earlier).
func instrDominates(a, b ssa.Instruction) bool {
	if a.Block() == b.Block() {
		for _, i := range a.Block().Instrs {
			if i == a {
				return true
			}
			if i == b {
				return false
			}
		}
	}
	return a.Block().Dominates(b.Block())
}

// ---------------------------------------------------------------------------------------
// returns and must-pass

// errResultIndex returns the index of the last result if it is of type error, else -1.
func errResultIndex(fn *ssa.Function) int {
	res := fn.Signature.Results()
	if res.Len() == 0 {
		return -1
	}
	last := res.At(res.Len() - 1).Type()
	if types.Identical(last, types.Universe.Lookup("error").Type()) {
		return res.Len() - 1
	}
	return -1
}

// definitelyNonNilErr: value is certainly a non-nil error (package-level error var, MakeInterface, call to errors.*).
func definitelyNonNilErr(v ssa.Value, blk *ssa.BasicBlock, seen map[ssa.Value]bool) bool {
	if seen[v] {
		return true
	}
	seen[v] = true
	switch x := v.(type) {
	case *ssa.Const:
		return x.Value != nil
	case *ssa.MakeInterface:
		return true
	case *ssa.UnOp:
		if _, ok := x.X.(*ssa.Global); ok && x.Op == token.MUL {
			return true // package-level error variable
		}
	case *ssa.Phi:
		all := true
		for _, e := range x.Edges {
			if !definitelyNonNilErr(e, blk, seen) {
				all = false
				break
			}
		}
		if all {
			return true
		}
		// else: fall through to the dominating "phi != nil" test
	case *ssa.Call:
		n := calleeFull(x)
		m := calleeMethod(x)
		// Wrap-style helpers return nil when the wrapped error is nil
		if (strings.Contains(n, "errors.") || strings.Contains(n, "sdkerrors.")) && (strings.HasPrefix(m, "Wrap") || strings.HasPrefix(m, "WithMessage") || m == "WithStack") {
			if len(x.Call.Args) > 0 {
				return definitelyNonNilErr(x.Call.Args[0], x.Block(), seen)
			}
			return false
		}
		if strings.Contains(n, "errors.") || strings.HasSuffix(n, ".Errorf") || strings.Contains(n, "sdkerrors.") || strings.HasSuffix(n, "status.Error") || strings.HasSuffix(n, "status.Errorf") {
			return true
		}
	}
	// dominated by "v != nil"? (two loads of the same variable without an intervening store are the same value)
	for _, a := range factsAt(blk) {
		if a.Op != "neq" {
			continue
		}
		x, y := a.X, a.Y
		if isNilConst(x) {
			x, y = y, x
		}
		if !isNilConst(y) {
			continue
		}
		if x == v {
			return true
		}
		if lx, ok := x.(*ssa.UnOp); ok {
			if lv, ok := v.(*ssa.UnOp); ok && lx.Op == token.MUL && lv.Op == token.MUL && lx.X == lv.X && noStoreBetween(lx, lv) {
				return true
			}
		}
	}
	return false
}

// successReturns: the returns of fn that may return a nil error (all returns if fn has no error result).
func successReturns(fn *ssa.Function) []*ssa.Return {
	var out []*ssa.Return
	ei := errResultIndex(fn)
	for _, b := range fn.Blocks {
		if len(b.Instrs) == 0 {
			continue
		}
		r, ok := b.Instrs[len(b.Instrs)-1].(*ssa.Return)
		if !ok {
			continue
		}
		if ei >= 0 && definitelyNonNilErr(r.Results[ei], b, map[ssa.Value]bool{}) {
			continue
		}
		out = append(out, r)
	}
	return out
}

// mustPass: does every path from entry to instruction `to` contain an instruction satisfying pred?
// avoid: blocks considered unreachable (may be nil).
func mustPass(fn *ssa.Function, to ssa.Instruction, pred func(ssa.Instruction) bool) bool {
	return mustPassFrom(fn, nil, to, pred)
}

// mustPassFrom: every path from instruction `from` (exclusive; nil = function entry) to `to`
// contains an instruction satisfying pred.
func mustPassFrom(fn *ssa.Function, from, to ssa.Instruction, pred0 func(ssa.Instruction) bool) bool {
	pred := func(in ssa.Instruction) bool { return pred0(in) || transparentPass(in, pred0, 0) }
	blocked := map[*ssa.BasicBlock]bool{} // blocks that contain a pred instruction (whole block blocks)
	firstPred := map[*ssa.BasicBlock]int{}
	for _, b := range fn.Blocks {
		firstPred[b] = -1
		for i, in := range b.Instrs {
			if pred(in) {
				if firstPred[b] < 0 {
					firstPred[b] = i
				}
				blocked[b] = true
			}
		}
	}
	idx := func(in ssa.Instruction) int {
		for i, x := range in.Block().Instrs {
			if x == in {
				return i
			}
		}
		return -1
	}
	tb := to.Block()
	ti := idx(to)
	var start *ssa.BasicBlock
	si := -1
	if from == nil {
		start = fn.Blocks[0]
	} else {
		start = from.Block()
		si = idx(from)
	}
	// is there a pred-free path from (start,si) to (tb,ti)?
	// within start block: instructions si+1..end
	predIn := func(b *ssa.BasicBlock, lo, hi int) bool { // any pred instr in [lo,hi)
		for i := lo; i < hi && i < len(b.Instrs); i++ {
			if pred(b.Instrs[i]) {
				return true
			}
		}
		return false
	}
	if start == tb && si < ti {
		if !predIn(tb, si+1, ti) {
			return false // direct pred-free path
		}
		// may still loop around; continue search below
	}
	if predIn(start, si+1, len(start.Instrs)) {
		// every continuation from start passes a pred
		return true
	}
	// a return whose error result is a phi: the incoming edges on which the error is certainly non-nil are not
	// ways of succeeding (`if err == nil { err = f() }; return resp, err`)
	dead := map[*ssa.BasicBlock]bool{}
	if r, isRet := to.(*ssa.Return); isRet {
		dead = failingEdgesInto(r)
	}
	seen := map[*ssa.BasicBlock]bool{}
	var stack []*ssa.BasicBlock
	push := func(b *ssa.BasicBlock) {
		for _, s := range b.Succs {
			if s == tb && dead[b] {
				continue
			}
			stack = append(stack, s)
		}
	}
	push(start)
	for len(stack) > 0 {
		b := stack[len(stack)-1]
		stack = stack[:len(stack)-1]
		if seen[b] {
			continue
		}
		seen[b] = true
		if b == tb {
			if !predIn(b, 0, ti) {
				return false
			}
			// passing through tb entirely (looping) — check if block free
		}
		if blocked[b] {
			continue
		}
		push(b)
	}
	return true
}

// failingEdgesInto: the predecessor blocks of a return's block from which the returned error (a phi in that block)
// is certainly non-nil; control arriving over those edges does not report success.
func failingEdgesInto(r *ssa.Return) map[*ssa.BasicBlock]bool {
	out := map[*ssa.BasicBlock]bool{}
	fn := r.Parent()
	ei := errResultIndex(fn)
	if ei < 0 || ei >= len(r.Results) {
		return out
	}
	ph, ok := r.Results[ei].(*ssa.Phi)
	if !ok || ph.Block() != r.Block() {
		return out
	}
	tb := r.Block()
	bad := map[*ssa.BasicBlock]bool{}
	for k, e := range ph.Edges {
		p := tb.Preds[k]
		nonNil := definitelyNonNilErr(e, p, map[ssa.Value]bool{})
		if !nonNil {
			if ifi, isIf := p.Instrs[len(p.Instrs)-1].(*ssa.If); isIf && p.Succs[0] != p.Succs[1] {
				idx := 1
				if p.Succs[0] == tb {
					idx = 0
				}
				a := condAtom(ifi.Cond, idx == 0)
				x, y := a.X, a.Y
				if x != nil && isNilConst(x) {
					x, y = y, x
				}
				if a.Op == "neq" && y != nil && isNilConst(y) && (x == e || Sym(x) == Sym(e)) {
					nonNil = true
				}
			}
		}
		if nonNil {
			out[p] = true
		} else {
			bad[p] = true
		}
	}
	for p := range bad {
		delete(out, p) // the same predecessor also arrives with a possibly-nil error
	}
	return out
}

// ---------------------------------------------------------------------------------------
// call graph helpers

// calleesOf resolves the possible akash callees of a call instruction using the VTA graph.
func (l *Loaded) calleesOf(c ssa.CallInstruction) []*ssa.Function {
	if f := c.Common().StaticCallee(); f != nil {
		return []*ssa.Function{f}
	}
	cg := l.CallGraph()
	n := cg.Nodes[c.Parent()]
	if n == nil {
		return nil
	}
	var out []*ssa.Function
	seen := map[*ssa.Function]bool{}
	for _, e := range n.Out {
		if e.Site == c && !seen[e.Callee.Func] {
			seen[e.Callee.Func] = true
			out = append(out, e.Callee.Func)
		}
	}
	sort.Slice(out, func(i, j int) bool { return fnName(out[i]) < fnName(out[j]) })
	return out
}

// prodCallees: callees excluding mocks / test helpers.
func (l *Loaded) prodCalleesOf(c ssa.CallInstruction) []*ssa.Function {
	var out []*ssa.Function
	for _, f := range l.calleesOf(c) {
		if nonProdPkg(fnPkgPath(f)) {
			continue
		}
		out = append(out, f)
	}
	return out
}

// reachable computes the set of functions reachable from roots in the call graph, following
// only edges into functions accepted by follow (nil = all). Closures created in a reachable
// function are considered reachable too (conservative).
func (l *Loaded) reachable(roots []*ssa.Function, follow func(*ssa.Function) bool) map[*ssa.Function][]*ssa.Function {
	cg := l.CallGraph()
	parent := map[*ssa.Function][]*ssa.Function{}
	var work []*ssa.Function
	add := func(f, from *ssa.Function) {
		if f == nil {
			return
		}
		if _, ok := parent[f]; ok {
			return
		}
		if follow != nil && !follow(f) {
			return
		}
		var path []*ssa.Function
		if from != nil {
			path = append(append([]*ssa.Function{}, parent[from]...), from)
		}
		parent[f] = path
		work = append(work, f)
	}
	for _, r := range roots {
		add(r, nil)
	}
	for len(work) > 0 {
		f := work[0]
		work = work[1:]
		if n := cg.Nodes[f]; n != nil {
			outs := append([]*callgraph.Edge{}, n.Out...)
			sort.Slice(outs, func(i, j int) bool { return fnName(outs[i].Callee.Func) < fnName(outs[j].Callee.Func) })
			for _, e := range outs {
				add(e.Callee.Func, f)
			}
		}
		for _, a := range f.AnonFuncs {
			add(a, f)
		}
	}
	return parent
}

func pathString(p []*ssa.Function, last *ssa.Function) string {
	var s []string
	for _, f := range p {
		s = append(s, fnName(f))
	}
	s = append(s, fnName(last))
	if len(s) > 8 {
		s = append(append(s[:3:3], "..."), s[len(s)-4:]...)
	}
	return strings.Join(s, " -> ")
}

// ---------------------------------------------------------------------------------------
// symbolic expressions of SSA values (value provenance)

type symCtx struct {
	depth int
	seen  map[ssa.Value]bool
}

// Sym renders the provenance of v as a canonical expression over parameters, constants,
// globals and resolved callee names. Loads of local variables with a single store are
// looked through.
func Sym(v ssa.Value) string {
	return (&symCtx{seen: map[ssa.Value]bool{}}).expr(v, 0)
}

func (s *symCtx) expr(v ssa.Value, d int) string {
	if v == nil {
		return "<nil>"
	}
	if d > 14 {
		return "…"
	}
	switch x := v.(type) {
	case *ssa.Parameter:
		if a := transparentArg(x); a != nil && !s.seen[x] {
			s.seen[x] = true
			r := s.expr(a, d+1)
			delete(s.seen, x)
			return r
		}
		return "p:" + paramName(x)
	case *ssa.FreeVar:
		return "fv:" + freeVarName(x)
	case *ssa.Const:
		if x.Value == nil {
			return "nil"
		}
		if x.Value.Kind() == constant.String {
			return fmt.Sprintf("%q", constant.StringVal(x.Value))
		}
		return x.Value.ExactString()
	case *ssa.Global:
		return "g:" + shortName(x.Pkg.Pkg.Path()+"."+x.Name())
	case *ssa.Function:
		return "fn:" + fnName(x)
	case *ssa.MakeClosure:
		return "closure:" + fnName(x.Fn.(*ssa.Function))
	case *ssa.Builtin:
		return "builtin:" + x.Name()
	case *ssa.Call:
		if x.Call.Signature().Results().Len() == 1 {
			if r := s.helperResult(x, 0, d); r != "" {
				return r
			}
		}
		var args []string
		for _, a := range allArgs(x) {
			args = append(args, s.expr(a, d+1))
		}
		n := calleeShort(x)
		if n == "" {
			n = "dyn[" + s.expr(x.Common().Value, d+1) + "]"
		}
		return n + "(" + strings.Join(args, ", ") + ")"
	case *ssa.Extract:
		if c, ok := x.Tuple.(*ssa.Call); ok {
			if r := s.helperResult(c, x.Index, d); r != "" {
				return r
			}
		}
		return s.expr(x.Tuple, d) + "#" + fmt.Sprint(x.Index)
	case *ssa.Field:
		return s.expr(x.X, d+1) + "." + fieldName(x.X.Type(), x.Field)
	case *ssa.FieldAddr:
		return "&" + s.deref(x.X, d+1) + "." + fieldName(x.X.Type(), x.Field)
	case *ssa.IndexAddr:
		return "&" + s.deref(x.X, d+1) + "[" + s.expr(x.Index, d+1) + "]"
	case *ssa.Index:
		return s.expr(x.X, d+1) + "[" + s.expr(x.Index, d+1) + "]"
	case *ssa.Lookup:
		return s.expr(x.X, d+1) + "[" + s.expr(x.Index, d+1) + "]"
	case *ssa.Slice:
		// slice of a local array literal: list its stores
		if a, ok := x.X.(*ssa.Alloc); ok {
			if elems := arrayStores(a); elems != nil {
				var es []string
				for _, e := range elems {
					es = append(es, s.expr(e, d+1))
				}
				return "[" + strings.Join(es, ", ") + "]"
			}
			if es := s.sliceLitElems(a, d); es != nil {
				return "[" + strings.Join(es, ", ") + "]"
			}
			// make([]T, n) filled by constant index, each slot once: the same list
			if at, isArr := a.Type().(*types.Pointer).Elem().Underlying().(*types.Array); isArr && x.Referrers() != nil && at.Len() <= 16 {
				out := make([]string, at.Len())
				cnt := make([]int, at.Len())
				okAll := true
				for _, r := range *x.Referrers() {
					ia, isIA := r.(*ssa.IndexAddr)
					if !isIA {
						continue
					}
					k, isK := ia.Index.(*ssa.Const)
					if !isK || int(k.Int64()) >= len(out) || ia.Referrers() == nil {
						okAll = false
						break
					}
					for _, rr := range *ia.Referrers() {
						if st, isSt := rr.(*ssa.Store); isSt && st.Addr == ssa.Value(ia) {
							cnt[k.Int64()]++
							out[k.Int64()] = s.expr(st.Val, d+1)
						}
					}
				}
				for _, n := range cnt {
					if n != 1 {
						okAll = false
					}
				}
				if okAll && len(out) > 0 {
					return "[" + strings.Join(out, ", ") + "]"
				}
			}
		}
		return s.expr(x.X, d+1) + "[:]"
	case *ssa.UnOp:
		switch x.Op {
		case token.MUL:
			return s.deref(x.X, d)
		case token.NOT:
			return "!" + s.expr(x.X, d+1)
		case token.ARROW:
			return "<-" + s.expr(x.X, d+1)
		case token.SUB:
			return "-" + s.expr(x.X, d+1)
		}
		return x.Op.String() + s.expr(x.X, d+1)
	case *ssa.BinOp:
		return "(" + s.expr(x.X, d+1) + " " + x.Op.String() + " " + s.expr(x.Y, d+1) + ")"
	case *ssa.Alloc:
		if lit := s.litFields(x, d); lit != "" {
			return "&" + lit
		}
		return "&" + s.allocName(x, d)
	case *ssa.Phi:
		if s.seen[x] {
			return "phi@" + x.Name()
		}
		s.seen[x] = true
		set := map[string]bool{}
		for _, e := range x.Edges {
			set[s.expr(e, d+1)] = true
		}
		delete(s.seen, x)
		var es []string
		for e := range set {
			es = append(es, e)
		}
		sort.Strings(es)
		if len(es) == 1 {
			return es[0]
		}
		return "phi(" + strings.Join(es, " | ") + ")"
	case *ssa.MakeInterface:
		return s.expr(x.X, d)
	case *ssa.ChangeType:
		return s.expr(x.X, d)
	case *ssa.ChangeInterface:
		return s.expr(x.X, d)
	case *ssa.Convert:
		return "conv:" + types.TypeString(x.Type(), shortQual) + "(" + s.expr(x.X, d+1) + ")"
	case *ssa.TypeAssert:
		return s.expr(x.X, d) + ".(" + types.TypeString(x.AssertedType, shortQual) + ")"
	case *ssa.MakeSlice:
		return "make:" + types.TypeString(x.Type(), shortQual)
	case *ssa.MakeMap:
		// map literal: render the entries written right after creation (same block)
		var es []string
		if x.Referrers() != nil {
			for _, r := range *x.Referrers() {
				if mu, ok := r.(*ssa.MapUpdate); ok && mu.Map == ssa.Value(x) && mu.Block() == x.Block() {
					es = append(es, s.expr(mu.Key, d+1)+": "+s.expr(mu.Value, d+1))
				}
			}
		}
		if len(es) > 0 {
			sort.Strings(es)
			return "map{" + strings.Join(es, ", ") + "}"
		}
		return "make:" + types.TypeString(x.Type(), shortQual)
	case *ssa.MakeChan:
		return "makechan(" + s.expr(x.Size, d+1) + ")"
	case *ssa.Range:
		return "range(" + s.expr(x.X, d+1) + ")"
	case *ssa.Next:
		return "next(" + s.expr(x.Iter, d+1) + ")"
	}
	return fmt.Sprintf("?%T", v)
}

func shortQual(p *types.Package) string { return p.Name() }

// deref renders the value stored at pointer p.
func (s *symCtx) deref(p ssa.Value, d int) string {
	switch x := p.(type) {
	case *ssa.Alloc:
		if st := singleStore(x); st != nil && !s.seen[x] {
			s.seen[x] = true
			r := s.expr(st, d+1)
			delete(s.seen, x)
			return r
		}
		if lit := s.litFields(x, d); lit != "" {
			return lit
		}
		return s.allocName(x, d)
	case *ssa.FieldAddr:
		return s.deref(x.X, d+1) + "." + fieldName(x.X.Type(), x.Field)
	case *ssa.IndexAddr:
		return s.deref(x.X, d+1) + "[" + s.expr(x.Index, d+1) + "]"
	case *ssa.Global:
		return "g:" + shortName(x.Pkg.Pkg.Path()+"."+x.Name())
	case *ssa.FreeVar:
		if a := capturedTransparentArg(x); a != nil && !s.seen[x] {
			s.seen[x] = true
			r := s.expr(a, d+1)
			delete(s.seen, x)
			return r
		}
		return "fv:" + freeVarName(x)
	case *ssa.Parameter:
		if a := transparentArg(x); a != nil && !s.seen[x] {
			s.seen[x] = true
			r := s.deref(a, d+1)
			delete(s.seen, x)
			return r
		}
		return "*p:" + paramName(x)
	}
	e := s.expr(p, d+1)
	if strings.HasPrefix(e, "&") {
		return e[1:]
	}
	return "*" + e
}

func (s *symCtx) allocName(a *ssa.Alloc, d int) string {
	n := a.Comment
	if n == "" || n == "complit" || strings.HasPrefix(n, "new") || n == "varargs" {
		t := a.Type().(*types.Pointer).Elem()
		return "new:" + types.TypeString(t, shortQual)
	}
	return "local:" + allocPinnedName(a)
}

func fieldName(t types.Type, i int) string {
	if p, ok := t.Underlying().(*types.Pointer); ok {
		t = p.Elem()
	}
	if st, ok := t.Underlying().(*types.Struct); ok && i < st.NumFields() {
		return st.Field(i).Name()
	}
	return fmt.Sprint("f", i)
}

// singleStore returns the only value ever stored directly into alloc a (whole-variable stores),
// provided no field/index stores or escaping uses exist; nil otherwise.
func singleStore(a *ssa.Alloc) ssa.Value {
	var val ssa.Value
	n := 0
	for _, r := range *a.Referrers() {
		switch x := r.(type) {
		case *ssa.Store:
			if x.Addr == a {
				val = x.Val
				n++
			}
		case *ssa.FieldAddr, *ssa.IndexAddr:
			// partial stores through these?
			if hasStoreThrough(x.(ssa.Value)) {
				return nil
			}
		case *ssa.UnOp, *ssa.DebugRef:
		case *ssa.MakeClosure:
			if closureStoresTo(x, a) {
				return nil // captured by reference and assigned inside the closure
			}
		default:
			// escapes (call arg, MakeClosure ...): still fine for reading the initial value when stored once
		}
	}
	if n == 1 {
		return val
	}
	return nil
}

func hasStoreThrough(p ssa.Value) bool {
	refs := p.Referrers()
	if refs == nil {
		return false
	}
	for _, r := range *refs {
		switch x := r.(type) {
		case *ssa.Store:
			if x.Addr == p {
				return true
			}
		case *ssa.FieldAddr:
			if hasStoreThrough(x) {
				return true
			}
		case *ssa.IndexAddr:
			if hasStoreThrough(x) {
				return true
			}
		}
	}
	return false
}

// arrayStores lists the values stored at constant indices of a local array alloc (varargs / literals).
func arrayStores(a *ssa.Alloc) []ssa.Value {
	at, ok := a.Type().(*types.Pointer).Elem().Underlying().(*types.Array)
	if !ok {
		return nil
	}
	out := make([]ssa.Value, at.Len())
	for _, r := range *a.Referrers() {
		ia, ok := r.(*ssa.IndexAddr)
		if !ok {
			continue
		}
		c, ok := ia.Index.(*ssa.Const)
		if !ok {
			return nil
		}
		i := int(c.Int64())
		for _, rr := range *ia.Referrers() {
			if st, ok := rr.(*ssa.Store); ok && st.Addr == ia {
				if i < len(out) {
					out[i] = st.Val
				}
			}
		}
	}
	for _, v := range out {
		if v == nil {
			return nil
		}
	}
	return out
}

// fieldStores returns, for a pointer value base (Alloc or other), the stores into its named field:
// every Store whose address is FieldAddr(base, field).
func fieldStores(fn *ssa.Function, match func(fa *ssa.FieldAddr) bool) []*ssa.Store {
	var out []*ssa.Store
	eachInstr(fn, func(i ssa.Instruction) {
		st, ok := i.(*ssa.Store)
		if !ok {
			return
		}
		if fa, ok := st.Addr.(*ssa.FieldAddr); ok && match(fa) {
			out = append(out, st)
		}
	})
	return out
}

// structFieldOf reports the (named struct type, field name) addressed by fa.
func structFieldOf(fa *ssa.FieldAddr) (string, string) {
	t := fa.X.Type()
	if p, ok := t.Underlying().(*types.Pointer); ok {
		t = p.Elem()
	}
	name := types.TypeString(t, nil)
	return name, fieldName(t, fa.Field)
}

// constInt returns the int64 value of a constant.
func constInt(v ssa.Value) (int64, bool) {
	c, ok := v.(*ssa.Const)
	if !ok || c.Value == nil || c.Value.Kind() != constant.Int {
		return 0, false
	}
	return c.Int64(), true
}

// namedConst looks up an exported constant/var of an akash package.
func (l *Loaded) constVal(rel, name string) constant.Value {
	p := l.Pkg(rel)
	o := p.Types.Scope().Lookup(name)
	c, ok := o.(*types.Const)
	if !ok {
		panic(Undecided{"unresolved anchor: const " + rel + "." + name})
	}
	return c.Val()
}

// prodFuncs lists every source function (incl. methods and closures) of akash production packages.
func (l *Loaded) prodFuncs() []*ssa.Function {
	var out []*ssa.Function
	seen := map[*ssa.Function]bool{}
	var add func(f *ssa.Function)
	add = func(f *ssa.Function) {
		if f == nil || seen[f] || f.Blocks == nil || f.Synthetic != "" {
			return
		}
		seen[f] = true
		out = append(out, f)
		for _, a := range f.AnonFuncs {
			add(a)
		}
	}
	var paths []string
	for p := range l.SSA {
		paths = append(paths, p)
	}
	sort.Strings(paths)
	for _, p := range paths {
		if !strings.HasPrefix(p, akash) || nonProdPkg(p) {
			continue
		}
		sp := l.SSA[p]
		var names []string
		for n := range sp.Members {
			names = append(names, n)
		}
		sort.Strings(names)
		for _, n := range names {
			switch m := sp.Members[n].(type) {
			case *ssa.Function:
				add(m)
			case *ssa.Type:
				for _, T := range []types.Type{m.Type(), types.NewPointer(m.Type())} {
					ms := l.Prog.MethodSets.MethodSet(T)
					for i := 0; i < ms.Len(); i++ {
						if fo, ok := ms.At(i).Obj().(*types.Func); ok {
							add(l.Prog.FuncValue(fo))
						}
					}
				}
			}
		}
	}
	return out
}

// staticReach follows only statically resolved calls (and closures) from root.
func (l *Loaded) staticReach(root *ssa.Function, follow func(*ssa.Function) bool) map[*ssa.Function][]*ssa.Function {
	parent := map[*ssa.Function][]*ssa.Function{root: nil}
	work := []*ssa.Function{root}
	for len(work) > 0 {
		f := work[0]
		work = work[1:]
		var next []*ssa.Function
		for _, c := range callsIn(f, false) {
			if g := c.Common().StaticCallee(); g != nil {
				next = append(next, g)
			}
		}
		next = append(next, f.AnonFuncs...)
		for _, g := range next {
			if _, ok := parent[g]; ok || g.Blocks == nil || (follow != nil && !follow(g)) {
				continue
			}
			parent[g] = append(append([]*ssa.Function{}, parent[f]...), f)
			work = append(work, g)
		}
	}
	return parent
}

func fmtInt(i int) string { return fmt.Sprint(i) }

func constantInt(c *types.Const) (int64, bool) {
	if c.Val().Kind() != constant.Int {
		return 0, false
	}
	v, ok := constant.Int64Val(c.Val())
	return v, ok
}

// factsAtSelf: no extra facts (placeholder for symmetry: facts that hold on entry of b are factsAt(b)).
func factsAtSelf(b *ssa.BasicBlock) []Atom { return nil }

// litFields renders a composite literal built field by field into a fresh alloc: T{F: v, ...}.
func (s *symCtx) litFields(a *ssa.Alloc, d int) string {
	if s.seen[a] {
		return ""
	}
	// a named local initialised by a composite literal ("ev := T{...}") is built in place by go/ssa: treat it as
	// the literal when it is a struct whose fields are each stored once and which is never stored as a whole
	named := a.Comment != "complit"
	if named {
		if _, isStruct := a.Type().(*types.Pointer).Elem().Underlying().(*types.Struct); !isStruct || a.Heap && false {
			return ""
		}
	}
	var parts []string
	whole := false
	dup := map[string]int{}
	var collect func(prefix string, addr ssa.Value)
	collect = func(prefix string, addr ssa.Value) {
		refs := addr.Referrers()
		if refs == nil {
			return
		}
		for _, r := range *refs {
			switch x := r.(type) {
			case *ssa.Store:
				if x.Addr == addr {
					if prefix == "" {
						whole = true
						return
					}
					dup[prefix]++
					s.seen[a] = true
					parts = append(parts, prefix+": "+s.expr(x.Val, d+2))
					delete(s.seen, a)
				}
			case *ssa.FieldAddr:
				p := fieldName(x.X.Type(), x.Field)
				if prefix != "" {
					p = prefix + "." + p
				}
				collect(p, x)
			}
		}
	}
	collect("", a)
	if whole {
		return ""
	}
	if len(parts) == 0 {
		return ""
	}
	if named {
		for _, n := range dup {
			if n > 1 {
				return ""
			}
		}
		// all initialising stores in one block (a literal, not a variable updated along the way)
		var blk *ssa.BasicBlock
		same := true
		var chk func(addr ssa.Value)
		chk = func(addr ssa.Value) {
			for _, r := range *addr.Referrers() {
				switch x := r.(type) {
				case *ssa.Store:
					if x.Addr == addr {
						if blk == nil {
							blk = x.Block()
						} else if blk != x.Block() {
							same = false
						}
					}
				case *ssa.FieldAddr:
					chk(x)
				}
			}
		}
		chk(a)
		if !same {
			return ""
		}
		// the variable (or a field of it) must not be written through an escaping address
		escapes := false
		var esc func(addr ssa.Value)
		esc = func(addr ssa.Value) {
			for _, r := range *addr.Referrers() {
				switch x := r.(type) {
				case *ssa.Store:
					if x.Addr != addr {
						escapes = true
					}
				case *ssa.UnOp:
				case *ssa.FieldAddr:
					esc(x)
				case *ssa.DebugRef:
				default:
					escapes = true
				}
			}
		}
		esc(a)
		if escapes {
			return ""
		}
	}
	sort.Strings(parts)
	t := a.Type().(*types.Pointer).Elem()
	return types.TypeString(t, shortQual) + "{" + strings.Join(parts, ", ") + "}"
}

// closureStoresTo: does the closure (or a nested one) store into the captured variable v?
func closureStoresTo(mc *ssa.MakeClosure, v ssa.Value) bool {
	fn, ok := mc.Fn.(*ssa.Function)
	if !ok {
		return true
	}
	for i, b := range mc.Bindings {
		if b != v || i >= len(fn.FreeVars) {
			continue
		}
		fv := fn.FreeVars[i]
		if fv.Referrers() == nil {
			continue
		}
		for _, r := range *fv.Referrers() {
			switch x := r.(type) {
			case *ssa.Store:
				if x.Addr == ssa.Value(fv) {
					return true
				}
			case *ssa.MakeClosure:
				if closureStoresTo(x, fv) {
					return true
				}
			case *ssa.FieldAddr, *ssa.IndexAddr:
				if hasStoreThrough(x.(ssa.Value)) {
					return true
				}
			}
		}
	}
	return false
}

// sliceLitElems renders the elements of a slice/array literal alloc whose elements are built in place.
func (s *symCtx) sliceLitElems(a *ssa.Alloc, d int) []string {
	at, ok := a.Type().(*types.Pointer).Elem().Underlying().(*types.Array)
	if !ok {
		return nil
	}
	out := make([]string, at.Len())
	for _, r := range *a.Referrers() {
		ia, ok := r.(*ssa.IndexAddr)
		if !ok {
			continue
		}
		k, ok := ia.Index.(*ssa.Const)
		if !ok {
			return nil
		}
		i := int(k.Int64())
		if i >= len(out) {
			return nil
		}
		var parts []string
		for _, rr := range *ia.Referrers() {
			switch x := rr.(type) {
			case *ssa.Store:
				if x.Addr == ssa.Value(ia) {
					out[i] = s.expr(x.Val, d+1)
				}
			case *ssa.FieldAddr:
				for _, r3 := range *x.Referrers() {
					if st, ok := r3.(*ssa.Store); ok && st.Addr == ssa.Value(x) {
						parts = append(parts, fieldName(x.X.Type(), x.Field)+": "+s.expr(st.Val, d+2))
					}
				}
			}
		}
		if out[i] == "" && len(parts) > 0 {
			sort.Strings(parts)
			out[i] = types.TypeString(at.Elem(), shortQual) + "{" + strings.Join(parts, ", ") + "}"
		}
	}
	for _, e := range out {
		if e == "" {
			return nil
		}
	}
	return out
}

// noStoreBetween: no store to the loaded address between two loads in straight-line dominance (conservative:
// the later load's block is dominated by the earlier one's and no Store to that address exists in the blocks on
// the dominator path between them).
func noStoreBetween(a, b *ssa.UnOp) bool {
	if !a.Block().Dominates(b.Block()) {
		return false
	}
	fn := a.Parent()
	for _, blk := range fn.Blocks {
		if !(a.Block().Dominates(blk) && (blk == b.Block() || blockReachesB(blk, b.Block()))) {
			continue
		}
		for _, in := range blk.Instrs {
			if st, ok := in.(*ssa.Store); ok && st.Addr == a.X {
				// a store located after a and before b on some path
				if blk == a.Block() && !instrDominates(a, st) {
					continue
				}
				if blk == b.Block() && !instrDominates(st, b) {
					continue
				}
				return false
			}
		}
	}
	return true
}

func blockReachesB(from, to *ssa.BasicBlock) bool {
	seen := map[*ssa.BasicBlock]bool{}
	stack := append([]*ssa.BasicBlock{}, from.Succs...)
	for len(stack) > 0 {
		x := stack[len(stack)-1]
		stack = stack[:len(stack)-1]
		if seen[x] {
			continue
		}
		seen[x] = true
		if x == to {
			return true
		}
		stack = append(stack, x.Succs...)
	}
	return false
}

func osEnviron() []string { return os.Environ() }

func typesPointer(t types.Type) types.Type { return types.NewPointer(t) }

// transparentArg: the argument bound to parameter p of a transparent helper at its unique call site.
func transparentArg(p *ssa.Parameter) ssa.Value {
	fn := p.Parent()
	if fn == nil {
		return nil
	}
	site := transparentSite(fn)
	if site == nil {
		return nil
	}
	i := paramIdx(p)
	args := site.Common().Args
	if i < 0 || i >= len(args) {
		return nil
	}
	return args[i]
}

// helperResult renders result k of a call to a transparent helper as the value(s) the helper returns.
func (s *symCtx) helperResult(c *ssa.Call, k int, d int) string {
	g := transparentCallee(c)
	if g == nil || s.seen[c] {
		return ""
	}
	s.seen[c] = true
	defer delete(s.seen, c)
	var parts []string
	have := map[string]bool{}
	for _, v := range helperReturns(g, k) {
		r := s.expr(v, d+1)
		if !have[r] {
			have[r] = true
			parts = append(parts, r)
		}
	}
	if len(parts) == 0 {
		return ""
	}
	if len(parts) == 1 {
		return parts[0]
	}
	sort.Strings(parts)
	return "phi(" + strings.Join(parts, " | ") + ")"
}

// capturedTransparentArg: fv is a closure's captured variable that holds (only) a parameter of a transparent
// helper; the value it stands for is then the argument at the helper's call site.
func capturedTransparentArg(fv *ssa.FreeVar) ssa.Value {
	g := fv.Parent()
	if g == nil || g.Parent() == nil {
		return nil
	}
	P := g.Parent()
	if transparentSite(P) == nil {
		return nil
	}
	idx := -1
	for i, f := range g.FreeVars {
		if f == fv {
			idx = i
		}
	}
	var bound ssa.Value
	eachInstr(P, func(i ssa.Instruction) {
		if mc, ok := i.(*ssa.MakeClosure); ok && mc.Fn == ssa.Value(g) && idx >= 0 && idx < len(mc.Bindings) {
			bound = mc.Bindings[idx]
		}
	})
	a, ok := bound.(*ssa.Alloc)
	if !ok {
		return nil
	}
	var val ssa.Value
	n := 0
	for _, r := range *a.Referrers() {
		if st, isSt := r.(*ssa.Store); isSt && st.Addr == ssa.Value(a) {
			n++
			val = st.Val
		}
	}
	// closures may also store to the captured variable
	for _, c := range fnAndClosures(P)[1:] {
		for i, f := range c.FreeVars {
			var b ssa.Value
			eachInstr(c.Parent(), func(in ssa.Instruction) {
				if mc, ok := in.(*ssa.MakeClosure); ok && mc.Fn == ssa.Value(c) && i < len(mc.Bindings) {
					b = mc.Bindings[i]
				}
			})
			if b == ssa.Value(a) && f.Referrers() != nil {
				for _, r := range *f.Referrers() {
					if st, isSt := r.(*ssa.Store); isSt && st.Addr == ssa.Value(f) {
						n++
					}
				}
			}
		}
	}
	if p, isP := val.(*ssa.Parameter); isP && n == 1 {
		return transparentArg(p)
	}
	return nil
}

// mustPassAvoiding: every path from the entry of fn to instruction `to` that takes none of the edges for which skip
// (block, successor index) holds passes an instruction satisfying pred before reaching `to`.
func mustPassAvoiding(fn *ssa.Function, to ssa.Instruction, pred0 func(ssa.Instruction) bool, skip func(b *ssa.BasicBlock, idx int) bool) bool {
	pred := func(in ssa.Instruction) bool { return pred0(in) || transparentPass(in, pred0, 0) }
	seen := map[*ssa.BasicBlock]bool{}
	var visit func(b *ssa.BasicBlock) bool // false = `to` reached without pred
	visit = func(b *ssa.BasicBlock) bool {
		if seen[b] {
			return true
		}
		seen[b] = true
		for _, in := range b.Instrs {
			if in == to {
				return false
			}
			if pred(in) {
				return true
			}
		}
		for i, s := range b.Succs {
			if skip(b, i) {
				continue
			}
			if !visit(s) {
				return false
			}
		}
		return true
	}
	if len(fn.Blocks) == 0 {
		return false
	}
	return visit(fn.Blocks[0])
}

// mustPassAvoidingFrom: as mustPassAvoiding, starting at the first instruction of block `from`.
func mustPassAvoidingFrom(fn *ssa.Function, from *ssa.BasicBlock, to ssa.Instruction, pred0 func(ssa.Instruction) bool, skip func(b *ssa.BasicBlock, idx int) bool) bool {
	pred := func(in ssa.Instruction) bool {
		if pred0(in) || transparentPass(in, pred0, 0) {
			return true
		}
		// a new helper passes when, with the same edges taken out, each of its returns is reached only through pred
		ci, isCall := in.(ssa.CallInstruction)
		if !isCall {
			return false
		}
		g := newHelperCallee(ci)
		if g == nil || len(g.Blocks) == 0 || g == fn {
			return false
		}
		n := 0
		for _, b := range g.Blocks {
			r, isRet := b.Instrs[len(b.Instrs)-1].(*ssa.Return)
			if !isRet {
				continue
			}
			n++
			if b == g.Blocks[0] {
				hit := false
				for _, x := range b.Instrs {
					if pred0(x) {
						hit = true
					}
				}
				if !hit {
					return false
				}
				continue
			}
			if !mustPassAvoidingFrom(g, g.Blocks[0], r, pred0, skip) {
				return false
			}
		}
		return n > 0
	}
	seen := map[*ssa.BasicBlock]bool{}
	var visit func(b *ssa.BasicBlock, first bool) bool
	visit = func(b *ssa.BasicBlock, first bool) bool {
		if seen[b] && !first {
			return true
		}
		seen[b] = true
		for _, in := range b.Instrs {
			if in == to && !first {
				return false
			}
			if pred(in) {
				return true
			}
		}
		for i, s := range b.Succs {
			if skip(b, i) {
				continue
			}
			if s == to.Block() && len(s.Instrs) > 0 && s.Instrs[0] == to {
				return false
			}
			if !visit(s, false) {
				return false
			}
		}
		return true
	}
	if from == nil {
		return false
	}
	return visit(from, true)
}

// domSame: a dominates b, both being blocks of one function (facts lifted from a caller or out of a helper carry
// branch instructions of other functions; dominance between blocks of different functions means nothing).
func domSame(a, b *ssa.BasicBlock) bool {
	return a != nil && b != nil && a.Parent() == b.Parent() && a.Dominates(b)
}
