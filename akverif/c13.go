package main

import (
	"go/constant"
	"regexp"
	"sort"
	"strconv"
	"strings"

	"golang.org/x/tools/go/ssa"
)

func init() { registry["C13"] = checkC13 }

// stageKind classifies the closure handed to runner.Do by what it (or a closure it wraps) calls.
func stageKind(v ssa.Value) string {
	var fns []*ssa.Function
	var collect func(v ssa.Value, d int)
	collect = func(v ssa.Value, d int) {
		if d > 4 {
			return
		}
		switch x := stripConv(v).(type) {
		case *ssa.MakeClosure:
			fns = append(fns, fnAndClosures(x.Fn.(*ssa.Function))...)
		case *ssa.Function:
			fns = append(fns, fnAndClosures(x)...)
		case *ssa.Call:
			for _, a := range x.Call.Args {
				collect(a, d+1)
			}
		}
	}
	collect(v, 0)
	for _, f := range fns {
		for _, call := range callsIn(f, false) {
			switch calleeMethod(call) {
			case "Reserve":
				return "reserve"
			case "Broadcast":
				return "bid"
			}
		}
	}
	return ""
}

func checkC13(c *Check) {
	c.Explanation = "Decided by path-sensitive abstract interpretation of the order monitor's loop function over its SSA (domain: every one-shot result channel is nil / pending / drained, the bid-placed flag, ghost counters saturating at 2 for the reservation and bid-broadcast stages, flags for reservation held, lease won, unreserve and close-bid issued; a select case on a nil or drained channel is infeasible, every other case may fire — all event orders and all failure branches are explored): (R1) no reachable abstract state starts the reservation stage or the bid stage a second time; the service creates an order monitor only after a map miss; (R2) the bid message is built from a price that passed the not-above-group-maximum guard; (R3) the bid stage starts only in states where a reservation is held; (R4) every reachable exit state without a won lease has issued Unreserve if a reservation is held and a close-bid if a bid was placed; (R5) no result of an acquiring stage (reservation, bid broadcast) is received and dropped, and none is still in flight when the function returns."
	c.NotDecided = "liveness (that a stage ever completes); the price computation; behaviour of the cluster and chain clients"
	l := c.L
	run := l.Func("provider/bidengine", "order", "run")
	c.Analysed(fnName(run))

	type viol struct {
		rule, inst, detail string
		pos                ssa.Instruction
	}
	viols := map[string]viol{}
	add := func(rule, inst, detail string, pos ssa.Instruction) {
		viols[rule+"|"+inst] = viol{rule, inst, detail, pos}
	}
	ndo := 0
	siteID := map[ssa.Instruction]string{}
	exits := 0
	ai := &AI{fn: run}
	ai.trackMem = func(cell string) bool { return cell == "p:o.bidPlaced" }
	ai.oneShot = func(tok string) bool { return true }
	ai.onCall = func(st *aiState, call ssa.CallInstruction) (string, bool) {
		full := calleeFull(call)
		m := calleeMethod(call)
		switch {
		case strings.HasSuffix(full, "util/runner.Do"):
			id, ok := siteID[call]
			if !ok {
				k := stageKind(call.Common().Args[0])
				if k == "" {
					ndo++
					k = "stage" + itoa(ndo)
				}
				id = k
				siteID[call] = id
			}
			if id == "reserve" || id == "bid" {
				if st.flag["qerr"] && !st.flag["qnotfound"] {
					add("R1", "bidding continues only when the existing-bid query succeeded or reported 'not found'", "after a failed existing-bid query (other than 'bid not found') the pipeline goes on to "+id+": the provider may already have a bid on this order and would place a second one", call)
				}
				st.bump(id)
				if st.cnt[id] >= 2 {
					add("R1", "stage "+id+" started at most once", "a reachable state starts the "+id+" stage a second time for the same order", call)
				}
				if id == "bid" && !st.flag["reserved"] {
					add("R3", "bid stage starts only with a reservation held", "the bid broadcast can start in a state where no reservation is held", call)
				}
				if id == "bid" && st.mem["p:o.bidPlaced"] == "true" {
					add("R1", "no second bid when a bid is already placed", "the bid stage starts although a bid is already placed (recovered or completed)", call)
				}
			}
			st.tok[id] = "pending"
			return "tok:" + id, true
		case m == "Unreserve":
			st.flag["unreserve"] = true
		case m == "Broadcast":
			a := call.Common().Args
			if strings.Contains(a[len(a)-1].Type().String(), "MsgCloseBid") || strings.Contains(Sym(a[len(a)-1]), "MsgCloseBid") {
				st.flag["closebid"] = true
			}
		case m == "Publish":
			a := call.Common().Args
			if strings.Contains(Sym(a[len(a)-1]), "LeaseWon") || strings.Contains(stripConv(a[len(a)-1]).Type().String(), "LeaseWon") {
				st.flag["won"] = true
			}
		}
		return "", false
	}
	// outcome of the existing-bid query on the catch-up path
	ai.onBranch = func(st *aiState, ifi *ssa.If, idx int) {
		cs := Sym(ifi.Cond)
		if strings.Contains(cs, "Result.Error(") && strings.Contains(cs, "#1") == false && strings.HasSuffix(cs, "!= nil)") {
			// only the query-bid case: its error flows into the not-found matcher
			for _, call := range callsIn(run, false) {
				if calleeMethod(call) == "MatchString" && strings.Contains(Sym(call.Common().Args[1]), strings.TrimSuffix(strings.TrimPrefix(cs, "("), " != nil)")) {
					if idx == 0 {
						st.flag["qerr"] = true
					}
				}
			}
		}
		// outcome of a stage result: `result.Error() != nil` taken / not taken on this path
		if a := condAtom(ifi.Cond, idx == 0); a.Op == "eq" || a.Op == "neq" {
			if ev, _ := callOf(a.X); ev != nil && calleeMethod(ev) == "Error" && strings.Contains(calleeFull(ev), "runner.Result") && Sym(a.Y) == "nil" {
				if a.Op == "neq" {
					st.mem["failed:"+Sym(callRecv(ev))] = "true"
				} else {
					st.mem["failed:"+Sym(callRecv(ev))] = "false"
				}
			}
		}
		if cv, _ := callOf(ifi.Cond); cv != nil && calleeMethod(cv) == "MatchString" && idx == 0 {
			st.flag["qnotfound"] = true
		}
	}
	ai.onInstr = func(st *aiState, in ssa.Instruction) {
		if ta, ok := in.(*ssa.TypeAssert); ok && !ta.CommaOk && strings.HasSuffix(ta.AssertedType.String(), "cluster/types.Reservation") {
			// the value of a stage result that failed on this path is no reservation
			if vv, _ := callOf(ta.X); vv != nil && calleeMethod(vv) == "Value" && st.mem["failed:"+Sym(callRecv(vv))] == "true" {
				return
			}
			st.flag["reserved"] = true
		}
	}
	ai.onAssert = func(st *aiState, ta *ssa.TypeAssert, ok bool) bool {
		if !strings.HasSuffix(ta.AssertedType.String(), "cluster/types.Reservation") {
			return true
		}
		failed, succeeded := false, false
		if vv, _ := callOf(ta.X); vv != nil && calleeMethod(vv) == "Value" {
			failed = st.mem["failed:"+Sym(callRecv(vv))] == "true"
			succeeded = st.mem["failed:"+Sym(callRecv(vv))] == "false"
		}
		if ok && failed {
			return false // the value of a failed stage result is nil
		}
		if !ok && succeeded {
			return false // a stage result without error carries the stage's value (what the plain assertion form assumes too)
		}
		if ok {
			st.flag["reserved"] = true
		}
		return true
	}
	ai.onRecv = func(st *aiState, tok string, in ssa.Instruction, bare bool) {
		if bare && (tok == "reserve" || tok == "bid") {
			add("R5", "result of the "+tok+" stage is never dropped", "a "+tok+" that completes after the loop was left is received and discarded: the reservation / bid it acquired is never released", in)
		}
	}
	ai.onReturn = func(st *aiState, in ssa.Instruction) {
		if st.flag["stuck"] {
			return
		}
		if _, isRet := in.(*ssa.Return); !isRet {
			return
		}
		exits++
		for _, k := range []string{"reserve", "bid"} {
			if st.tok[k] == "pending" {
				add("R5", "no "+k+" stage is in flight when the monitor returns", "the function can return while the "+k+" stage is still running; its result has no receiver", in)
			}
		}
		if st.flag["won"] {
			return
		}
		if st.flag["reserved"] && !st.flag["unreserve"] {
			add("R4", "a held reservation is released on exit without a won lease", "an exit path keeps the reservation (no Unreserve) although the lease was not won", in)
		}
		if st.mem["p:o.bidPlaced"] == "true" && !st.flag["closebid"] {
			add("R4", "a placed bid is closed on exit without a won lease", "an exit path leaves the placed bid open (no MsgCloseBid) although the lease was not won", in)
		}
	}
	init := newAIState()
	init.mem["p:o.bidPlaced"] = "false"
	ai.Run(init)
	// the catch-up path may find a bid already placed by an earlier incarnation
	if ai.Aborted {
		c.Fail("C13: abstract interpretation exceeded the state budget")
	}
	c.Extra["states"] = ai.States
	c.Extra["transitions"] = ai.Transitions
	c.Extra["exit_states"] = exits
	var stages []string
	for _, id := range siteID {
		stages = append(stages, id)
	}
	sort.Strings(stages)
	c.Extra["stages"] = stages
	hasR, hasB := false, false
	for _, s := range stages {
		if s == "reserve" {
			hasR = true
		}
		if s == "bid" {
			hasB = true
		}
	}
	if !hasR || !hasB || len(stages) < 6 || exits == 0 || ai.States < 50 {
		c.Fail("C13: stages not recognised (%v), exits=%d states=%d", stages, exits, ai.States)
	}
	rules := []struct{ rule, inst string }{
		{"R1", "bidding continues only when the existing-bid query succeeded or reported 'not found'"},
		{"R1", "stage reserve started at most once"}, {"R1", "stage bid started at most once"}, {"R1", "no second bid when a bid is already placed"},
		{"R3", "bid stage starts only with a reservation held"},
		{"R4", "a held reservation is released on exit without a won lease"}, {"R4", "a placed bid is closed on exit without a won lease"},
		{"R5", "result of the reserve stage is never dropped"}, {"R5", "result of the bid stage is never dropped"},
		{"R5", "no reserve stage is in flight when the monitor returns"}, {"R5", "no bid stage is in flight when the monitor returns"},
	}
	for _, r := range rules {
		if v, bad := viols[r.rule+"|"+r.inst]; bad {
			c.Ob(r.rule, r.inst, v.pos.Pos(), false, v.detail)
		} else {
			c.Ob(r.rule, r.inst+" ("+itoa(ai.States)+" abstract states explored)", run.Pos(), true, "")
		}
	}

	// ---- R1b one monitor per order
	srv := l.Func("provider/bidengine", "service", "run")
	c.Analysed(fnName(srv))
	no := l.Func("provider/bidengine", "", "newOrder")
	nno := 0
	for _, call := range callsIn(srv, false) {
		if call.Common().StaticCallee() != no {
			continue
		}
		nno++
		if loopHeaderOf(call.Block()) != nil && strings.Contains(Sym(call.Common().Args[1]), "existingOrders") {
			c.Ob("R1", "catch-up monitors are created once per listed open order", call.Pos(), true, "")
			continue
		}
		// dominated by a nil lookup in the orders map with the same key
		ok := false
		for _, a := range factsAt(call.Block()) {
			if a.Op == "eq" && isNilConst(a.Y) && strings.Contains(Sym(a.X), "s.orders[") {
				ok = true
			}
		}
		c.Ob("R1", "a monitor is created for an order event only after a map miss", call.Pos(), ok, "a second monitor (and so a second bid) can be started for an order that already has one")
	}
	if nno < 2 {
		c.Fail("C13-R1b lost instances")
	}
	// run is started exactly once per order object
	nrun := 0
	for _, fn := range l.pkgFuncs("provider/bidengine") {
		eachInstr(fn, func(i ssa.Instruction) {
			if g, ok := i.(*ssa.Go); ok && g.Call.StaticCallee() == run {
				nrun++
				// the receiver is the order object allocated in this very function (its constructor), outside any loop
				_, fresh := g.Call.Args[0].(*ssa.Alloc)
				if ld, isLd := g.Call.Args[0].(*ssa.UnOp); isLd && !fresh {
					// held in a local that is assigned once, with a fresh allocation (new(order) filled field by field)
					if slot, isA := ld.X.(*ssa.Alloc); isA {
						if sv := singleStore(slot); sv != nil {
							_, fresh = sv.(*ssa.Alloc)
						}
					}
				}
				if !fresh {
					fresh = strings.HasPrefix(Sym(g.Call.Args[0]), "&bidengine.order{")
				}
				c.Ob("R1", "the monitor loop is started once, by the function that constructs the order object", g.Pos(), fresh && loopHeaderOf(g.Block()) == nil, "the loop can be started for an existing order object")
			}
		})
	}
	c.Ob("R1", "exactly one start site of the monitor loop", no.Pos(), nrun == 1, "")

	// ---- R2 price bound
	nmsg := 0
	for _, call := range callsIn(run, false) {
		if calleeMethod(call) != "NewMsgCreateBid" {
			continue
		}
		nmsg++
		price := call.Common().Args[2]
		ok := false
		for _, a := range factsAt(call.Block()) {
			if a.Op == "false" {
				if cv, _ := callOf(a.X); cv != nil && calleeMethod(cv) == "IsLT" && cv.Call.Args[1] == price && strings.Contains(Sym(cv.Call.Args[0]), "GroupSpec.Price(") {
					ok = true
				}
			}
		}
		c.Ob("R2", "bid message carries a price that is not above the group's maximum", call.Pos(), ok, "the price put into MsgCreateBid did not pass the maxPrice.IsLT(price) guard")
		// the broadcast closure sends this message
		sent := false
		for _, rr := range *call.(*ssa.Call).Referrers() {
			if st, isSt := rr.(*ssa.Store); isSt {
				if al, isA := st.Addr.(*ssa.Alloc); isA {
					for _, g := range fnAndClosures(run)[1:] {
						for _, c2 := range callsIn(g, false) {
							if calleeMethod(c2) == "Broadcast" && strings.Contains(Sym(c2.Common().Args[len(c2.Common().Args)-1]), "fv:"+allocPinnedName(al)) {
								sent = true
							}
						}
					}
				}
			}
		}
		c.Ob("R2", "the message broadcast by the bid stage is the bounded one", call.Pos(), sent, "")
	}
	if nmsg != 1 {
		c.Ob("R2", "exactly one bid message construction site", run.Pos(), false, "sites: "+itoa(nmsg))
	}
	c.notFoundClassifier(run)
	c.inventoryClientRules("R4")
	// the monitor recognises "its" lease / order events by comparing ids: equal means every field equal (shared with
	// C06-R6); the ceiling it bids under is the group's price (shared with C08-R1)
	c.idEqualsComplete("R4")
	c.orderMaximumShape("R2")
	c.orderMonitorSubscription("R4")
	c.cancelBeforeDrain("R5", run)
	// the close-bid (and every other) transaction of the order monitor is broadcast under a context that ends only when
	// the monitor cancels it: a context with a deadline has always expired by the time the clean-up runs after a bid
	// timeout, and the broadcaster then submits nothing
	nb := 0
	for _, g := range fnAndClosuresDeep(run) {
		for _, call := range callsInOwn(g) {
			if calleeMethod(call) != "Broadcast" {
				continue
			}
			nb++
			a := userArgs(call)
			cs := Sym(a[0])
			// a captured context: what the enclosing function stored into the captured variable
			if ld, isLd := a[0].(*ssa.UnOp); isLd {
				if fv, isFV := ld.X.(*ssa.FreeVar); isFV {
					cs = ""
					for _, v := range capturedStores(fv) {
						cs += Sym(v) + " | "
					}
				}
			}
			okCtx := !strings.Contains(cs, "context.WithTimeout(") && !strings.Contains(cs, "context.WithDeadline(") && (strings.Contains(cs, "context.WithCancel(") || strings.Contains(cs, "context.Background("))
			c.Ob("R4", "transaction #"+itoa(nb)+" of the order monitor is broadcast under a context without a deadline", call.Pos(), okCtx, "context "+short(cs)+": a deadline that has passed makes the broadcaster drop the close-bid transaction, the bid stays open")
		}
	}
	if nb < 2 {
		c.Fail("C13-R4 lost instances: %d broadcasts", nb)
	}
	// ... and that context is still live when the close-bid is broadcast: its cancel function is called only by the
	// monitor itself, at points from which the close-bid broadcast can no longer be reached (a deferred call counts);
	// a goroutine or callback holding the cancel function can fire before the clean-up
	var closeBid ssa.CallInstruction
	for _, call := range callsInOwn(run) {
		if calleeMethod(call) == "Broadcast" {
			a := call.Common().Args
			if strings.Contains(a[len(a)-1].Type().String(), "MsgCloseBid") || strings.Contains(Sym(a[len(a)-1]), "MsgCloseBid") {
				closeBid = call
			}
		}
	}
	if closeBid == nil {
		for _, h := range helpersOf(run) {
			for _, call := range callsInOwn(h) {
				if calleeMethod(call) == "Broadcast" && strings.Contains(Sym(call.Common().Args[len(call.Common().Args)-1]), "MsgCloseBid") {
					if li, ok := liftTo(run, call).(ssa.CallInstruction); ok {
						closeBid = li
					}
				}
			}
		}
	}
	if closeBid != nil {
		eachInstr(run, func(i ssa.Instruction) {
			ex, ok := i.(*ssa.Extract)
			if !ok || ex.Index != 1 {
				return
			}
			mk, ok := ex.Tuple.(*ssa.Call)
			if !ok || !strings.HasPrefix(calleeFull(mk), "context.With") {
				return
			}
			// uses of the cancel function (directly, or through the variable it is kept in)
			var uses []ssa.Instruction
			collect := func(v ssa.Value) {
				for _, r := range *v.Referrers() {
					uses = append(uses, r)
				}
			}
			collect(ex)
			for k := 0; k < len(uses); k++ {
				if st, isS := uses[k].(*ssa.Store); isS && st.Val == ssa.Value(ex) {
					if al, isA := st.Addr.(*ssa.Alloc); isA {
						for _, r := range *al.Referrers() {
							if ld, isLd := r.(*ssa.UnOp); isLd {
								collect(ld)
							} else if r != uses[k] {
								uses = append(uses, r)
							}
						}
					}
				}
			}
			for _, u := range uses {
				switch x := u.(type) {
				case *ssa.Store, *ssa.DebugRef:
				case *ssa.Defer:
				case *ssa.Call:
					if x.Call.Value == ssa.Value(ex) || isLoadOf(x.Call.Value, ex) {
						c.Ob("R4", "the monitor's context is cancelled only after the close-bid was handed to the broadcaster", x.Pos(), !reachableFrom(x, closeBid), "cancel() can run before the close-bid broadcast: the broadcaster drops a transaction whose context is done, the bid stays open")
					} else {
						c.Ob("R4", "the monitor's cancel function stays with the monitor", x.Pos(), false, "cancel is handed to "+calleeFull(x)+": it can fire before the clean-up broadcast")
					}
				case *ssa.MakeClosure:
					c.Ob("R4", "the monitor's cancel function stays with the monitor", x.Pos(), false, "a goroutine / callback holds the cancel function of the context the close-bid is broadcast under: it can fire before the clean-up")
				case *ssa.Go:
					c.Ob("R4", "the monitor's cancel function stays with the monitor", x.Pos(), false, "cancel is started as a goroutine")
				}
			}
		})
	}
}

// isLoadOf: v is a load of a variable whose only stored value is x.
func isLoadOf(v ssa.Value, x ssa.Value) bool {
	ld, ok := v.(*ssa.UnOp)
	if !ok {
		return false
	}
	al, ok := ld.X.(*ssa.Alloc)
	if !ok {
		return false
	}
	n, same := 0, true
	for _, r := range *al.Referrers() {
		if st, isS := r.(*ssa.Store); isS && st.Addr == ssa.Value(al) {
			n++
			if st.Val != x {
				same = false
			}
		}
	}
	return n > 0 && same
}

// notFoundClassifier (R1): the text pattern that turns a failed existing-bid query into "no bid yet" must single out
// the market module's bid-not-found error: its literal core occurs in that error's registered message and in no other
// error message registered by an akash module (otherwise "order not found", "lease not found", ... are taken as
// licence to bid again).
func (c *Check) notFoundClassifier(run *ssa.Function) {
	l := c.L
	// registered error messages, by variable
	msgs := map[string]string{}
	for path, sp := range l.SSA {
		if !strings.HasPrefix(path, akash+"/x/") || !strings.HasSuffix(path, "/types") {
			continue
		}
		ini := sp.Func("init")
		if ini == nil {
			continue
		}
		eachInstr(ini, func(i ssa.Instruction) {
			st, ok := i.(*ssa.Store)
			if !ok {
				return
			}
			g, isG := st.Addr.(*ssa.Global)
			cv, _ := callOf(st.Val)
			if !isG || cv == nil || !strings.HasSuffix(calleeFull(cv), "types/errors.Register") {
				return
			}
			if k, isK := cv.Call.Args[2].(*ssa.Const); isK && k.Value != nil && k.Value.Kind() == constant.String {
				msgs[strings.TrimPrefix(path, akash+"/")+"."+g.Name()] = constant.StringVal(k.Value)
			}
		})
	}
	if len(msgs) < 40 {
		c.Fail("C13-R1 classifier: only %d registered error messages resolved", len(msgs))
	}
	n := 0
	for _, call := range callsIn(run, false) {
		if calleeFull(call) != "(*regexp.Regexp).MatchString" {
			continue
		}
		n++
		pat, found := "", false
		if ld, ok := call.Common().Args[0].(*ssa.UnOp); ok {
			if g, isG := ld.X.(*ssa.Global); isG {
				if ini := g.Pkg.Func("init"); ini != nil {
					eachInstr(ini, func(i ssa.Instruction) {
						if st, ok := i.(*ssa.Store); ok && st.Addr == ssa.Value(g) {
							if cv, _ := callOf(st.Val); cv != nil && strings.HasPrefix(calleeFull(cv), "regexp.MustCompile") {
								if k, isK := cv.Call.Args[0].(*ssa.Const); isK && k.Value != nil && k.Value.Kind() == constant.String {
									pat, found = constant.StringVal(k.Value), true
								}
							}
						}
					})
				}
			}
		}
		if !found {
			c.Ob("R1", "existing-bid query: not-found classifier is a constant pattern", call.Pos(), false, "pattern "+Sym(call.Common().Args[0])+" is not a package-level constant regexp")
			continue
		}
		// literal core: the pattern with anchors and wildcards removed; any other metacharacter is not understood
		var lits []string
		for _, piece := range regexp.MustCompile(`\^|\$|\.\+|\.\*`).Split(pat, -1) {
			if piece != "" {
				lits = append(lits, piece)
			}
		}
		understood := len(lits) > 0
		for _, lit := range lits {
			if regexp.QuoteMeta(lit) != lit {
				understood = false
			}
		}
		target := msgs["x/market/types.ErrBidNotFound"]
		ok := understood && target != ""
		why := "pattern " + strconv.Quote(pat) + " is not a plain literal between wildcards"
		if ok {
			for _, lit := range lits {
				if !strings.Contains(target, lit) {
					ok = false
					why = "pattern " + strconv.Quote(pat) + " does not match the market module's bid-not-found message " + strconv.Quote(target) + ": a missing bid is treated as a failed query and no bid is ever placed"
				}
			}
		}
		if ok {
			var others []string
			for name, m := range msgs {
				if name == "x/market/types.ErrBidNotFound" {
					continue
				}
				all := true
				for _, lit := range lits {
					if !strings.Contains(m, lit) {
						all = false
					}
				}
				if all {
					others = append(others, name)
				}
			}
			sort.Strings(others)
			if len(others) > 0 {
				ok = false
				why = "pattern " + strconv.Quote(pat) + " also matches " + strings.Join(others, ", ") + ": after such a failure the provider bids although it may already hold a bid on the order"
			}
		}
		c.Ob("R1", "existing-bid query: only the bid-not-found error is taken as 'no bid yet'", call.Pos(), ok, why)
	}
	if n != 1 {
		c.Ob("R1", "existing-bid query: exactly one error classifier", run.Pos(), false, "sites: "+itoa(n))
	}
}

// capturedStores: the values stored (in the enclosing function) into the variable a closure captures as fv.
func capturedStores(fv *ssa.FreeVar) []ssa.Value {
	g := fv.Parent()
	if g == nil || g.Parent() == nil {
		return nil
	}
	idx := -1
	for i, f := range g.FreeVars {
		if f == fv {
			idx = i
		}
	}
	var bound ssa.Value
	eachInstr(g.Parent(), func(i ssa.Instruction) {
		if mc, ok := i.(*ssa.MakeClosure); ok && mc.Fn == ssa.Value(g) && idx >= 0 && idx < len(mc.Bindings) {
			bound = mc.Bindings[idx]
		}
	})
	switch b := bound.(type) {
	case *ssa.Alloc:
		var out []ssa.Value
		if b.Referrers() != nil {
			for _, r := range *b.Referrers() {
				if st, ok := r.(*ssa.Store); ok && st.Addr == ssa.Value(b) {
					out = append(out, st.Val)
				}
			}
		}
		return out
	case *ssa.FreeVar:
		return capturedStores(b)
	}
	return nil
}

// callRecv: the receiver of a method call (interface or static).
func callRecv(c *ssa.Call) ssa.Value {
	if c.Call.IsInvoke() {
		return c.Call.Value
	}
	if len(c.Call.Args) > 0 {
		return c.Call.Args[0]
	}
	return nil
}
