package main

import (
	"bufio"
	"encoding/json"
	"fmt"
	"os"
	"os/exec"
	"path/filepath"
	"regexp"
	"sort"
	"strconv"
	"strings"
)

// Thorough tier = the property's rules again on a GOARCH=386 load (build-tagged files) + checker
// self-validation: every committed seeded change (/verif/seeded/*/patch.diff) that is recorded as detected by
// this property's check is applied IN MEMORY (packages.Config.Overlay; nothing is written to /repo) and the
// check must report a violation on it. Self-validation results go into the evidence and never become a
// VIOLATION of the property; a seed whose patch no longer applies to the current tree is reported as skipped.

type hunk struct {
	oldStart int
	lines    []string // with leading ' ', '-', '+'
}

type filePatch struct {
	path  string
	hunks []hunk
}

var hunkRe = regexp.MustCompile(`^@@ -(\d+)(?:,\d+)? \+(\d+)(?:,\d+)? @@`)

func parseUnifiedDiff(text string) []filePatch {
	var out []filePatch
	var cur *filePatch
	var h *hunk
	sc := bufio.NewScanner(strings.NewReader(text))
	sc.Buffer(make([]byte, 1<<20), 1<<24)
	for sc.Scan() {
		line := sc.Text()
		switch {
		case strings.HasPrefix(line, "+++ "):
			p := strings.TrimPrefix(line, "+++ ")
			p = strings.TrimPrefix(p, "b/")
			out = append(out, filePatch{path: strings.TrimSpace(p)})
			cur = &out[len(out)-1]
			h = nil
		case strings.HasPrefix(line, "--- "), strings.HasPrefix(line, "diff "), strings.HasPrefix(line, "index "):
			h = nil
		case strings.HasPrefix(line, "@@"):
			if cur == nil {
				continue
			}
			m := hunkRe.FindStringSubmatch(line)
			if m == nil {
				continue
			}
			n, _ := strconv.Atoi(m[1])
			cur.hunks = append(cur.hunks, hunk{oldStart: n})
			h = &cur.hunks[len(cur.hunks)-1]
		default:
			if h != nil && (strings.HasPrefix(line, " ") || strings.HasPrefix(line, "-") || strings.HasPrefix(line, "+") || line == "") {
				if line == "" {
					line = " "
				}
				h.lines = append(h.lines, line)
			}
		}
	}
	return out
}

func applyHunks(orig string, hunks []hunk) (string, bool) {
	src := strings.Split(orig, "\n")
	var out []string
	pos := 0
	for _, h := range hunks {
		var old []string
		for _, l := range h.lines {
			if l[0] == ' ' || l[0] == '-' {
				old = append(old, l[1:])
			}
		}
		// locate: stated position first, then search
		match := func(at int) bool {
			if at < 0 || at+len(old) > len(src) {
				return false
			}
			for i, o := range old {
				if src[at+i] != o {
					return false
				}
			}
			return true
		}
		at := h.oldStart - 1
		if !match(at) {
			found := -1
			for d := 1; d < 400 && found < 0; d++ {
				if match(at - d) {
					found = at - d
				} else if match(at + d) {
					found = at + d
				}
			}
			if found < 0 || found < pos {
				return "", false
			}
			at = found
		}
		out = append(out, src[pos:at]...)
		for _, l := range h.lines {
			if l[0] == ' ' || l[0] == '+' {
				out = append(out, l[1:])
			}
		}
		pos = at + len(old)
	}
	out = append(out, src[pos:]...)
	return strings.Join(out, "\n"), true
}

// overlayForPatch builds the in-memory overlay for a patch against repo's current working tree.
func overlayForPatch(repo, patchFile string) (map[string][]byte, error) {
	b, err := os.ReadFile(patchFile)
	if err != nil {
		return nil, err
	}
	ov := map[string][]byte{}
	for _, fp := range parseUnifiedDiff(string(b)) {
		if !strings.HasSuffix(fp.path, ".go") {
			continue
		}
		full := filepath.Join(repo, fp.path)
		orig, err := os.ReadFile(full)
		if err != nil {
			return nil, err
		}
		res, ok := applyHunks(string(orig), fp.hunks)
		if !ok {
			return nil, fmt.Errorf("hunk does not match %s", fp.path)
		}
		ov[full] = []byte(res)
	}
	if len(ov) == 0 {
		return nil, fmt.Errorf("empty patch")
	}
	return ov, nil
}

type seedMeta struct {
	ID       string   `json:"id"`
	Property string   `json:"property"`
	Detected []string `json:"checks_reporting_violation"`
}

func runThorough(c *Check, fn checkFn) {
	// ---- 1. GOARCH=386 pass
	func() {
		defer func() {
			if r := recover(); r != nil {
				c.Extra["goarch_386"] = fmt.Sprintf("not evaluated: %v", r)
			}
		}()
		l386 := LoadWith(repoDir(), nil, []string{"GOARCH=386"})
		sub := &Check{ID: c.ID, Tier: "thorough", Funcs: map[string]bool{}, Extra: map[string]interface{}{}, L: l386}
		defer withLoaded(l386, c.L)()
		fn(sub)
		nbad := 0
		for _, o := range sub.Obs {
			if !o.OK && !o.Info {
				nbad++
				o.Instance += " [GOARCH=386]"
				c.Obs = append(c.Obs, o)
			}
		}
		c.Extra["goarch_386"] = map[string]int{"obligations": len(sub.Obs), "failed": nbad, "packages": len(l386.Pkgs)}
	}()

	// ---- 1b. trusted-base assumptions confirmed from the dependency source
	switch c.ID {
	case "C01", "C02", "C03", "C04", "C05", "C16", "C19":
		c.sdkAssumptionA1()
	case "C06", "C17":
		c.sdkAssumptionA2()
	}

	// ---- 2. self-validation on committed seeds
	seedRoot := filepath.Join(home(), "seeded")
	ents, _ := os.ReadDir(seedRoot)
	var results []map[string]interface{}
	var pending []variantJob
	detected, expected := 0, 0
	for _, e := range ents {
		if !e.IsDir() {
			continue
		}
		mb, err := os.ReadFile(filepath.Join(seedRoot, e.Name(), "meta.json"))
		if err != nil {
			continue
		}
		var m seedMeta
		if json.Unmarshal(mb, &m) != nil {
			continue
		}
		want := false
		for _, d := range m.Detected {
			if d == c.ID {
				want = true
			}
		}
		if !want {
			continue
		}
		expected++
		r := map[string]interface{}{"seed": m.ID}
		pending = append(pending, variantJob{r: r, patch: filepath.Join(seedRoot, e.Name(), "patch.diff")})
	}
	runVariants(c.ID, pending)
	for _, j := range pending {
		switch {
		case j.status != "decided":
			j.r["result"] = j.status
		case len(j.keys) > 0:
			j.r["result"] = "detected"
			j.r["violations"] = j.keys
			detected++
		default:
			j.r["result"] = "MISSED"
		}
		results = append(results, j.r)
	}
	c.Extra["self_validation"] = map[string]interface{}{"seeds_expected": expected, "seeds_detected": detected, "results": results,
		"note": "seeded changes are applied in memory through packages.Config.Overlay (one child process of this binary per seed, so memory is returned); nothing is written to /repo; results never turn into a VIOLATION of the property"}
	for _, r := range results {
		if r["result"] == "MISSED" {
			fmt.Printf("SELF-VALIDATION WARNING: check %s no longer detects seeded change %v\n", c.ID, r["seed"])
		}
	}

	// ---- 2b. rule controls: one hand-written change per rule that no seeded change exercises (/verif/rulectl/<rule>-k:
	// one instance of that rule broken, still compiles); the named rule itself must report it, so that a rule whose
	// expected count on the tree is zero is known to be able to fire
	rcRoot := filepath.Join(home(), "rulectl")
	rents, _ := os.ReadDir(rcRoot)
	var rcres []map[string]interface{}
	var rcpending []variantJob
	var rcrules []string
	for _, e := range rents {
		if !e.IsDir() {
			continue
		}
		mb, err := os.ReadFile(filepath.Join(rcRoot, e.Name(), "meta.json"))
		if err != nil {
			continue
		}
		var m struct{ ID, Rule, Property, What string }
		if json.Unmarshal(mb, &m) != nil || m.Property != c.ID {
			continue
		}
		r := map[string]interface{}{"control": m.ID, "rule": m.Rule, "what": m.What}
		rcpending = append(rcpending, variantJob{r: r, patch: filepath.Join(rcRoot, e.Name(), "patch.diff")})
		rcrules = append(rcrules, m.Rule)
	}
	runVariants(c.ID, rcpending)
	rcok := 0
	for k, j := range rcpending {
		hit := false
		for _, key := range j.keys {
			if strings.HasPrefix(key, rcrules[k]+"|") {
				hit = true
			}
		}
		switch {
		case j.status != "decided":
			j.r["result"] = j.status
		case hit:
			j.r["result"] = "reported by the rule"
			rcok++
		default:
			j.r["result"] = "MISSED"
			j.r["violations"] = j.keys
		}
		rcres = append(rcres, j.r)
		if j.r["result"] != "reported by the rule" {
			fmt.Printf("SELF-VALIDATION WARNING: check %s rule %s does not report its rule control %v: %v\n", c.ID, rcrules[k], j.r["control"], j.r["result"])
		}
	}
	c.Extra["rule_controls"] = map[string]interface{}{"controls": len(rcpending), "reported_by_their_rule": rcok, "results": rcres,
		"note": "hand-written single-instance breaks of rules that no seeded change exercises; applied in memory like the seeds"}

	// ---- 3. negative controls: committed behaviour-preserving refactorings (/verif/negctl/*/patch.diff) that touch a
	// package this check analyses are applied in memory; the check must stay silent on them
	pkgs := map[string]bool{}
	for f := range c.Funcs {
		if i := strings.Index(f, ".("); i >= 0 {
			pkgs[f[:i]] = true
		} else if i := strings.LastIndex(f, "."); i >= 0 {
			pkgs[f[:i]] = true
		}
	}
	negRoot := filepath.Join(home(), "negctl")
	nents, _ := os.ReadDir(negRoot)
	var nres []map[string]interface{}
	var npending []variantJob
	nrun, nsilent := 0, 0
	for _, e := range nents {
		if !e.IsDir() {
			continue
		}
		pf := filepath.Join(negRoot, e.Name(), "patch.diff")
		pb, err := os.ReadFile(pf)
		if err != nil {
			continue
		}
		touches := false
		for _, fp := range parseUnifiedDiff(string(pb)) {
			if pkgs[filepath.Dir(fp.path)] {
				touches = true
			}
		}
		if !touches {
			continue
		}
		r := map[string]interface{}{"control": e.Name()}
		npending = append(npending, variantJob{r: r, patch: pf})
	}
	runVariants(c.ID, npending)
	for _, j := range npending {
		switch {
		case strings.HasPrefix(j.status, "skipped"):
			j.r["result"] = j.status
		case j.status != "decided":
			nrun++
			j.r["result"] = "UNDECIDED on control: " + j.status
		case len(j.keys) > 0:
			nrun++
			j.r["result"] = "FALSE ALARM"
			j.r["violations"] = j.keys
		default:
			nrun++
			nsilent++
			j.r["result"] = "silent"
		}
		nres = append(nres, j.r)
	}
	c.Extra["negative_controls"] = map[string]interface{}{"controls_run": nrun, "controls_silent": nsilent, "results": nres,
		"note": "behaviour-preserving refactorings written by fresh sub-agents and validated (build + package tests); applied in memory; the check must report nothing on them"}
	for _, r := range nres {
		if r["result"] != "silent" && !strings.HasPrefix(fmt.Sprint(r["result"]), "skipped") {
			fmt.Printf("SELF-VALIDATION WARNING: check %s is not silent on negative control %v: %v\n", c.ID, r["control"], r["result"])
		}
	}
}

// withLoaded makes l the program the name-based helpers (transparent helpers) refer to; the returned function
// restores prev.
func withLoaded(l, prev *Loaded) func() {
	curL = l
	transpMemo = nil
	return func() {
		curL = prev
		transpMemo = nil
	}
}

type variantJob struct {
	r      map[string]interface{}
	patch  string
	keys   []string
	status string
}

// runVariants runs this binary once per job ("check <id> quick" with the patch as in-memory overlay) and collects the
// keys of the obligations that failed. Child processes, at most three at a time: every variant builds a whole SSA
// program, and a process that loaded dozens of them was killed for memory.
func runVariants(id string, jobs []variantJob) {
	sem := make(chan struct{}, 3)
	done := make(chan int, len(jobs))
	for i := range jobs {
		go func(i int) {
			sem <- struct{}{}
			defer func() { <-sem; done <- i }()
			cmd := exec.Command(os.Args[0], "check", id, "quick")
			cmd.Env = append(os.Environ(), "AKVERIF_OVERLAY="+jobs[i].patch, "AKVERIF_SUB=1", "GOMAXPROCS=4")
			out, _ := cmd.Output()
			jobs[i].status = "no result"
			for _, line := range strings.Split(string(out), "\n") {
				if strings.HasPrefix(line, "SUBKEY ") {
					jobs[i].keys = append(jobs[i].keys, strings.TrimPrefix(line, "SUBKEY "))
				}
				if strings.HasPrefix(line, "SUBSTATUS ") {
					jobs[i].status = strings.TrimPrefix(line, "SUBSTATUS ")
				}
			}
			sort.Strings(jobs[i].keys)
		}(i)
	}
	for range jobs {
		<-done
	}
}
