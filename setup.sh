#!/bin/sh
# builds the checker from files on disk only (offline)
set -e
cd "$(dirname "$0")"
exec ./akverif.sh build
