#!/usr/bin/env python3
"""Assembles /verif/seeded/<id>/ from validated sub-agent outputs.
usage: mkseeded.py <seedout root> <validation results.jsonl> [<matrix.txt>] [prefix]"""
import json, os, re, shutil, sys
root, resf = sys.argv[1], sys.argv[2]
matrixf = sys.argv[3] if len(sys.argv) > 3 and sys.argv[3] != '-' else None
prefix = sys.argv[4] if len(sys.argv) > 4 else ''
res = {}
for l in open(resf):
    l = l.strip()
    if l.startswith('{'):
        r = json.loads(l); res[r['seed']] = r
matrix = {}
if matrixf and os.path.exists(matrixf):
    for l in open(matrixf):
        parts = l.split()
        if not parts: continue
        matrix[parts[0]] = {kv.split('=')[0]: int(kv.split('=')[1]) for kv in parts[1:]}
out = '/verif/seeded'
os.makedirs(out, exist_ok=True)
for name, r in sorted(res.items()):
    sd = os.path.join(root, name)
    valid = r['applies'] != 'no' and r['build'] == 'ok' and r['existing_tests'] == 'ok' and r['demo_with_change'] == 'fail' and r['demo_without_change'] == 'pass'
    sid = prefix + name
    dst = os.path.join(out, sid)
    if not valid:
        continue
    os.makedirs(dst, exist_ok=True)
    patch = os.path.join(sd, 'patch.rebased.diff')
    if not os.path.exists(patch): patch = os.path.join(sd, 'patch.diff')
    shutil.copy(patch, os.path.join(dst, 'patch.diff'))
    shutil.copy(os.path.join(sd, 'demo_test.go'), os.path.join(dst, 'demo_test.go.txt'))
    readme = open(os.path.join(sd, 'README.md')).read()
    open(os.path.join(dst, 'AGENT_README.md'), 'w').write(readme)
    # "what it needs": first paragraph mentioning need/manifest/trigger
    needs = ''
    for para in re.split(r'\n\s*\n', readme):
        if re.search(r'need|manifest|trigger|requires', para, re.I) and len(para) < 1500:
            needs = ' '.join(para.split()); break
    m = matrix.get(name, {})
    det = sorted(k for k, v in m.items() if v == 1)
    und = sorted(k for k, v in m.items() if v == 2)
    meta = {
        "id": sid,
        "property": name.split('-')[0],
        "origin": "fresh sub-agent given only the property text and a scratch worktree",
        "patch": "patch.diff (git apply on /repo HEAD)",
        "demonstration": "demo_test.go.txt -> copy to " + r['dest'],
        "needs_to_manifest": needs,
        "validated_by_me": {
            "how": "tools/seedvalidate.sh on a scratch worktree of /repo HEAD (with all fix: commits)",
            "patch_applies": r['applies'], "go_build": r['build'],
            "existing_tests_of_affected_package_with_change": r['existing_tests'],
            "demo_with_change": r['demo_with_change'], "demo_without_change": r['demo_without_change'],
        },
        "checks_reporting_violation": det,
        "checks_undecided": und,
    }
    json.dump(meta, open(os.path.join(dst, 'meta.json'), 'w'), indent=1)
    print(sid, 'detected by', det or 'NONE', ('undecided ' + str(und)) if und else '')
