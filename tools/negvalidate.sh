#!/bin/bash
# usage: negvalidate.sh <negctl dir name> : applies the patch on a scratch worktree, builds, runs tests of touched packages
export GOFLAGS=-mod=mod GOPROXY=off GOSUMDB=off GOTOOLCHAIN=local; unset GOWORK
name=$1; d=/verif/negctl/$name; wt=/tmp/nv/$name
mkdir -p /tmp/nv; rm -rf $wt
git -C /repo worktree add -q --detach $wt HEAD || exit 3
cd $wt
ap=ok; git apply $d/patch.diff || ap=no
b=ok; go build ./... >/tmp/nv/$name.build.log 2>&1 || b=fail
pk=$(grep '^+++ b/' $d/patch.diff | sed 's|+++ b/||' | xargs -n1 dirname | sort -u | sed 's|^|./|;s|$|/...|' | tr '\n' ' ')
extra=""
echo "$pk" | grep -q "x/escrow\|x/market\|x/deployment" && extra="./x/market/handler/... ./x/deployment/handler/... ./x/escrow/..."
t=ok; go test -vet=off -count=1 $pk $extra >/tmp/nv/$name.test.log 2>&1 || t=fail
cd /; git -C /repo worktree remove --force $wt
echo "{\"neg\":\"$name\",\"applies\":\"$ap\",\"build\":\"$b\",\"tests\":\"$t\",\"packages\":\"$pk$extra\"}"
