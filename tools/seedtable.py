#!/usr/bin/env python3
"""Rewrites the seed table in DESIGN.md from /verif/seeded/*/meta.json."""
import json, glob, os, re
rows = []
for f in sorted(glob.glob('/verif/seeded/*/meta.json')):
    m = json.load(open(f))
    patch = open(os.path.join(os.path.dirname(f), 'patch.diff')).read()
    files = sorted(set(re.findall(r'^\+\+\+ b/(\S+)', patch, re.M)))
    det = ', '.join(m.get('checks_reporting_violation') or []) or '**none**'
    und = m.get('checks_undecided') or []
    if und:
        det += ' (undecided: ' + ', '.join(und) + ')'
    own = m['property'] in (m.get('checks_reporting_violation') or [])
    rows.append('| %s | %s | %s | %s | %s |' % (m['id'], m['property'], ', '.join(files), det, 'yes' if own else 'no'))
n = len(rows)
caught = sum(1 for r in rows if '**none**' not in r)
own = sum(1 for r in rows if r.endswith('| yes |'))
table = ['%d seeded changes kept; %d reported by at least one check, %d reported by the check of the property they were written against.' % (n, caught, own), '',
         '| seed | written against | files changed | checks reporting a violation | own check |', '|---|---|---|---|---|'] + rows
p = '/verif/DESIGN.md'
s = open(p).read()
s = re.sub(r'<!-- SEEDTABLE BEGIN -->.*<!-- SEEDTABLE END -->', '<!-- SEEDTABLE BEGIN -->\n' + '\n'.join(table) + '\n<!-- SEEDTABLE END -->', s, flags=re.S)
open(p, 'w').write(s)
print(table[0])
