#!/bin/bash
# usage: matrix.sh <seeds root dir> <out file> : runs every check against every seed on scratch worktrees (parallel)
export GOFLAGS=-mod=mod GOPROXY=off GOSUMDB=off GOTOOLCHAIN=local; unset GOWORK
root=$1; out=$2
mkdir -p /tmp/mx
one() {
  name=$1; sd=$2
  wt=/tmp/mx/wt${MXTAG}-$name; home=/tmp/mx/home${MXTAG}-$name
  rm -rf $wt $home; mkdir -p $home/evidence; cp /verif/known_findings.json $home/
  git -C /repo worktree add -q --detach $wt HEAD || return
  patch=$sd/patch.diff; [ -f $sd/patch.rebased.diff ] && patch=$sd/patch.rebased.diff
  git -C $wt apply $patch 2>/dev/null || git -C $wt apply --3way $patch >/dev/null 2>&1
  line="$name"
  for id in C01 C02 C03 C04 C05 C06 C07 C08 C09 C10 C11 C12 C13 C14 C15 C16 C17 C18 C19 C20; do
    AKVERIF_REPO=$wt AKVERIF_HOME=$home ${AKBIN:-/verif/bin/akverif} check $id quick > $home/$id.log 2>&1; rc=$?
    line="$line $id=$rc"
  done
  echo "$line"
  git -C /repo worktree remove --force $wt >/dev/null 2>&1
}
export -f one
ls $root | xargs -P ${MXP:-6} -I{} bash -c "one {} $root/{}" | sort > $out
