#!/bin/bash
# usage: negtry.sh <patch file> CNN...  : applies a (behaviour-preserving) patch to /repo, runs checks with /tmp/akv (or bin), reverts
export GOFLAGS=-mod=mod GOPROXY=off GOSUMDB=off GOTOOLCHAIN=local; unset GOWORK
patch=$(readlink -f $1); shift
bin=/tmp/akv; [ -x $bin ] || bin=/verif/bin/akverif
git -C /repo apply $patch || exit 3
for c in "$@"; do
  AKVERIF_HOME=/tmp/akvhome $bin check $c 2>&1 | grep -v "^  ok" | tail -${TAILN:-4} | cut -c1-${CUTN:-500}
done
git -C /repo checkout -- .
