#!/bin/bash
# usage: negtry.sh <patch file> CNN...  : applies a (behaviour-preserving) patch to a scratch worktree (/tmp/trywt, never
# /repo itself), runs checks with /tmp/akv (or bin), reverts
export GOFLAGS=-mod=mod GOPROXY=off GOSUMDB=off GOTOOLCHAIN=local; unset GOWORK
patch=$(readlink -f $1); shift
bin=${AKV:-/tmp/akv}; [ -x $bin ] || bin=/verif/bin/akverif
wt=${WT:-/tmp/trywt}; [ -d $wt ] || git -C /repo worktree add -q --detach $wt HEAD || exit 3
git -C $wt checkout -q -- . ; git -C $wt apply $patch || exit 3
mkdir -p /tmp/akvhome/evidence; cp /verif/known_findings.json /tmp/akvhome/
for c in "$@"; do
  AKVERIF_REPO=$wt AKVERIF_HOME=/tmp/akvhome $bin check $c quick 2>&1 | grep -v "^  ok" | tail -${TAILN:-4} | cut -c1-${CUTN:-500}
done
git -C $wt checkout -q -- .
