#!/usr/bin/env python3
"""usage: applymatrix.py <matrix.txt>...  : writes the detections of a tools/matrix.sh run into seeded/<id>/meta.json"""
import json, os, sys
for mf in sys.argv[1:]:
    for l in open(mf):
        parts = l.split()
        if not parts:
            continue
        name = parts[0]
        mp = '/verif/seeded/%s/meta.json' % name
        if not os.path.exists(mp):
            continue
        res = {kv.split('=')[0]: int(kv.split('=')[1]) for kv in parts[1:]}
        m = json.load(open(mp))
        m['checks_reporting_violation'] = sorted(k for k, v in res.items() if v == 1)
        m['checks_undecided'] = sorted(k for k, v in res.items() if v == 2)
        json.dump(m, open(mp, 'w'), indent=1)
        print(name, m['checks_reporting_violation'] or 'NONE', m['checks_undecided'] or '')
