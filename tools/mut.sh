#!/bin/bash
# usage: mut.sh CNN <file-relative-to-repo> <perl-expr> [more file/expr pairs...]
# applies a throw-away mutation to /repo, checks that it still builds, runs the check, reverts.
export GOFLAGS=-mod=mod GOPROXY=off GOSUMDB=off GOTOOLCHAIN=local; unset GOWORK
id=$1; shift
files=()
while [ $# -ge 2 ]; do
  f=$1; e=$2; shift 2
  before=$(md5sum /repo/$f)
  perl -0pi -e "$e" /repo/$f
  [ "$before" = "$(md5sum /repo/$f)" ] && echo "MUTATION DID NOT APPLY: $f $e"
  files+=("$f")
done
(cd /repo && git diff --stat | tail -1 && go build ./... 2>&1 | head -5)
/verif/akverif.sh check $id quick 2>&1 | grep -v "^VIOLATION" | tail -${TAILN:-6}
(cd /repo && git checkout -- .)
