#!/usr/bin/env python3
"""Rule-level coverage of the seeded changes: for every rule id of every check (coverage.per_rule in the
thorough evidence) list the seeds whose re-application produced a violation under that rule.  A rule
that no seed exercises is only known to be silent, not known to fire."""
import json,glob,collections,sys
rules=collections.OrderedDict(); hit=collections.defaultdict(set)
for f in sorted(glob.glob('/verif/evidence/C??.json')):
    e=json.load(open(f)); c=e['coverage']
    if e.get('tier')!='thorough': print('not thorough:',f); continue
    for r,n in c['per_rule'].items(): rules[r]=n
    for res in c['self_validation']['results']:
        for v in res.get('violations',[]):
            hit[v.split('|')[0]].add(res['seed'])
    for res in (c.get('rule_controls',{}).get('results') or []):
        if res.get('result')=='reported by the rule':
            hit[res['rule']].add('rulectl:'+res['control'])
un=[r for r in rules if not hit[r]]
for r in rules: print('%-8s obligations=%-4d seeds=%s'%(r,rules[r],','.join(sorted(hit[r])) or '-'))
print('rules: %d, exercised by a seed: %d, never exercised: %s'%(len(rules),len(rules)-len(un),' '.join(un)))
