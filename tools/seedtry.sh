#!/bin/bash
# usage: seedtry.sh <seed id under /verif/seeded> CNN...   (uses /tmp/akv if present, else bin/akverif)
# works on a scratch worktree (/tmp/trywt), never on /repo itself, so that checks running on /repo are not disturbed
export GOFLAGS=-mod=mod GOPROXY=off GOSUMDB=off GOTOOLCHAIN=local; unset GOWORK
seed=$1; shift
bin=${AKV:-/tmp/akv}; [ -x $bin ] || bin=/verif/bin/akverif
wt=${WT:-/tmp/trywt}; [ -d $wt ] || git -C /repo worktree add -q --detach $wt HEAD || exit 3
git -C $wt checkout -q -- . ; git -C $wt apply /verif/seeded/$seed/patch.diff || exit 3
mkdir -p /tmp/akvhome/evidence; cp /verif/known_findings.json /tmp/akvhome/
for c in "$@"; do
  AKVERIF_REPO=$wt AKVERIF_HOME=/tmp/akvhome $bin check $c quick 2>&1 | grep -v "^  ok" | tail -${TAILN:-6}
done
git -C $wt checkout -q -- .
