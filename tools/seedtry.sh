#!/bin/bash
# usage: seedtry.sh <seed id under /verif/seeded> CNN...   (uses /tmp/akv if present, else bin/akverif)
export GOFLAGS=-mod=mod GOPROXY=off GOSUMDB=off GOTOOLCHAIN=local; unset GOWORK
seed=$1; shift
bin=/tmp/akv; [ -x $bin ] || bin=/verif/bin/akverif
git -C /repo apply /verif/seeded/$seed/patch.diff || exit 3
for c in "$@"; do
  AKVERIF_HOME=/tmp/akvhome $bin check $c 2>&1 | grep -v "^  ok" | tail -${TAILN:-6}
done
git -C /repo checkout -- .
