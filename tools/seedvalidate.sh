#!/bin/bash
# usage: seedvalidate.sh <seed dir with patch.diff/demo_test.go/README.md> <name>
# validates a seeded regression on a scratch worktree of /repo's HEAD; prints a JSON line; removes the worktree.
export GOFLAGS=-mod=mod GOPROXY=off GOSUMDB=off GOTOOLCHAIN=local; unset GOWORK
sd=$1; name=$2
wt=/tmp/sv/$name
rm -rf $wt; mkdir -p /tmp/sv
git -C /repo worktree add -q --detach $wt HEAD || exit 2
trap 'git -C /repo worktree remove --force $wt >/dev/null 2>&1' EXIT
patch=$sd/patch.diff
[ -f $sd/patch.rebased.diff ] && patch=$sd/patch.rebased.diff
applies=yes
if ! git -C $wt apply $patch 2>/dev/null; then
  if git -C $wt apply --3way $patch >/dev/null 2>&1 && ! grep -rq '^<<<<<<<' $wt --include=*.go; then applies=3way; else applies=no; fi
fi
dest=$(grep -m1 '^DEST:' $sd/README.md | sed 's/^DEST:[ ]*//' | tr -d '`' | awk '{print $1}')
[ -z "$dest" ] && dest=$(grep -oE '[a-zA-Z0-9_/.-]+/zz_[a-zA-Z0-9_]*_test\.go|[a-zA-Z0-9_/.-]+_test\.go' $sd/README.md | grep -v '^out/' | grep '/' | head -1)
pkgdir=$(dirname "$dest")
res_build=skip; res_exist=skip; res_demo_with=skip; res_demo_without=skip
if [ $applies != no ] && [ -n "$dest" ] && [ -d "$wt/$pkgdir" ]; then
  (cd $wt && go build ./... >/dev/null 2>&1) && res_build=ok || res_build=FAIL
  (cd $wt && go test -vet=off -count=1 ./$pkgdir/ >/tmp/sv/$name.exist.log 2>&1) && res_exist=ok || res_exist=FAIL
  cp $sd/demo_test.go $wt/$dest
  (cd $wt && go test -vet=off -count=1 -run 'Demo|demo|D[0-9]' ./$pkgdir/ >/tmp/sv/$name.with.log 2>&1) && res_demo_with=PASS || res_demo_with=fail
  # revert the production change, keep the demo
  (cd $wt && git checkout -q -- . 2>/dev/null; git reset -q --hard HEAD; cp $sd/demo_test.go $wt/$dest)
  (cd $wt && go test -vet=off -count=1 -run 'Demo|demo|D[0-9]' ./$pkgdir/ >/tmp/sv/$name.without.log 2>&1) && res_demo_without=pass || res_demo_without=FAIL
fi
echo "{\"seed\":\"$name\",\"applies\":\"$applies\",\"dest\":\"$dest\",\"build\":\"$res_build\",\"existing_tests\":\"$res_exist\",\"demo_with_change\":\"$res_demo_with\",\"demo_without_change\":\"$res_demo_without\"}"
