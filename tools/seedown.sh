#!/bin/bash
# usage: seedown.sh <root of candidate seed dirs named CNN-...> : runs each candidate's own check on a scratch worktree
export GOFLAGS=-mod=mod GOPROXY=off GOSUMDB=off GOTOOLCHAIN=local; unset GOWORK
root=$1
bin=${AKV:-/tmp/akv}; [ -x $bin ] || bin=/verif/bin/akverif
wt=${WT:-/tmp/trywt}; [ -d $wt ] || git -C /repo worktree add -q --detach $wt HEAD || exit 3
mkdir -p /tmp/akvhome/evidence; cp /verif/known_findings.json /tmp/akvhome/
for d in $(ls $root); do
  id=${d:0:3}
  git -C $wt checkout -q -- . ; git -C $wt apply $root/$d/patch.diff || { echo "$d APPLY-FAILED"; continue; }
  out=$(AKVERIF_REPO=$wt AKVERIF_HOME=/tmp/akvhome $bin check $id quick 2>&1); rc=$?
  echo "$d rc=$rc $(echo "$out" | grep -v '^  ok' | grep -v '^VIOLATION' | grep ": $id-R" | head -2 | cut -c1-260 | tr '\n' '|')"
done
git -C $wt checkout -q -- .
