#!/usr/bin/env python3
"""Refreshes the obligation counts in the section-2 headings of DESIGN.md from the evidence files."""
import json,re
t=open('/verif/DESIGN.md').read()
def repl(m):
    pid=m.group(1)
    try:
        e=json.load(open('/verif/evidence/%s.json'%pid)); n=e['coverage']['obligations']
    except Exception:
        return m.group(0)
    rest=m.group(3)
    rest=re.sub(r'^\d+( obligations)?', lambda mm: str(n)+(mm.group(1) or ''), rest)
    return '### %s — %s(%s)'%(pid,m.group(2),rest)
t2=re.sub(r'### (C\d\d) — ([^(\n]*)\(([^)\n]*)\)',repl,t)
open('/verif/DESIGN.md','w').write(t2)
print('updated' if t2!=t else 'unchanged')
