#!/usr/bin/env python3
"""Rewrites the negative-control table in DESIGN.md (between NEGTABLE markers) from the thorough-tier evidence:
for every control, which checks re-applied it (it touches a package they analyse) and what they said."""
import glob, json, os, re
per = {}
for f in sorted(glob.glob('/verif/evidence/C*.json')):
    e = json.load(open(f))
    cid = e['property_id']
    nc = (e.get('coverage') or {}).get('negative_controls') or {}
    for r in nc.get('results') or []:
        per.setdefault(r['control'], {})[cid] = r['result']
rows = []
nsilent = nrun = 0
for d in sorted(glob.glob('/verif/negctl/*/')):
    name = os.path.basename(d.rstrip('/'))
    patch = open(d + 'patch.diff').read()
    files = sorted(set(re.findall(r'^\+\+\+ b/(\S+)', patch, re.M)))
    r = per.get(name, {})
    bad = sorted(k for k, v in r.items() if v != 'silent' and not str(v).startswith('skipped'))
    ran = sorted(k for k, v in r.items() if not str(v).startswith('skipped'))
    if not ran:
        out = 'touches no analysed package'
    elif bad:
        out = 'NOT silent: ' + ', '.join('%s (%s)' % (k, str(r[k])[:40]) for k in bad)
        nrun += 1
    else:
        out = 'silent'
        nrun += 1
        nsilent += 1
    rows.append('| %s | %s | %s | %s |' % (name, ', '.join(files), ', '.join(ran) or '-', out))
table = ['%d behaviour-preserving refactorings; %d are re-applied by at least one check in the thorough tier; all re-applying checks are silent on %d of them.' % (len(rows), nrun, nsilent), '',
         '| control | files changed | checks that re-apply it | result |', '|---|---|---|---|'] + rows
p = '/verif/DESIGN.md'
s = open(p).read()
s = re.sub(r'<!-- NEGTABLE BEGIN -->.*<!-- NEGTABLE END -->', '<!-- NEGTABLE BEGIN -->\n' + '\n'.join(table) + '\n<!-- NEGTABLE END -->', s, flags=re.S)
open(p, 'w').write(s)
print(table[0])
