#!/usr/bin/env python3
"""usage: negtable.py <matrix_neg.txt> : rewrites the negative-control table in DESIGN.md (between NEGTABLE markers)"""
import glob, os, re, sys
res = {}
for l in open(sys.argv[1]):
    parts = l.split()
    if parts:
        res[parts[0]] = {kv.split('=')[0]: int(kv.split('=')[1]) for kv in parts[1:]}
rows = []
nsilent = 0
for d in sorted(glob.glob('/verif/negctl/*/')):
    name = os.path.basename(d.rstrip('/'))
    patch = open(d + 'patch.diff').read()
    files = sorted(set(re.findall(r'^\+\+\+ b/(\S+)', patch, re.M)))
    funcs = sorted(set(re.findall(r'^@@.*@@ func (?:\([^)]*\) )?(\w+)', patch, re.M)))
    r = res.get(name)
    if r is None:
        out = 'not run'
    else:
        bad = sorted(k for k, v in r.items() if v != 0)
        out = 'silent (20/20)' if not bad else 'NOT silent: ' + ', '.join(bad)
        nsilent += 0 if bad else 1
    rows.append('| %s | %s | %s | %s |' % (name, ', '.join(files), ', '.join(funcs[:4]) or '-', out))
table = ['%d behaviour-preserving refactorings; all 20 checks silent on %d of them.' % (len(rows), nsilent), '',
         '| control | files changed | functions (hunk context) | all 20 checks |', '|---|---|---|---|'] + rows
p = '/verif/DESIGN.md'
s = open(p).read()
s = re.sub(r'<!-- NEGTABLE BEGIN -->.*<!-- NEGTABLE END -->', '<!-- NEGTABLE BEGIN -->\n' + '\n'.join(table) + '\n<!-- NEGTABLE END -->', s, flags=re.S)
open(p, 'w').write(s)
print(table[0])
