#!/bin/bash
# usage: seedrun.sh <patch.diff> CNN [CNN...] : apply patch to /repo, run the checks, revert.
export GOFLAGS=-mod=mod GOPROXY=off GOSUMDB=off GOTOOLCHAIN=local; unset GOWORK
patch=$(readlink -f "$1"); shift
if ! git -C /repo apply --check "$patch" 2>/dev/null; then echo "PATCH DOES NOT APPLY: $patch"; exit 3; fi
git -C /repo apply "$patch"
(cd /repo && go build ./... 2>&1 | head -5)
for id in "$@"; do
  out=$(/verif/akverif.sh check $id quick 2>&1); rc=$?
  echo "== $id rc=$rc"; echo "$out" | grep -v "^VIOLATION" | tail -${TAILN:-4}
done
git -C /repo checkout -- . 
git -C /repo status --short | head -3
