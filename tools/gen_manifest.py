#!/usr/bin/env python3
"""Regenerates MANIFEST.json from tools/claims.json (one entry per claimed property).
Properties without an entry are listed under not_applicable with the reason from tools/na.json."""
import json, os
here = os.path.dirname(os.path.abspath(__file__))
root = os.path.dirname(here)
props = [json.loads(l) for l in open(os.path.join(root, 'properties.jsonl'))]
claims = json.load(open(os.path.join(here, 'claims.json')))
na = json.load(open(os.path.join(here, 'na.json')))
checks = []
notapp = []
for p in props:
    pid = p['id']
    if pid in claims:
        c = claims[pid]
        checks.append({
            "property_id": pid,
            "quick_cmd": "./akverif.sh check %s quick" % pid,
            "thorough_cmd": "./akverif.sh check %s thorough" % pid,
            "evidence_file": "/verif/evidence/%s.json" % pid,
            "replay_cmd_template": "./akverif.sh explain {path}",
            "engine": "akverif",
            "level_claimed": {"category": "other", "text": c["text"], "design_ref": "DESIGN.md section 2, " + pid},
            "level_note": c["note"],
            "technique": c["technique"],
        })
    else:
        notapp.append({"property_id": pid, "reason": na.get(pid, "check not built yet (see DESIGN.md section 2)")})
m = {
    "version": 1,
    "setup_cmd": "./setup.sh",
    "hooks": {"guard": "verif", "enable": "none needed: every check is static and reads /repo's working tree; no hook commits exist",
              "baseline_off_cmd": "cd /repo && GOFLAGS=-mod=mod go test -vet=off -count=1 -timeout 25m ./...",
              "source_commits": [], "add_only": True},
    "engines": [{"name": "akverif", "path": "/verif/akverif", "serves_properties": sorted(claims.keys()),
                 "kind_free_text": "repository-specific static analyser (go/packages + go/types + go/ssa + dominators + VTA call graph, golang.org/x/tools v0.29.0); one rule set per property; no akash code is executed"}],
    "checks": checks,
    "notes": "Static analysis only. Every claimed property is claimed at level 'other': structural necessary conditions decided for all paths/call sites; the undecided behavioural clauses are listed per property in DESIGN.md section 3 and in each evidence file (coverage.not_decided).",
    "not_applicable": notapp,
}
json.dump(m, open(os.path.join(root, 'MANIFEST.json'), 'w'), indent=1)
print("claimed:", len(checks), "not applicable:", len(notapp))
