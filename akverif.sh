#!/bin/sh
# wrapper: offline Go environment, incremental build of the checker, exec.
set -e
HERE="$(cd "$(dirname "$0")" && pwd)"
export GOFLAGS=-mod=mod GOPROXY=off GOSUMDB=off GOTOOLCHAIN=local
unset GOWORK
BIN="$HERE/bin/akverif"
need=0
[ -x "$BIN" ] || need=1
if [ $need = 0 ]; then
  for f in "$HERE"/akverif/*.go "$HERE"/akverif/*.json "$HERE"/akverif/go.mod; do
    if [ "$f" -nt "$BIN" ]; then need=1; break; fi
  done
fi
if [ $need = 1 ] || [ "$1" = build ]; then
  mkdir -p "$HERE/bin"
  (cd "$HERE/akverif" && go build -o "$BIN.tmp.$$" . && mv "$BIN.tmp.$$" "$BIN")
fi
[ "$1" = build ] && exit 0
export AKVERIF_HOME="$HERE"
exec "$BIN" "$@"
